"""THROWAWAY feasibility spike for DESIGN.md engine E5 (tokenizer abstract interpreter).

Not part of /verif machinery.  Reads /repo/TexSoup/{utils,category,tokens}.py with ast only.
"""
import ast, sys, string, itertools, collections

REPO = sys.argv[1] if len(sys.argv) > 1 else '/repo/TexSoup'

# ----------------------------------------------------------------------------- E0 (mini)


class Fold:
    """Whitelisted evaluator for module-level initialisers."""

    def __init__(self):
        self.env = {'string': string, 'set': set, 'tuple': tuple, 'chr': chr, 'max': max,
                    'len': len}
        self.enums = {}

    def ev(self, n):
        if isinstance(n, ast.Constant):
            return n.value
        if isinstance(n, ast.Name):
            return self.env[n.id]
        if isinstance(n, ast.Tuple):
            return tuple(self.ev(e) for e in n.elts)
        if isinstance(n, ast.List):
            return [self.ev(e) for e in n.elts]
        if isinstance(n, ast.Set):
            return {self.ev(e) for e in n.elts}
        if isinstance(n, ast.Dict):
            return {self.ev(k): self.ev(v) for k, v in zip(n.keys, n.values)}
        if isinstance(n, ast.Attribute):
            base = self.ev(n.value)
            if isinstance(base, dict) and base.get('__enum__'):
                return base[n.attr]
            return getattr(base, n.attr)
        if isinstance(n, ast.BinOp):
            l, r = self.ev(n.left), self.ev(n.right)
            if isinstance(n.op, ast.Add):
                return l + r
            if isinstance(n.op, ast.Sub):
                return l - r
            raise NotImplementedError(ast.dump(n.op))
        if isinstance(n, ast.Call):
            if isinstance(n.func, ast.Name) and n.func.id == 'IntEnum':
                name = self.ev(n.args[0])
                keys = self.ev(n.args[1])
                start = 1
                for kw in n.keywords:
                    if kw.arg == 'start':
                        start = self.ev(kw.value)
                d = {'__enum__': name}
                for i, k in enumerate(keys, start=start):
                    d[k] = i
                return d
            if isinstance(n.func, ast.Attribute) and n.func.attr == 'union':
                return set(self.ev(n.func.value)) | set(self.ev(n.args[0]))
            f = self.ev(n.func)
            args = [self.ev(a) for a in n.args]
            if f is max and isinstance(args[0], dict):
                return max(v for k, v in args[0].items() if k != '__enum__')
            return f(*args)
        if isinstance(n, ast.SetComp):
            out = set()
            self._comp(n.generators, 0, lambda: out.add(self.ev(n.elt)))
            return out
        raise NotImplementedError(ast.dump(n)[:80])

    def _comp(self, gens, i, emit):
        if i == len(gens):
            emit()
            return
        g = gens[i]
        for v in self.ev(g.iter):
            self.env[g.target.id] = v
            self._comp(gens, i + 1, emit)

    def load(self, path, names):
        mod = ast.parse(open(path).read())
        for st in mod.body:
            if isinstance(st, ast.Assign) and len(st.targets) == 1 and isinstance(st.targets[0], ast.Name) \
                    and st.targets[0].id in names:
                self.env[st.targets[0].id] = self.ev(st.value)
        return mod


F = Fold()
F.load(REPO + '/utils.py', {'CC', 'TC'})
F.load(REPO + '/category.py', {'others', 'CATEGORY_CODES'})
tokmod = F.load(REPO + '/tokens.py', {'BRACKETS_DELIMITERS', 'SIZE_PREFIX', 'PUNCTUATION_COMMANDS'})
CC = {k: v for k, v in F.env['CC'].items() if k != '__enum__'}
TC = {k: v for k, v in F.env['TC'].items() if k != '__enum__'}
CCn = {v: k for k, v in CC.items()}
TCn = {v: k for k, v in TC.items()}
CATEGORY_CODES = F.env['CATEGORY_CODES']
PUNCT = F.env['PUNCTUATION_COMMANDS']


def cat_of_char(ch):
    for cc, values in CATEGORY_CODES.items():
        if ch in values:
            return cc
    return CC['Other']


# alphabet: the categories categorize() can produce; Other split on '*'
PRODUCED = sorted({cc for cc in CATEGORY_CODES} | {CC['Other']})
SYMS = []
for cc in PRODUCED:
    if cc == CC['Other']:
        SYMS += ['Other*', 'Other']
    else:
        SYMS.append(CCn[cc])
EOF, NONE = 'EOF', 'NONE'           # NONE only at offset -1 (before start of input)
TOP = frozenset(SYMS) | {EOF}
TOPM1 = frozenset(SYMS) | {NONE}


def sym_cc(sym):
    return CC['Other'] if sym.startswith('Other') else CC[sym]


def sym_of_char(ch):
    cc = cat_of_char(ch)
    if cc == CC['Other']:
        return 'Other*' if ch == '*' else 'Other'
    return CCn[cc]


# registry in source order
funcs = {n.name: n for n in tokmod.body if isinstance(n, ast.FunctionDef)}
REGISTRY = []
for n in tokmod.body:
    if isinstance(n, ast.FunctionDef):
        for d in n.decorator_list:
            if isinstance(d, ast.Call) and isinstance(d.func, ast.Name) and d.func.id == 'token':
                REGISTRY.append((d.args[0].value, n))

# ----------------------------------------------------------------------------- abstract machine
MAXK = 16


class St:
    """Abstract state (immutable by convention; copy on write)."""
    __slots__ = ('W', 'moved', 'eaten', 'vars', 'Wentry', 'log')

    def __init__(s, W, moved=0, eaten=frozenset(), vars=None, Wentry=None, log=()):
        s.W, s.moved, s.eaten, s.vars, s.Wentry, s.log = W, moved, eaten, vars or {}, Wentry, log

    def copy(s, **kw):
        n = St(s.W, s.moved, s.eaten, dict(s.vars), s.Wentry, s.log)
        for k, v in kw.items():
            setattr(n, k, v)
        return n

    def key(s):
        return (s.W, s.moved, s.eaten, tuple(sorted((k, repr(v)) for k, v in s.vars.items())))

    def slot(s, off):
        return s.W[off + 1]

    def with_slot(s, off, val):
        W = list(s.W)
        W[off + 1] = frozenset(val)
        if val == {EOF} or val == frozenset({EOF}):
            for j in range(off + 2, len(W)):
                W[j] = frozenset({EOF})
        return s.copy(W=tuple(W))

    def consume(s, n):
        """Advance cursor by n (all n slots must be non-EOF)."""
        W = list(s.W)
        eaten = set(s.eaten)
        for k in range(n):
            eaten |= {x for x in W[1 + k]}
        last_is_eof = W[-1] == frozenset({EOF})
        newW = [W[n]] + W[n + 1:] + [frozenset({EOF}) if last_is_eof else TOP] * n
        # a slot right of an EOF slot is EOF
        def freeze(v):
            if v[0] == 'slotcat':
                return ('catval', frozenset(sym_cc(x) for x in W[v[1] + 1] if x not in (EOF, NONE)))
            if v[0] == 'tuple':
                return ('tuple', tuple(freeze(x) for x in v[1]))
            if v[0] == 'item':
                return ('staleitem',)
            return v
        ns = s.copy(W=tuple(newW), moved=min(s.moved + n, 3), eaten=frozenset(eaten))
        ns.vars = {k: freeze(v) for k, v in s.vars.items()}
        return ns


class Tok:
    def __init__(t, start_entry, sync, empty, pos, kind, firstcats=None):
        t.start_entry, t.sync, t.empty, t.pos, t.kind, t.firstcats = start_entry, sync, empty, pos, kind, firstcats

    def __repr__(t):
        return 'Tok(entry=%s sync=%s empty=%s pos=%s kind=%s)' % (t.start_entry, t.sync, t.empty, t.pos, t.kind)

    def cp(t, **kw):
        n = Tok(t.start_entry, t.sync, t.empty, t.pos, t.kind, t.firstcats)
        for k, v in kw.items():
            setattr(n, k, v)
        return n


class Dead(Exception):
    pass


FINDINGS = collections.defaultdict(set)     # kind -> {(fn, lineno, detail)}


class Interp:
    def __init__(self, fn, prev):
        self.fn = fn
        self.prev = prev

    # ---- expressions: return list of (value, state)
    def ev(self, n, s):
        m = getattr(self, 'ev_' + type(n).__name__, None)
        if m is None:
            raise NotImplementedError('expr %s at %s:%d' % (type(n).__name__, self.fn.name, n.lineno))
        return m(n, s)

    def ev_Constant(self, n, s):
        return [(('const', n.value), s)]

    def ev_Tuple(self, n, s):
        outs = [((), s)]
        for e in n.elts:
            outs = [(acc + (v,), s2) for acc, s1 in outs for v, s2 in self.ev(e, s1)]
        return [(('tuple', acc), s1) for acc, s1 in outs]

    def ev_Dict(self, n, s):
        d = {}
        for k, v in zip(n.keys, n.values):
            (kv, _), = self.ev(k, s)
            (vv, _), = self.ev(v, s)
            d[self.constkey(kv)] = vv
        return [(('dict', d), s)]

    def constkey(self, v):
        if v[0] == 'const':
            return v[1]
        if v[0] == 'tuple':
            return tuple(self.constkey(x) for x in v[1])
        raise NotImplementedError(v)

    def ev_Name(self, n, s):
        if n.id in s.vars:
            return [(s.vars[n.id], s)]
        if n.id == 'text':
            return [(('cursor',), s)]
        if n.id == 'prev':
            return [(self.prev, s)]
        if n.id in ('PUNCTUATION_COMMANDS',):
            return [(('pyset', PUNCT), s)]
        if n.id == 'None':
            return [(('none',), s)]
        raise NotImplementedError('name %s in %s:%d' % (n.id, self.fn.name, n.lineno))

    def ev_Attribute(self, n, s):
        if isinstance(n.value, ast.Name) and n.value.id in ('CC', 'TC'):
            tab = CC if n.value.id == 'CC' else TC
            return [(('const', tab[n.attr]), s)]
        out = []
        for v, s1 in self.ev(n.value, s):
            if n.attr == 'category':
                if v[0] == 'item':
                    out.append((('slotcat', v[1]), s1))
                elif v[0] == 'none':
                    FINDINGS['none-deref'].add((self.fn.name, n.lineno, ast.unparse(n)))
                    continue  # path dies with AttributeError
                elif v[0] == 'tok':
                    out.append((('tokkind', v[1]), s1))
                elif v[0] == 'prevtok':
                    out.append((('catset', frozenset(TC.values())), s1))
                else:
                    raise NotImplementedError(('category of', v))
            elif n.attr == 'position':
                if v[0] == 'cursor':
                    out.append((('pos', s1.moved), s1))
                elif v[0] == 'tok':
                    out.append((('tokpos', v[1]), s1))
                elif v[0] == 'none':
                    FINDINGS['none-deref'].add((self.fn.name, n.lineno, ast.unparse(n)))
                    continue
                else:
                    raise NotImplementedError(('position of', v))
            else:
                raise NotImplementedError('attr %s' % n.attr)
        return out

    def ev_UnaryOp(self, n, s):
        if isinstance(n.op, ast.USub):
            (v, s1), = self.ev(n.operand, s)
            return [(('const', -v[1]), s1)]
        assert isinstance(n.op, ast.Not)
        return [(('bool', not b), s1) for b, s1 in self.cond(n.operand, s)]

    def ev_BoolOp(self, n, s):
        return [(('bool', b), s1) for b, s1 in self.cond(n, s)]

    def ev_Compare(self, n, s):
        return [(('bool', b), s1) for b, s1 in self.cond(n, s)]

    def ev_BinOp(self, n, s):
        (l, s1), = self.ev(n.left, s)
        (r, s2), = self.ev(n.right, s1)
        if isinstance(n.op, ast.Sub) and l[0] == 'pos' and r[0] == 'tokpos':
            return [(('rollback_to', r[1].pos), s2)]
        raise NotImplementedError(ast.unparse(n))

    def ev_Subscript(self, n, s):
        (d, s1), = self.ev(n.value, s)
        outs = []
        for k, s2 in self.ev(n.slice, s1):
            assert d[0] == 'dict'
            if k[0] == 'tokkind':
                t = k[1]
                assert t.kind[0] == 'inh'
                kinds = set()
                for sym in t.kind[1]:
                    kinds.add(d[1][sym_cc(sym)][1])
                outs.append((('kinds', frozenset(kinds)), s2))
            elif k[0] == 'tuple':
                # both components are slotcats refined to singletons by the guard
                key = []
                for c in k[1]:
                    if c[0] == 'catval':
                        assert len(c[1]) == 1, c
                        key.append(next(iter(c[1])))
                        continue
                    assert c[0] == 'slotcat'
                    syms = s2.slot(c[1])
                    assert len({sym_cc(x) for x in syms}) == 1, syms
                    key.append(sym_cc(next(iter(syms))))
                outs.append((d[1][tuple(key)], s2))
            else:
                raise NotImplementedError(k)
        return outs

    def ev_Call(self, n, s):
        f = n.func
        # cursor methods
        if isinstance(f, ast.Attribute) and isinstance(f.value, ast.Name) and f.value.id == 'text':
            a = f.attr
            if a == 'peek':
                if not n.args:
                    off = 0
                else:
                    (av, s), = self.ev(n.args[0], s)
                    if av[0] == 'tuple':
                        lo, hi = av[1][0][1], av[1][1][1]
                        return [(('range', lo, hi), s)]
                    off = av[1]
                return self.peek(off, s)
            if a == 'hasNext':
                k = 1
                if n.args:
                    (av, s), = self.ev(n.args[0], s)
                    k = av[1]
                outs = []
                for v, s1 in self.peek(k - 1, s):
                    outs.append((('bool', v[0] != 'none'), s1))
                return outs
            if a == 'forward':
                k = 1
                if n.args:
                    (av, s), = self.ev(n.args[0], s)
                    k = av[1]
                return self.forward(k, s, n)
            if a == 'backward':
                (av, s), = self.ev(n.args[0], s)
                assert av[0] == 'rollback_to', av
                if av[1] != ('cursor', 0):
                    raise NotImplementedError('rollback to non-entry %r' % (av,))
                s2 = s.copy(W=s.Wentry, moved=0, eaten=frozenset())
                return [(('none',), s2)]
            raise NotImplementedError('text.%s' % a)
        if isinstance(f, ast.Attribute) and f.attr == 'keys':
            (d, s), = self.ev(f.value, s)
            assert d[0] == 'dict'
            return [(('keys', set(d[1].keys())), s)]
        if isinstance(f, ast.Name) and f.id == 'sorted':
            (base, s), = self.ev(n.args[0], s)
            assert base[0] == 'pyset'
            keyf = None
            for kw in n.keywords:
                if kw.arg == 'key':
                    keyf = eval(compile(ast.Expression(kw.value), '<key>', 'eval'), {'len': len})  # spike only
            return [(('pylist', sorted(base[1], key=keyf)), s)]
        if isinstance(f, ast.Name):
            if f.id == 'next':
                outs = []
                for v, s1 in self.peek(0, s):
                    if v[0] == 'none':
                        FINDINGS['stopiteration'].add((self.fn.name, n.lineno, ast.unparse(n)))
                        continue
                    outs += self.forward(1, s1, n)
                return outs
            if f.id == 'len':
                (av, s), = self.ev(n.args[0], s)
                return [(('const', len(av[1])), s)]
            if f.id == 'Token':
                (a0, s), = self.ev(n.args[0], s)
                kind = None
                for kw in n.keywords:
                    if kw.arg == 'category':
                        (kv, s), = self.ev(kw.value, s)
                        kind = ('tc', frozenset({kv[1]}))
                if a0[0] == 'const' and a0[1] == '':
                    (p, s), = self.ev(n.args[1], s)
                    assert p[0] == 'pos'
                    return [(('tok', Tok(p[1] == 0, True, True, ('cursor', p[1]), kind)), s)]
                if a0[0] == 'tok':
                    # Token(t, p): per utils.Token.__new__, position/text copied from t
                    if len(n.args) > 1:
                        (_, s), = self.ev(n.args[1], s)
                    t = a0[1].cp()
                    if kind:
                        t.kind = kind
                    return [(('tok', t), s)]
            if f.id in ('f',):
                raise NotImplementedError
        raise NotImplementedError('call %s at %d' % (ast.unparse(n), n.lineno))

    def peek(self, off, s):
        cur = s.slot(off)
        outs = []
        absent = {EOF, NONE} & cur
        present = cur - {EOF, NONE}
        if present:
            outs.append((('item', off), s.with_slot(off, present) if absent else s))
        if absent:
            outs.append((('none',), s.with_slot(off, absent) if present else s))
        return outs

    def forward(self, k, s, node):
        # split on how many of the k slots exist
        outs = []
        states = [s]
        for j in range(k):
            nxt = []
            for st in states:
                for v, s1 in self.peek(j, st):
                    if v[0] == 'none':
                        FINDINGS['short-forward'].add((self.fn.name, node.lineno, ast.unparse(node)))
                    else:
                        nxt.append(s1)
            states = nxt
        for st in states:
            first = st.slot(0)
            tok = Tok(st.moved == 0, True, False, ('first', st.moved), ('inh', frozenset(first)))
            outs.append((('tok', tok), st.consume(k)))
        return outs

    # ---- conditions: list of (bool, state)
    def cond(self, n, s):
        if isinstance(n, ast.BoolOp):
            isand = isinstance(n.op, ast.And)
            outs = []
            frontier = [s]
            for i, e in enumerate(n.values):
                nxt = []
                for st in frontier:
                    for b, s1 in self.cond(e, st):
                        if b == isand and i < len(n.values) - 1:
                            nxt.append(s1)
                        else:
                            outs.append((b, s1))
                frontier = nxt
            return outs
        if isinstance(n, ast.UnaryOp) and isinstance(n.op, ast.Not):
            return [(not b, s1) for b, s1 in self.cond(n.operand, s)]
        if isinstance(n, ast.Compare):
            assert len(n.ops) == 1
            op = n.ops[0]
            outs = []
            for l, s1 in self.ev(n.left, s):
                for r, s2 in self.ev(n.comparators[0], s1):
                    outs += self.compare(op, l, r, s2, n)
            return outs
        # truthiness
        outs = []
        for v, s1 in self.ev(n, s):
            outs += self.truth(v, s1)
        return outs

    def truth(self, v, s):
        if v[0] == 'bool':
            return [(v[1], s)]
        if v[0] == 'none':
            return [(False, s)]
        if v[0] == 'item':
            return [(True, s)]      # a char token is non-empty
        if v[0] == 'tok':
            return [(not v[1].empty, s)]
        raise NotImplementedError(('truth', v))

    def catset_of(self, v, s):
        """(symbols-or-ints, refine) for category-valued v"""
        raise NotImplementedError

    def compare(self, op, l, r, s, node):
        neg = isinstance(op, (ast.NotEq, ast.NotIn, ast.IsNot))
        if isinstance(op, (ast.Is, ast.IsNot)):
            assert r[0] == 'none' or r == ('const', None), r
            isnone = l[0] == 'none'
            if l[0] == 'prevany':
                return [(not neg, s), (neg, s)]
            return [((isnone) != neg, s)]
        if isinstance(op, (ast.Eq, ast.NotEq)):
            if l[0] == 'slotcat' and r[0] == 'const':
                return self.split_slot(l[1], {r[1]}, s, neg)
            if l[0] == 'catset' and r[0] == 'const':
                if r[1] not in l[1]:
                    return [(neg, s)]
                return [(True, s), (False, s)]
            if l[0] == 'item' and r[0] == 'const' and isinstance(r[1], str):
                want = sym_of_char(r[1])
                cur = s.slot(l[1])
                outs = []
                if want in cur:
                    # NB: equality of *text*; for Other* the symbol is exact, otherwise nondeterministic
                    if want == 'Other*':
                        outs.append((not neg, s.with_slot(l[1], {want})))
                        if cur - {want}:
                            outs.append((neg, s.with_slot(l[1], cur - {want})))
                    else:
                        outs += [(not neg, s.with_slot(l[1], {want})), (neg, s)]
                else:
                    outs.append((neg, s))
                return outs
            if l[0] == 'none' and r[0] == 'const':
                return [(neg, s)]
            if l[0] == 'range' and r[0] == 'const' and isinstance(r[1], str):
                p = r[1]
                # match: refine slots; nomatch: unchanged
                outs = [(neg, s)]
                st = s
                ok = True
                for k, ch in enumerate(p):
                    sym = sym_of_char(ch)
                    if sym not in st.slot(k):
                        ok = False
                        break
                    st = st.with_slot(k, {sym})
                if ok:
                    outs.append((not neg, st))
                return outs
            raise NotImplementedError(('eq', l, r, node.lineno))
        if isinstance(op, (ast.In, ast.NotIn)):
            if r[0] == 'tuple':
                ints = {c[1] for c in r[1]}
            elif r[0] == 'dict':
                ints = set(r[1].keys())
            elif r[0] == 'keys':
                ints = set(r[1])
            else:
                raise NotImplementedError(('in', r))
            if l[0] == 'slotcat':
                return self.split_slot(l[1], ints, s, neg)
            if l[0] == 'tuple':
                # tuple of slotcats in dict-of-tuples
                outs = []
                a, b = l[1]
                assert a[0] == 'slotcat' and b[0] == 'slotcat'
                for ka in sorted({sym_cc(x) for x in s.slot(a[1])}):
                    for bA, sA in self.split_slot(a[1], {ka}, s, False):
                        if not bA:
                            continue
                        for kb in sorted({sym_cc(x) for x in sA.slot(b[1])}):
                            for bB, sB in self.split_slot(b[1], {kb}, sA, False):
                                if not bB:
                                    continue
                                outs.append((((ka, kb) in ints) != neg, sB))
                return outs
            raise NotImplementedError(('in-left', l))
        raise NotImplementedError(ast.dump(op))

    def split_slot(self, off, ints, s, neg):
        cur = s.slot(off)
        yes = {x for x in cur if x not in (EOF, NONE) and sym_cc(x) in ints}
        no = cur - yes
        outs = []
        if yes:
            outs.append((not neg, s.with_slot(off, yes)))
        if no:
            outs.append((neg, s.with_slot(off, no)))
        return outs

    # ---- statements: list of (outcome, state); outcome in 'next','break','continue',('return',v)
    def block(self, stmts, s):
        frontier = [s]
        done = []
        for st in stmts:
            nxt = []
            for cur in frontier:
                for out, s1 in self.stmt(st, cur):
                    (nxt if out == 'next' else done).append((out, s1))
            frontier = [s1 for _, s1 in nxt]
        return done + [('next', f) for f in frontier]

    def stmt(self, n, s):
        if isinstance(n, ast.Expr):
            if isinstance(n.value, ast.Constant):
                return [('next', s)]
            return [('next', s1) for _, s1 in self.ev(n.value, s)]
        if isinstance(n, ast.Assign):
            t = n.targets[0]
            outs = []
            for v, s1 in self.ev(n.value, s):
                if isinstance(t, ast.Name):
                    s2 = s1.copy()
                    s2.vars[t.id] = v
                    outs.append(('next', s2))
                elif isinstance(t, ast.Attribute) and t.attr == 'category':
                    (tv, _), = self.ev(t.value, s1)
                    assert tv[0] == 'tok'
                    if tv[1].empty:
                        FINDINGS['store-on-maybe-shared-empty'].add((self.fn.name, n.lineno, ast.unparse(n)))
                    if v[0] == 'const':
                        kind = ('tc', frozenset({v[1]}))
                    elif v[0] == 'kinds':
                        kind = ('tc', v[1])
                    else:
                        raise NotImplementedError(v)
                    s2 = s1.copy()
                    s2.vars[t.value.id] = ('tok', tv[1].cp(kind=kind))
                    outs.append(('next', s2))
                else:
                    raise NotImplementedError(ast.unparse(n))
            return outs
        if isinstance(n, ast.AugAssign):
            assert isinstance(n.op, ast.Add) and isinstance(n.target, ast.Name)
            outs = []
            for v, s1 in self.ev(n.value, s):
                a = s1.vars[n.target.id]
                assert a[0] == 'tok' and v[0] == 'tok', (a, v)
                A, B = a[1], v[1]
                # contiguity: A must have been in sync with the cursor *before* B was consumed
                if not A.sync:
                    FINDINGS['non-contiguous'].add((self.fn.name, n.lineno, ast.unparse(n)))
                t = A.cp(empty=A.empty and B.empty, sync=A.sync and B.sync)
                s2 = s1.copy()
                s2.vars[n.target.id] = ('tok', t)
                outs.append(('next', s2))
            return outs
        if isinstance(n, ast.If):
            outs = []
            for b, s1 in self.cond(n.test, s):
                outs += self.block(n.body if b else n.orelse, s1)
            return outs
        if isinstance(n, ast.While):
            results, work, seen = [], [s], set()
            while work:
                cur = work.pop()
                k = cur.key()
                if k in seen:
                    continue
                seen.add(k)
                for b, s1 in self.cond(n.test, cur):
                    if not b:
                        results.append(('next', s1))
                        continue
                    for out, s2 in self.block(n.body, s1):
                        if out in ('next', 'continue'):
                            work.append(s2)
                        elif out == 'break':
                            results.append(('next', s2))
                        else:
                            results.append((out, s2))
            return results
        if isinstance(n, ast.For):
            (it, s0), = self.ev(n.iter, s)
            if it[0] == 'pylist':
                # ordered: try elements in order; an element is reached only if all earlier ones failed
                outs, frontier = [], [s0]
                seen_shapes = set()
                for p in it[1]:
                    shape = tuple(sym_of_char(c) for c in p)
                    if shape in seen_shapes:
                        continue        # same category shape: abstractly identical outcome
                    seen_shapes.add(shape)
                    nxt = []
                    for st in frontier:
                        s1 = st.copy()
                        s1.vars[n.target.id] = ('const', p)
                        for out, s2 in self.block(n.body, s1):
                            if out == 'next':
                                nxt.append(st)      # condition false: window unchanged (text compare)
                            else:
                                outs.append((out, s2))
                    frontier = list({x.key(): x for x in nxt}.values())
                return outs + [('next', f) for f in frontier]
            assert it[0] == 'pyset'
            # unordered: any element may come first.  Group elements by category shape.
            shapes = {}
            for p in sorted(it[1]):
                shapes.setdefault(tuple(sym_of_char(c) for c in p), p)
            outs = []
            fall = [s0]
            for shape, p in shapes.items():
                s1 = s0.copy()
                s1.vars[n.target.id] = ('const', p)
                for out, s2 in self.block(n.body, s1):
                    if out != 'next':
                        outs.append((out, s2))
            # none matched (every body fell through): state unchanged
            outs.append(('next', s0))
            return outs
        if isinstance(n, ast.Return):
            if n.value is None:
                return [(('return', ('none',)), s)]
            return [(('return', v), s1) for v, s1 in self.ev(n.value, s)]
        if isinstance(n, ast.Pass):
            return [('next', s)]
        raise NotImplementedError('stmt %s at %s:%d' % (type(n).__name__, self.fn.name, n.lineno))


def run_rule(fn, s, prev):
    """-> list of (retval, state)"""
    it = Interp(fn, prev)
    s = s.copy(vars={}, Wentry=s.W, moved=0, eaten=frozenset())
    outs = []
    for out, s1 in it.block(fn.body, s):
        if out == 'next':
            outs.append((('none',), s1))
        else:
            outs.append((out[1], s1))
    return outs


# ----------------------------------------------------------------------------- driver
RESTART = '--restart' in sys.argv   # model the candidate F2 fix in the driver


def driver_round(W, prev):
    """One iteration of `while text.hasNext()` body: run rules in order.
    -> list of records (rulename, retval or None, state, silently_moved)"""
    recs = []
    frontier = [(St(W), False)]
    for name, fn in REGISTRY:
        nxt = []
        for s, moved_before in frontier:
            for v, s1 in run_rule(fn, s, prev):
                if v[0] == 'tok':
                    recs.append((name, v[1], s1, moved_before))
                else:
                    if s1.moved:
                        if not s1.eaten <= {'Ignored', 'Invalid'}:
                            FINDINGS['consumed-without-emitting'].add((fn.name, 0, sorted(s1.eaten)))
                        if RESTART:
                            recs.append((name, 'RESTART', s1, True))
                            continue
                    nxt.append((s1, moved_before or bool(s1.moved)))
        frontier = nxt
    for s, moved_before in frontier:
        recs.append((None, None, s, moved_before))
    return recs


def main():
    prevs = [('none',), ('prevtok',)]
    table = collections.defaultdict(set)
    nstates = 0
    for cm1 in [frozenset({'Escape'}), TOPM1 - {'Escape'}]:
        for c0 in SYMS:
            for c1 in SYMS + [EOF]:
                W = [cm1, frozenset({c0}), frozenset({c1})] + [TOP] * MAXK
                if c1 == EOF:
                    W = W[:3] + [frozenset({EOF})] * MAXK
                for prev in prevs:
                    for name, tok, s, silently in driver_round(tuple(W), prev):
                        nstates += 1
                        key = ('-1:' + ('Esc' if cm1 == frozenset({'Escape'}) else '~Esc'), c0, c1)
                        if tok == 'RESTART':
                            table[key].add(('<restart after silent consumption>',))
                            continue
                        if name is None:
                            if not silently and not s.moved:
                                FINDINGS['round-without-progress'].add(key)
                            table[key].add(('<no token>', 'moved' if silently else 'stuck'))
                            continue
                        if tok.empty:
                            FINDINGS['empty-token'].add((name, key))
                        if not (tok.start_entry and tok.sync) and not silently:
                            FINDINGS['span-mismatch'].add((name, key, repr(tok)))
                        if tok.pos not in (('cursor', 0), ('first', 0)) and not silently:
                            FINDINGS['bad-position'].add((name, key, tok.pos))
                        if tok.kind is None or tok.kind[0] != 'tc':
                            FINDINGS['kind-not-assigned'].add((name, key, tok.kind))
                        kinds = '|'.join(sorted(TCn[k] for k in tok.kind[1])) if tok.kind and tok.kind[0] == 'tc' else str(tok.kind)
                        table[key].add((name, kinds, 'len%s' % ('3+' if s.moved >= 3 else s.moved),
                                        'after-silent-move' if silently else ''))
    # compress table: group by c0, then by outcome
    print('registry:', [n for n, _ in REGISTRY])
    print('alphabet:', SYMS)
    print('records:', nstates)
    byc0 = collections.defaultdict(lambda: collections.defaultdict(set))
    for (m1, c0, c1), outs in table.items():
        byc0[(m1, c0)][frozenset(outs)].add(c1)
    for (m1, c0) in sorted(byc0):
        for outs, c1s in byc0[(m1, c0)].items():
            c1txt = 'ANY' if len(c1s) == len(SYMS) + 1 else ','.join(sorted(c1s))
            print('%-5s %-13s c1={%s}\n        -> %s' % (m1, c0, c1txt, sorted(outs)))
    print('\nFINDINGS')
    for k, v in FINDINGS.items():
        print(' ', k, len(v))
        for x in sorted(v, key=repr)[:12]:
            print('     ', x)


main()
