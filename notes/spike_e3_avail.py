"""THROWAWAY feasibility spike for DESIGN.md engine E3, `avail` part (rules R06.a / R06.b on
reader.py and utils.Buffer).  ast only; not part of /verif machinery.

Abstract state: avail = lower bound on the number of items known to exist at the cursor
(0..2), per path; conditions are decomposed with short-circuit semantics; function
summaries (requirement at entry, per constant-argument specialisation) are computed to a
fixpoint.  Reports next()/peek()-dereference sites reachable with avail == 0, with the call
chain that gets there.
"""
import ast, sys, collections

REPO = sys.argv[1] if len(sys.argv) > 1 else '/repo/TexSoup'
mod = ast.parse(open(REPO + '/reader.py').read())
FUN = {n.name: n for n in mod.body if isinstance(n, ast.FunctionDef)}
CURSOR_PARAMS = {'src', 'buf'}            # spike shortcut; the real engine infers the cursor role (E2)
NORETURN = set()
CAP = 2


def all_paths_raise(fn):
    def blk(stmts):
        for st in stmts:
            if isinstance(st, ast.Raise):
                return True
            if isinstance(st, ast.If) and st.orelse and blk(st.body) and blk(st.orelse):
                return True
        return False
    return blk(fn.body)


for name, fn in FUN.items():
    if all_paths_raise(fn):
        NORETURN.add(name)

FIND = collections.defaultdict(set)


class Ctx:
    def __init__(self, fname, consts, chain):
        self.fname, self.consts, self.chain = fname, consts, chain


def is_cursor(n):
    return isinstance(n, ast.Name) and n.id in CURSOR_PARAMS


def callee_of(call):
    """-> (name, peek?, call) for reader calls"""
    f = call.func
    if isinstance(f, ast.Name) and f.id in FUN:
        return f.id, False
    if isinstance(f, ast.Call) and isinstance(f.func, ast.Name) and f.func.id == 'make_read_peek' \
            and isinstance(f.args[0], ast.Name) and f.args[0].id in FUN:
        return f.args[0].id, True
    return None, False


def const_args(callee, call):
    """constant int arguments bound to parameters of callee (for specialisation)"""
    fn = FUN[callee]
    params = [a.arg for a in fn.args.args]
    out = {}
    for i, a in enumerate(call.args):
        if isinstance(a, ast.Constant) and isinstance(a.value, int) and i < len(params):
            out[params[i]] = a.value
    for kw in call.keywords:
        if isinstance(kw.value, ast.Constant) and isinstance(kw.value.value, int):
            out[kw.arg] = kw.value.value
    # defaults that are int constants
    defaults = fn.args.defaults
    for p, d in zip(params[len(params) - len(defaults):], defaults):
        if p not in out and p in ('skip',) and isinstance(d, ast.Constant):
            out[p] = d.value
    return tuple(sorted((k, v) for k, v in out.items() if k in ('skip',)))


SUMMARY = {}          # (fname, consts) -> requirement (0,1,2, or 3 = unsatisfiable within CAP)
INPROGRESS = set()


def requirement(fname, consts, chain):
    key = (fname, consts)
    if key in SUMMARY:
        return SUMMARY[key]
    if key in INPROGRESS:
        return 0          # optimistic for recursion; fixpoint below re-runs
    INPROGRESS.add(key)
    req = 3
    for a in range(CAP + 1):
        probe = collections.defaultdict(set)
        analyse(fname, consts, a, probe, chain, report_callee=False)
        if not probe:
            req = a
            break
    INPROGRESS.discard(key)
    SUMMARY[key] = req
    return req


def analyse(fname, consts, entry_avail, sink, chain, report_callee=True):
    fn = FUN[fname]
    env = dict(consts)

    def note(kind, node, extra=''):
        sink[kind].add((fname, node.lineno, ast.unparse(node)[:60], 'entry_avail=%d via %s' % (entry_avail, ' > '.join(chain)), extra))

    # expressions: return avail after evaluating (side effects), given avail before
    def ev(n, av):
        """evaluate expression for its effects; returns list of avail values (one per path)"""
        if isinstance(n, ast.Call):
            # arguments first
            avs = [av]
            for a in list(n.args) + [k.value for k in n.keywords]:
                avs = [x for a0 in avs for x in ev(a, a0)]
            out = []
            for a0 in avs:
                f = n.func
                if isinstance(f, ast.Name) and f.id == 'next' and n.args and is_cursor(n.args[0]):
                    if a0 < 1:
                        note('next-without-item', n)
                    out.append(max(a0 - 1, 0))
                    continue
                if isinstance(f, ast.Attribute) and is_cursor(f.value):
                    if f.attr == 'forward':
                        k = n.args[0].value if n.args and isinstance(n.args[0], ast.Constant) else 1
                        out.append(max(a0 - k, 0))
                        continue
                    if f.attr == 'backward':
                        k = n.args[0].value if n.args and isinstance(n.args[0], ast.Constant) else 1
                        out.append(min(a0 + k, CAP))
                        continue
                    if f.attr in ('peek', 'hasNext', 'startswith', 'endswith'):
                        out.append(a0)
                        continue
                    if f.attr == 'forward_until':
                        # Buffer.forward_until dereferences peek() at entry (see utils spike below)
                        if a0 < 1:
                            note('callee-needs-item', n, 'Buffer.forward_until derefs peek()')
                        out.append(0)
                        continue
                callee, peek = callee_of(n)
                if callee:
                    if callee in NORETURN:
                        continue           # path ends
                    cc = const_args(callee, n)
                    key = (callee, cc, a0)
                    if key not in DONE:
                        DONE.add(key)
                        analyse(callee, cc, a0, sink, chain + ['%s:%d' % (fname, n.lineno)])
                    out.append(a0 if peek else 0)
                    continue
                out.append(a0)
            return out
        if isinstance(n, ast.Attribute):
            # X.peek(...).attr  -> dereference
            v = n.value
            if isinstance(v, ast.Call) and isinstance(v.func, ast.Attribute) and v.func.attr == 'peek' \
                    and is_cursor(v.func.value):
                rng = v.args and isinstance(v.args[0], ast.Tuple)
                if not rng:
                    off = v.args[0].value if v.args else 0
                    if av < off + 1:
                        note('peek-deref-maybe-none', n)
                    return [max(av, off + 1)]
                return [av]
            return ev(v, av)
        if isinstance(n, ast.IfExp):
            outs = []
            for b, a1 in cond(n.test, av):
                outs += ev(n.body if b else n.orelse, a1)
            return outs
        avs = [av]
        for c in ast.iter_child_nodes(n):
            if isinstance(c, ast.expr):
                avs = [x for a0 in avs for x in ev(c, a0)]
        return avs

    # conditions: list of (truth, avail)
    def cond(n, av):
        if isinstance(n, ast.BoolOp):
            isand = isinstance(n.op, ast.And)
            outs, frontier = [], [av]
            for i, e in enumerate(n.values):
                nxt = []
                for a0 in frontier:
                    for b, a1 in cond(e, a0):
                        if b == isand and i < len(n.values) - 1:
                            nxt.append(a1)
                        else:
                            outs.append((b, a1))
                frontier = nxt
            return outs
        if isinstance(n, ast.UnaryOp) and isinstance(n.op, ast.Not):
            return [(not b, a1) for b, a1 in cond(n.operand, av)]
        if isinstance(n, ast.Call) and isinstance(n.func, ast.Attribute) and n.func.attr == 'hasNext' \
                and is_cursor(n.func.value):
            k = n.args[0].value if n.args else 1
            return [(True, max(av, k))] + ([(False, av)] if av < k else [])
        if isinstance(n, ast.Compare) and len(n.ops) == 1 and isinstance(n.ops[0], (ast.Eq, ast.NotEq)) \
                and isinstance(n.left, ast.Name) and n.left.id in env \
                and isinstance(n.comparators[0], ast.Constant):
            truth = (env[n.left.id] == n.comparators[0].value) == isinstance(n.ops[0], ast.Eq)
            return [(truth, av)]
        outs = []
        for a1 in ev(n, av):
            outs += [(True, a1), (False, a1)]
        return outs

    # statements -> list of (outcome, avail)
    def block(stmts, av):
        frontier, done = [av], []
        for st in stmts:
            nxt = []
            for a0 in set(frontier):
                for out, a1 in stmt(st, a0):
                    (nxt if out == 'next' else done).append((out, a1))
            frontier = [a for _, a in nxt]
        return done + [('next', a) for a in set(frontier)]

    def stmt(n, av):
        if isinstance(n, (ast.Expr, ast.Assign, ast.AugAssign)):
            return [('next', a) for a in ev(n.value, av)]
        if isinstance(n, ast.Return):
            return [('return', a) for a in (ev(n.value, av) if n.value else [av])]
        if isinstance(n, ast.Raise):
            return []
        if isinstance(n, ast.Assert):
            return [('next', a) for b, a in cond(n.test, av) if b]
        if isinstance(n, ast.If):
            outs = []
            for b, a in cond(n.test, av):
                outs += block(n.body if b else n.orelse, a)
            return outs
        if isinstance(n, ast.While):
            results, work, seen = [], [av], set()
            while work:
                a0 = work.pop()
                if a0 in seen:
                    continue
                seen.add(a0)
                for b, a1 in cond(n.test, a0):
                    if not b:
                        results.append(('next', a1))
                        continue
                    for out, a2 in block(n.body, a1):
                        if out in ('next', 'continue'):
                            work.append(a2)
                        elif out == 'break':
                            results.append(('next', a2))
                        else:
                            results.append((out, a2))
            return results
        if isinstance(n, ast.For):
            # for _ in range(skip): body   with skip a specialised constant
            it = n.iter
            if isinstance(it, ast.Call) and isinstance(it.func, ast.Name) and it.func.id == 'range' \
                    and isinstance(it.args[0], ast.Name) and it.args[0].id in env:
                avs = [av]
                for _ in range(env[it.args[0].id]):
                    avs = [a2 for a1 in avs for out, a2 in block(n.body, a1)]
                return [('next', a) for a in avs]
            raise NotImplementedError('for at %d' % n.lineno)
        if isinstance(n, (ast.Break,)):
            return [('break', av)]
        if isinstance(n, ast.Continue):
            return [('continue', av)]
        if isinstance(n, (ast.Pass, ast.FunctionDef)):
            return [('next', av)]
        raise NotImplementedError(type(n).__name__)

    block(fn.body, entry_avail)


DONE = set()
analyse('read_tex', (), 0, FIND, [])
print('no-return functions:', sorted(NORETURN))
print('contexts analysed (function, consts, entry avail):', len(DONE))
for k in sorted(DONE):
    print('   ', k)
print('\nFINDINGS')
for k, v in FIND.items():
    print(' ', k)
    for x in sorted(v):
        print('     ', x)
