"""THROWAWAY feasibility spike for DESIGN.md engine E4 (token conservation in reader.py).
ast only; not part of /verif machinery.

Path-sensitive walk (loops 0/1 iteration) tracking, per path:
  resources  : values obtained from the cursor or from reader calls   (must be accounted for)
  containers : local lists they are appended to                       (must be stored/returned)
  facts      : outcomes of the conditions taken                       (give pins)
At each path end every resource must be stored | regenerated (pinned) | rolled back | licensed.
"""
import ast, sys, collections, itertools

REPO = sys.argv[1] if len(sys.argv) > 1 else '/repo/TexSoup'
mod = ast.parse(open(REPO + '/reader.py').read())
FUN = {n.name: n for n in mod.body if isinstance(n, ast.FunctionDef)}
CURSORS = {'src', 'buf'}
READERS = set(FUN) - {'make_read_peek', 'unclosed_env_handler'}
NORETURN = {'unclosed_env_handler'}
CTORS = {'TexCmd', 'TexNamedEnv', 'TexText', 'TexArgs', 'TexEnv', 'BraceGroup', 'BracketGroup'}

FIND = collections.defaultdict(set)
STATS = collections.Counter()


class Res:
    def __init__(self, kind, line, desc):
        self.kind, self.line, self.desc = kind, line, desc
        self.status = 'live'
        self.pins = set()
        self.after_arg = False      # an argument was read after this (spacer licence)

    def cp(self):
        r = Res(self.kind, self.line, self.desc)
        r.status, r.pins, r.after_arg = self.status, set(self.pins), self.after_arg
        return r


class State:
    def __init__(self):
        self.res = {}           # rid -> Res
        self.cont = {}          # cid -> [list of values], status
        self.vars = {}          # name -> value
        self.facts = []         # (text, bool)
        self.next_pin = None    # pin for the next discarded token (closer guards)
        self.nid = 0

    def cp(self):
        s = State()
        s.res = {k: v.cp() for k, v in self.res.items()}
        s.cont = {k: {'items': list(v['items']), 'status': v['status']} for k, v in self.cont.items()}
        s.vars = dict(self.vars)
        s.facts = list(self.facts)
        s.next_pin = self.next_pin
        s.nid = self.nid
        return s

    def new(self, kind, line, desc):
        self.nid += 1
        rid = 'r%d' % self.nid
        self.res[rid] = Res(kind, line, desc)
        STATS['resources'] += 1
        return rid

    def newc(self):
        self.nid += 1
        cid = 'c%d' % self.nid
        self.cont[cid] = {'items': [], 'status': 'live'}
        return cid


# values: ('tok',rid) ('res',rid) ('spacer',rid) ('peek',what) ('list',cid) ('proj',rid,attr) ('other',)
def rids_of(v, st):
    """all owned resource ids reachable from value v (through containers / tuples)"""
    if v[0] in ('tok', 'res', 'spacer'):
        return [v[1]]
    if v[0] == 'list':
        out = []
        for x in st.cont[v[1]]['items']:
            out += rids_of(x, st)
        return out
    if v[0] == 'tuple':
        out = []
        for x in v[1]:
            out += rids_of(x, st)
        return out
    if v[0] == 'fmt':
        return rids_of(v[1], st)
    return []


def store(v, st, how='stored'):
    if v[0] == 'fmt' and v[2]:
        STATS['inventions-into-tree'] += 1
        if v[2] != '{}':
            FIND['invention'].add(('line %d' % v[3], repr(v[2])))
        else:
            STATS['licensed-invention'] += 1
    for rid in rids_of(v, st):
        st.res[rid].status = how
    if v[0] == 'list':
        st.cont[v[1]]['status'] = how


class Walker:
    def __init__(self, fn, consts):
        self.fn, self.consts = fn, consts

    def note(self, kind, node, extra=''):
        FIND[kind].add((self.fn.name, getattr(node, 'lineno', 0), ast.unparse(node)[:70] if isinstance(node, ast.AST) else str(node), extra))

    # -------- expressions -> (value, state) ; single path (conditions fork in cond())
    def ev(self, n, st):
        if isinstance(n, ast.Name):
            return st.vars.get(n.id, ('other',))
        if isinstance(n, ast.Constant):
            return ('const', n.value)
        if isinstance(n, ast.Tuple):
            return ('tuple', [self.ev(e, st) for e in n.elts])
        if isinstance(n, ast.List):
            cid = st.newc()
            st.cont[cid]['items'] = [self.ev(e, st) for e in n.elts]
            return ('list', cid)
        if isinstance(n, ast.Starred):
            return self.ev(n.value, st)
        if isinstance(n, ast.Attribute):
            base = self.ev(n.value, st)
            if base[0] in ('tok', 'res', 'spacer'):
                return ('proj', base[1], n.attr)
            if base[0] == 'peek':
                return ('peek', base[1] + '.' + n.attr)
            if base[0] == 'proj':
                return ('proj', base[1], base[2] + '.' + n.attr)
            return ('other',)
        if isinstance(n, ast.Subscript):
            base = self.ev(n.value, st)
            if base[0] == 'list' and isinstance(n.slice, ast.Slice):
                # content[1:]  -> the items from index 1 on
                lo = n.slice.lower.value if n.slice.lower else 0
                cid = st.newc()
                st.cont[cid]['items'] = st.cont[base[1]]['items'][lo:]
                st.cont[cid]['status'] = 'view'
                return ('list', cid)
            if base[0] == 'res':
                if isinstance(n.slice, ast.Slice):
                    return ('part', base[1], 'rest')        # args[1:]
                return ('part', base[1], 'first')            # args[0]
            if base[0] == 'peek':
                return ('peek', base[1] + '[%s]' % ast.unparse(n.slice))
            return ('other',)
        if isinstance(n, ast.BinOp) and isinstance(n.op, ast.Mod) and isinstance(n.left, ast.Constant):
            inner = self.ev(n.right, st)
            lit = n.left.value.replace('%s', '')
            return ('fmt', inner, lit, n.lineno)
        if isinstance(n, ast.BinOp):
            self.ev(n.left, st)
            self.ev(n.right, st)
            return ('other',)
        if isinstance(n, ast.Call):
            return self.call(n, st)
        if isinstance(n, ast.BoolOp) and isinstance(n.op, ast.Or):
            vals = [self.ev(c, st) for c in n.values]
            owned = [v for v in vals if v[0] in ('res', 'tok', 'list')]
            return owned[-1] if owned else ('other',)
        if isinstance(n, (ast.Compare, ast.BoolOp, ast.UnaryOp)):
            for c in ast.iter_child_nodes(n):
                if isinstance(c, ast.expr):
                    self.ev(c, st)
            return ('other',)
        return ('other',)

    def call(self, n, st):
        f = n.func
        # next(src)
        if isinstance(f, ast.Name) and f.id == 'next' and n.args and isinstance(n.args[0], ast.Name) \
                and n.args[0].id in CURSORS:
            rid = st.new('tok', n.lineno, 'next(%s)' % n.args[0].id)
            if st.next_pin:
                st.res[rid].pins.add(st.next_pin)
                st.next_pin = None
            return ('tok', rid)
        if isinstance(f, ast.Attribute) and isinstance(f.value, ast.Name) and f.value.id in CURSORS:
            if f.attr == 'forward':
                k = n.args[0].value if n.args else 1
                rid = st.new('tok', n.lineno, '%s.forward(%s)' % (f.value.id, k))
                st.res[rid].pins.add(('extent-literal', k))
                if st.next_pin:
                    st.res[rid].pins.add(st.next_pin)
                    st.next_pin = None
                return ('tok', rid)
            if f.attr == 'forward_until':
                return ('tok', st.new('tok', n.lineno, 'forward_until'))
            if f.attr == 'backward':
                # roll back the spacer: `if spacer: src.backward(1)`
                for text, truth in reversed(st.facts):
                    if truth and text in st.vars and st.vars[text][0] == 'spacer':
                        st.res[st.vars[text][1]].status = 'rolledback'
                        break
                else:
                    self.note('unmatched-backward', n)
                return ('other',)
            for a in n.args:
                self.ev(a, st)
            return ('other',)
        # reader calls
        callee, peek = None, False
        if isinstance(f, ast.Name) and f.id in FUN:
            callee = f.id
        elif isinstance(f, ast.Call) and isinstance(f.func, ast.Name) and f.func.id == 'make_read_peek':
            callee, peek = f.args[0].id, True
        if callee:
            args = [self.ev(a, st) for a in n.args]
            for kw in n.keywords:
                self.ev(kw.value, st)
            # owned values passed to a reader call are handed over (e.g. read_arg(src, next(src)))
            for a in args:
                store(a, st, 'stored')
            if callee in NORETURN:
                return ('noreturn',)
            if peek:
                return ('peek', 'peek(%s)' % callee)
            if callee == 'read_spacer':
                return ('spacer', st.new('spacer', n.lineno, 'read_spacer'))
            if callee in ('read_arg', 'read_arg_optional', 'read_arg_required'):
                for r in st.res.values():
                    if r.kind == 'spacer' and r.status == 'live':
                        r.after_arg = True
            consts = tuple(a.value for a in n.args[1:3] if isinstance(a, ast.Constant))
            if callee == 'read_command':
                a_ = st.new('res', n.lineno, 'read_command().name')
                b_ = st.new('res', n.lineno, 'read_command().args')
                if consts == (0, 0):
                    st.res[b_].status = 'empty-by-constants'      # read_args(…,0,0) returns fresh empty TexArgs
                return ('tuple', [('res', a_), ('res', b_)])
            if callee in ('read_arg_optional', 'read_arg_required'):
                return ('other',)          # returns a count; results go into the args container passed in
            if callee == 'read_skip_env' or callee == 'read_env' or callee == 'read_math_env':
                # fills and returns the expr passed in
                return args[1] if len(args) > 1 else ('other',)
            return ('res', st.new('res', n.lineno, '%s()' % callee))
        # constructors / table constructors: store arguments
        is_ctor = (isinstance(f, ast.Name) and (f.id in CTORS or f.id == 'arg')) or \
                  (isinstance(f, ast.Subscript) and isinstance(f.value, ast.Name) and f.value.id in (
                      'MATH_TOKEN_TO_ENV', 'ARG_BEGIN_TO_ENV'))
        if is_ctor:
            vals = [self.ev(a, st) for a in n.args] + [self.ev(k.value, st) for k in n.keywords]
            firsts = [v for v in vals if v[0] == 'proj' and v[2].startswith('string')]
            for v in vals:
                if v[0] == 'part':
                    # args[1:] stored -> the rest of the args resource is stored; args[0] must be handled
                    st.res[v[1]].pins.add('rest-stored')
                    continue
                store(v, st)
            # projection sink: X[0].string  => contents stored, delimiters of X[0] dropped
            for a in n.args:
                if isinstance(a, ast.Attribute) and a.attr == 'string' and isinstance(a.value, ast.Subscript):
                    base = self.ev(a.value.value, st)
                    if base[0] == 'res':
                        r = st.res[base[1]]
                        r.pins.add('first-projected')
                        kindpin = any(t.startswith('isinstance(%s[0]' % ast.unparse(a.value.value)) and truth
                                      for t, truth in st.facts)
                        if not kindpin:
                            self.note('delimiters-of-projected-group-unpinned', n,
                                      'only .string of %s[0] is stored; its kind is not pinned to the '
                                      'group the class re-emits' % ast.unparse(a.value.value))
            rid = st.new('res', n.lineno, 'ctor %s' % ast.unparse(f)[:30])
            return ('res', rid)
        # container / object methods
        if isinstance(f, ast.Attribute) and f.attr in ('append', 'extend', 'insert'):
            tgt = self.ev(f.value, st)
            vals = [self.ev(a, st) for a in n.args]
            if tgt[0] == 'list':
                st.cont[tgt[1]]['items'] += vals
            elif tgt[0] in ('res', 'other'):
                # args.append(x) / expr.append(*contents): stored into a structure that is itself tracked
                for v in vals:
                    store(v, st)
                if isinstance(f.value, ast.Name) and f.value.id == 'args':
                    for r in st.res.values():
                        if r.kind == 'spacer' and r.status == 'live':
                            r.after_arg = True          # an argument was attached after this spacer
            return ('other',)
        for a in n.args:
            self.ev(a, st)
        for k in n.keywords:
            self.ev(k.value, st)
        if isinstance(f, ast.Attribute):
            self.ev(f.value, st)
        return ('other',)

    # -------- conditions -> list of (truth, state)
    def cond(self, n, st):
        if isinstance(n, ast.BoolOp):
            isand = isinstance(n.op, ast.And)
            outs, frontier = [], [st]
            for i, e in enumerate(n.values):
                nxt = []
                for s0 in frontier:
                    for b, s1 in self.cond(e, s0):
                        if b == isand and i < len(n.values) - 1:
                            nxt.append(s1)
                        else:
                            outs.append((b, s1))
                frontier = nxt
            return outs
        if isinstance(n, ast.UnaryOp) and isinstance(n.op, ast.Not):
            return [(not b, s1) for b, s1 in self.cond(n.operand, st)]
        text = ast.unparse(n)
        # constant-argument specialisation (n_required == 0 and n_optional == 0, name == 'x' on consts ...)
        outs = []
        for truth in (True, False):
            s1 = st.cp()
            # consistency with earlier identical atoms on unchanged variables
            prior = [t for (tx, t) in s1.facts if tx == text]
            if prior and prior[-1] != truth and not text.startswith(('src.', 'buf.')):
                continue
            self.ev(n, s1)
            s1.facts.append((text, truth))
            self.apply_pins(n, truth, s1)
            outs.append((truth, s1))
        return outs

    def apply_pins(self, n, truth, st):
        # X.category == TC.K / in TABLE.keys()   (pins token X)
        if isinstance(n, ast.Compare) and len(n.ops) == 1:
            l, op, r = n.left, n.ops[0], n.comparators[0]
            pos = truth == isinstance(op, (ast.Eq, ast.In))
            if isinstance(l, ast.Attribute) and l.attr == 'category':
                base = l.value
                if isinstance(base, ast.Name) and base.id in st.vars and st.vars[base.id][0] == 'tok' and pos:
                    st.res[st.vars[base.id][1]].pins.add(('cat', ast.unparse(r)))
                # src.peek().category == <closer>  -> pin for the next discarded token
                if isinstance(base, ast.Call) and ast.unparse(base) in ('src.peek()', 'buf.peek()') and pos:
                    st.next_pin = ('peekcat', ast.unparse(r))
            if isinstance(l, ast.Name) and l.id in st.vars and isinstance(r, ast.Constant) and pos:
                v = st.vars[l.id]
                if v[0] in ('res', 'tok'):
                    st.res[v[1]].pins.add(('text', r.value))
        # src.startswith('\\end{%s}' % expr.name)
        if isinstance(n, ast.Call) and isinstance(n.func, ast.Attribute) and n.func.attr == 'startswith' and truth:
            st.next_pin = ('startswith', ast.unparse(n.args[0]))

    # -------- statements -> list of (outcome, state)
    def block(self, stmts, st):
        frontier, done = [st], []
        for s in stmts:
            nxt = []
            for cur in frontier:
                for out, s1 in self.stmt(s, cur):
                    (nxt if out == 'next' else done).append((out, s1))
            frontier = [x for _, x in nxt]
        return done + [('next', f) for f in frontier]

    def stmt(self, n, st):
        if isinstance(n, ast.Expr):
            if isinstance(n.value, ast.Constant):
                return [('next', st)]
            if isinstance(n.value, ast.Yield):
                v = self.ev(n.value.value, st)
                store(v, st, 'returned')
                return [('next', st)]
            v = self.ev(n.value, st)
            if v == ('noreturn',):
                return []
            # expression statement whose value is an owned resource = discard
            return [('next', st)]
        if isinstance(n, ast.Assign):
            v = self.ev(n.value, st)
            if v == ('noreturn',):
                return []
            t = n.targets[0]
            if isinstance(t, ast.Name):
                st.vars[t.id] = v
            elif isinstance(t, ast.Tuple):
                if v[0] == 'tuple':
                    for e, x in zip(t.elts, v[1]):
                        st.vars[e.id] = x
                elif v[0] == 'peek':
                    for i, e in enumerate(t.elts):
                        st.vars[e.id] = ('peek', '%s#%d' % (v[1], i))
                else:
                    for e in t.elts:
                        st.vars[e.id] = ('other',)
            return [('next', st)]
        if isinstance(n, ast.AugAssign):
            self.ev(n.value, st)
            return [('next', st)]
        if isinstance(n, ast.Return):
            if n.value is not None:
                v = self.ev(n.value, st)
                store(v, st, 'returned')
            return [('return', st)]
        if isinstance(n, ast.Raise):
            return []
        if isinstance(n, ast.Assert):
            return [('next', s1) for b, s1 in self.cond(n.test, st) if b]
        if isinstance(n, ast.If):
            outs = []
            for b, s1 in self.cond(n.test, st):
                outs += self.block(n.body if b else n.orelse, s1)
            return outs
        if isinstance(n, ast.While):
            outs = []
            for b, s1 in self.cond(n.test, st):
                if not b:
                    outs.append(('next', s1))
                    continue
                for out, s2 in self.block(n.body, s1):
                    if out in ('next', 'continue'):
                        # second evaluation of the test: leave the loop
                        for b2, s3 in self.cond(n.test, s2):
                            if not b2:
                                outs.append(('next', s3))
                        # (a further iteration brings nothing new: per-iteration resources are checked below)
                        self.check_iteration(s2, n)
                    elif out == 'break':
                        outs.append(('next', s2))
                    else:
                        outs.append((out, s2))
            return outs
        if isinstance(n, ast.For):
            # for _ in range(skip): next(buf)
            k = dict(self.consts).get('skip', 0)
            cur = [st]
            for _ in range(k):
                cur = [s2 for s1 in cur for out, s2 in self.block(n.body, s1)]
            return [('next', s) for s in cur]
        if isinstance(n, ast.Break):
            return [('break', st)]
        if isinstance(n, ast.Continue):
            return [('continue', st)]
        if isinstance(n, (ast.Pass, ast.FunctionDef)):
            return [('next', st)]
        raise NotImplementedError(type(n).__name__)

    def check_iteration(self, st, loop):
        pass


def justify(fn, st, where):
    """check every resource of a finished path"""
    STATS['paths'] += 1
    returned_lists = set()
    for rid, r in st.res.items():
        STATS['obligations'] += 1
        if r.status in ('stored', 'returned', 'rolledback', 'empty-by-constants'):
            continue
        # live resources held in a container that was stored/returned are stored
        held = False
        for cid, c in st.cont.items():
            if c['status'] in ('stored', 'returned') and any(rid in rids_of(x, st) for x in c['items']):
                held = True
        if held:
            continue
        pins = r.pins
        if r.desc.startswith('ctor '):
            FIND['constructed-node-dropped'].add((fn.name, r.line, r.desc, where))
            continue
        if r.kind == 'spacer':
            if r.after_arg:
                STATS['licensed-spacer'] += 1
                continue
            # not consumed at all on this path?  (read_spacer returned '')
            if any(tx in st.vars and st.vars[tx] == ('spacer', rid) and not truth for tx, truth in st.facts):
                continue
            FIND['spacer-dropped'].add((fn.name, r.line, r.desc, where))
            continue
        catpin = [p for p in pins if isinstance(p, tuple) and p[0] in ('cat', 'peekcat', 'startswith')]
        textpin = [p for p in pins if isinstance(p, tuple) and p[0] == 'text']
        if 'rest-stored' in pins and 'first-projected' in pins:
            STATS['regenerated'] += 1
            continue            # args: [0] projected (checked separately), [1:] stored
        if catpin or textpin:
            STATS['regenerated'] += 1
            ext = [p for p in pins if isinstance(p, tuple) and p[0] == 'extent-literal' and p[1] > 1]
            if ext:
                FIND['literal-extent-discard'].add((fn.name, r.line, r.desc))
            continue
        ext = [p for p in pins if isinstance(p, tuple) and p[0] == 'extent-literal' and p[1] > 1]
        if ext:
            # multi-token discard: look for recogniser facts on the path
            recog = [tx for tx, truth in st.facts if ("name == 'end'" in tx and truth)]
            FIND['literal-extent-discard'].add((fn.name, r.line, r.desc))
            # is it at least guarded by the closer equality?
            guarded = any('args[0].string != expr.name' in tx and not truth for tx, truth in st.facts) or \
                any('error' == tx and not truth for tx, truth in st.facts)
            if not guarded:
                FIND['closer-discard-unguarded'].add((fn.name, r.line, r.desc, where))
            continue
        FIND['dropped'].add((fn.name, r.line, r.desc, where + ' pins=%s' % sorted(map(str, pins))))


def run(fname, consts=()):
    fn = FUN[fname]
    w = Walker(fn, consts)
    st = State()
    for a in fn.args.args:
        if a.arg == 'c':
            # opener token handed over by the caller: owned here, category pinned by ARG_BEGIN_TO_ENV[c.category]
            rid = st.new('tok', fn.lineno, 'param c (opener)')
            st.res[rid].pins.add(('cat', 'ARG_BEGIN_TO_ENV key (selects the class that re-emits it)'))
            st.vars['c'] = ('tok', rid)
        elif a.arg in ('args', 'expr'):
            st.vars[a.arg] = ('other',)
    for out, s1 in w.block(fn.body, st):
        justify(fn, s1, out if isinstance(out, str) else 'end')


for f in sorted(READERS):
    if f == 'read_command':
        run(f, (('skip', 0),))
    else:
        run(f)

print('stats:', dict(STATS))
print('FINDINGS')
for k, v in FIND.items():
    print(' ', k)
    for x in sorted(v, key=str):
        print('     ', x)
