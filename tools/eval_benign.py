#!/venv/bin/python
"""Run every check against every behaviour-preserving refactoring kept under /verif/benign/<id>/patch.diff (written by
independent sub-agents; each passes the 164 tests).  No check may report a VIOLATION on any of them."""
import glob, json, subprocess, sys
bad = 0
from concurrent.futures import ThreadPoolExecutor
dirs = sorted(glob.glob('/verif/benign/*/'))


def _run(d):
    return subprocess.run(['/venv/bin/python', '/verif/tools/try_seed.py', d + 'patch.diff'], capture_output=True, text=True)


with ThreadPoolExecutor(3) as ex:
    evs = list(ex.map(_run, dirs))
for d, ev in zip(dirs, evs):
    summ = [l for l in ev.stdout.split('\n') if l.startswith('SUMMARY')]
    if not summ:
        print(d, 'NO SUMMARY', ev.stdout[-300:]); bad += 1; continue
    st = json.loads(summ[0][8:])
    v = sorted(k for k, x in st.items() if x == 'VIOLATION')
    e = sorted(k for k, x in st.items() if x not in ('VIOLATION', 'pass'))
    print('%-12s violations=%s analysis_errors=%s' % (d.split('/')[-2], ','.join(v) or '-', ','.join(e) or '-'))
    bad += bool(v)
print('false alarms on %d refactorings' % bad)
sys.exit(1 if bad else 0)
