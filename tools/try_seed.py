#!/venv/bin/python
"""tools/try_seed.py <patch.diff> [--props C01,C02]  -- apply a seeded change to a scratch worktree of /repo
(outside /repo and /verif), run every check against that tree (no evidence written, no controls), print which
properties report a VIOLATION / ANALYSIS-ERROR, and remove the worktree again."""
import os, sys, subprocess, shutil, tempfile, multiprocessing, json
sys.path.insert(0, os.path.dirname(os.path.dirname(os.path.abspath(__file__))))
os.environ['VERIF_NO_CONTROLS'] = '1'
from sa import props
from sa.model import AnalysisError


def one(args):
    pid, root = args
    from sa import run as runner
    try:
        code, results, viol, known = runner.run_check(pid, 'quick', 0, root, None, write=False, quiet=True)
        return pid, 'VIOLATION' if viol else 'pass', [(f.rule, f.function, f.construct[:70]) for f in viol]
    except AnalysisError as e:
        return pid, 'ANALYSIS-ERROR', [str(e)[:200]]
    except Exception as e:     # noqa
        import traceback
        return pid, 'INTERNAL-ERROR', [traceback.format_exc()[-400:]]


def main():
    patch = os.path.abspath(sys.argv[1])
    want = None
    if '--props' in sys.argv:
        want = sys.argv[sys.argv.index('--props') + 1].split(',')
    wt = tempfile.mkdtemp(prefix='seedeval_', dir='/tmp')
    os.rmdir(wt)
    subprocess.check_call(['git', '-C', '/repo', 'worktree', 'add', '-q', '--detach', wt, 'HEAD'])
    try:
        r = subprocess.run(['git', '-C', wt, 'apply', patch], capture_output=True, text=True)
        if r.returncode != 0:
            print('PATCH-DOES-NOT-APPLY', r.stderr[:300])
            return 3
        pids = want or sorted(props.PROPS)
        with multiprocessing.get_context('fork').Pool(min(16, len(pids))) as pool:
            res = pool.map(one, [(p, wt) for p in pids])
        out = {}
        for pid, status, detail in res:
            out[pid] = status
            if status != 'pass':
                print('%s %s' % (pid, status))
                for d in detail[:6]:
                    print('     ', d)
        print('SUMMARY', json.dumps(out, sort_keys=True))
    finally:
        subprocess.call(['git', '-C', '/repo', 'worktree', 'remove', '--force', wt])
    return 0


if __name__ == '__main__':
    sys.exit(main())
