#!/venv/bin/python
"""Re-run every check against every kept seeded change (scratch worktree per seed, removed afterwards) and refresh
the `checks` / `caught_by` fields of /verif/seeded/<id>/meta.json; prints a table."""
import os, sys, json, subprocess, glob
rows = []
from concurrent.futures import ThreadPoolExecutor
dirs = sorted(glob.glob('/verif/seeded/*/'))
if len(sys.argv) > 1:
    dirs = [d for d in dirs if any(a in d for a in sys.argv[1:])]


def _run(d):
    return subprocess.run(['/venv/bin/python', '/verif/tools/try_seed.py', d + 'patch.diff'], capture_output=True, text=True)


with ThreadPoolExecutor(3) as ex:
    evs = list(ex.map(_run, dirs))
for d, ev in zip(dirs, evs):
    meta = json.load(open(d + 'meta.json'))
    summ = [l for l in ev.stdout.split('\n') if l.startswith('SUMMARY')]
    status = json.loads(summ[0][8:]) if summ else {}
    meta['checks'] = status
    meta['caught_by'] = sorted(k for k, v in status.items() if v == 'VIOLATION')
    meta['analysis_error_in'] = sorted(k for k, v in status.items() if v not in ('VIOLATION', 'pass'))
    meta['reports'] = [l.strip() for l in ev.stdout.split('\n') if l.startswith('      (')][:8]
    json.dump(meta, open(d + 'meta.json', 'w'), indent=1)
    ok = meta['property'] in meta['caught_by']
    rows.append((meta['seed'], meta['property'], ok, meta['caught_by'], meta['analysis_error_in']))
    print('%-7s %-4s %-6s caught_by=%s errors=%s' % (meta['seed'], meta['property'], 'CAUGHT' if ok else 'MISSED', ','.join(meta['caught_by']), ','.join(meta['analysis_error_in'])))
print('%d/%d seeded changes caught by the check of the property they break' % (sum(1 for r in rows if r[2]), len(rows)))
