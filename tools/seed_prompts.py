#!/venv/bin/python
"""Write the prompt files for the seeded-change sub-agents (one per property) under <outdir>.  A prompt contains only the
property text and the path of a scratch worktree -- nothing from /verif.  usage: seed_prompts.py <outdir> [round]"""
import json, sys, os
out = sys.argv[1]
rnd = sys.argv[2] if len(sys.argv) > 2 else '1'
props = {json.loads(l)['id']: json.loads(l) for l in open('/verif/properties.jsonl')}
EXTRA = {
 '1': '',
 '7': ('\nThis is a SEVENTH round with a THEME: changes whose two halves each look fine alone.  Earlier volunteers already '
       'tried single dropped guards, dropped keyword arguments, swapped attributes, wrong helpers, caching, fast paths, loop '
       'bounds, or-defaults, one-shot iterators, table edits, lint-style rewrites, new features and performance work.  Look for '
       '(a) a change of a CONTRACT between two functions or modules -- the producer now returns / stores something slightly '
       'different (a tuple instead of a list, a stripped string, a shifted offset, a token without its position, an iterator) '
       'and only one of its several consumers is adapted; (b) an invariant established in one method and relied on in another '
       '(parent links, the position attribute, the begin/end strings of environments, the argument kinds) that one writer stops '
       'maintaining; (c) state that survives between two calls on the same object or between two parses.  Produce TWO changes '
       '(A and B, in {out}/A and {out}/B), each with a one-line commit message at the top of notes.txt.  IMPORTANT: never use '
       '`git stash` (it is shared between all worktrees of this repository); to test against the pristine tree use `git -C '
       '<worktree> diff > saved.diff; git -C <worktree> checkout -- .` and re-apply with `git apply`.  Keep your individual '
       'messages short; write long content to files.  You have a HARD budget of about 15 minutes in total: deliver what you '
       'have by then, one change is better than none.\n'),
 '6': ('\nThis is a SIXTH round with a THEME: new features, bug fixes and performance work that go subtly wrong.  Each '
       'change must look like a commit a maintainer would merge: (a) a NEW FEATURE -- a new optional parameter, a new public '
       'method or property, support for one more LaTeX construct (a new environment name, a new argument form, a new math '
       'delimiter, a new option), a convenience overload accepting more input types; (b) a BUG FIX for a real oddity of the '
       'current behaviour that over-reaches and changes more than it should; (c) a PERFORMANCE change -- avoiding repeated '
       'work, replacing a list by a generator or the other way round, slicing instead of looping, building a lookup table or '
       'index, short-circuiting on a cheap test first, reusing objects instead of creating them.  The new feature itself '
       'should work; the property must break as a SIDE EFFECT for inputs that do not even use the feature (or only in a corner '
       'of it).  Produce THREE changes (A, B and C, in {out}/A, {out}/B, {out}/C), one of each kind if you can, each with a '
       'one-line commit message at the top of notes.txt.  IMPORTANT: never use `git stash` (it is shared between all '
       'worktrees of this repository); to test against the pristine tree use `git -C <worktree> diff > saved.diff; git -C '
       '<worktree> checkout -- .` and re-apply with `git apply`.  Keep your individual messages short; write long content to '
       'files.  Do not spend more than about 40 minutes: if a third change is hard to find, deliver two.\n'),
 '5': ('\nThis is a FIFTH round with a THEME: well-meant maintenance commits that go subtly wrong.  Each change must look '
       'like something a linter, a reviewer or a "modernise the code base" pass would suggest -- and be ALMOST behaviour '
       'preserving: flake8/pylint-style rewrites (`== None` vs `is None`, `if not x` vs `if x is None` / `len(x) == 0`, '
       'consider-using-in, consider-using-enumerate, unnecessary-else-after-return applied across a loop, simplifiable-if, '
       'merging nested ifs, replacing a flag variable by for/else or any()/next(), inlining or extracting a variable across a '
       'statement that changes it, `x = x or default`), exception-handling tidy-ups (a broader or narrower except, try body '
       'widened), Python-3 modernisation (dict views, `super()`, f-strings dropping a conversion, integer division, '
       '`sorted`/`set` for de-duplication changing order), default-argument clean-ups, dead-code removal that was not dead, '
       'loop rewrites that change when a condition is re-evaluated, hoisting a call out of a loop that depended on the loop.  '
       'Produce THREE changes (A, B and C, in {out}/A, {out}/B, {out}/C), each with a one-line commit message at the top of '
       'notes.txt that would pass review.  IMPORTANT: never use `git stash` (it is shared between all worktrees of this '
       'repository); to test against the pristine tree use `git -C <worktree> diff > saved.diff; git -C <worktree> checkout '
       '-- .` and re-apply with `git apply`.  Keep your individual messages short; write long content to files.\n'),
 '4': ('\nThis is a FOURTH round, and it is CLAUSE-DIRECTED.  First split the property statement into its separate clauses '
       '(sentences, sub-sentences, items of an enumeration, the "in particular" cases).  Then produce THREE changes (A, B and '
       'C, in {out}/A, {out}/B, {out}/C) that each violate a DIFFERENT clause -- prefer the clauses that look least likely to '
       'have been attacked before (the last sentence, a parenthesised special case, an item in the middle of a list).  Start '
       'notes.txt with the exact clause you target, quoted.  Earlier volunteers already tried: dropping or weakening guards, '
       'dropped keyword arguments, swapped attributes, helpers with a wrong corner case, caching, fast paths, loop bounds, '
       'or-defaults on falsy values, one-shot iterators, str-vs-tuple membership, table edits, mutable module state.  Any '
       'mechanism is fine as long as the change is plausible, keeps the 164 tests green and needs a specific input to show.  '
       'IMPORTANT: never use `git stash` (it is shared between all worktrees of this repository); to test against the pristine '
       'tree use `git -C <worktree> diff > saved.diff; git -C <worktree> checkout -- .` and re-apply with `git apply`.  Keep '
       'your individual messages short; write long content to files.\n'),
 '3': ('\nThis is a THIRD round: earlier volunteers already tried dropping or weakening single guards, dropping keyword '
       'arguments, swapping attributes, moving logic into helpers with a wrong corner case, caching/memoising, early exits and '
       'fast paths, and changed loop bounds.  Look somewhere else: (a) Python-semantics pitfalls -- `or`-defaults on falsy '
       'values, `is` vs `==`, bool/int confusion, truthiness of empty tokens/groups, slice bounds with negative numbers, '
       'generator exhaustion / iterating twice, dict or set ordering, str-subclass methods returning plain str, '
       '`__eq__`/`__hash__`/`__contains__` interplay, mutable defaults, closures capturing loop variables, exception types '
       'caught too broadly or too narrowly; (b) the data tables and constants (category codes, token-kind enums, signature and '
       'delimiter tables, name sets) and the decorators/helpers in utils.py, category.py, tex.py and TexSoup/__init__.py; (c) '
       'the order in which rules, branches or table entries are consulted; (d) two or three cooperating edits across modules.  '
       'Produce THREE changes (A, B and C) instead of two, in {out}/A, {out}/B, {out}/C.  IMPORTANT: never use `git stash` '
       '(the stash is shared between all worktrees of this repository); to test against the pristine tree use '
       '`git -C <worktree> diff > saved.diff; git -C <worktree> checkout -- .` and re-apply with `git apply`.\n'),
 '2': ('\nThis is a second round: earlier volunteers already tried the most obvious ideas (dropping a single guard, dropping a '
       'keyword argument of one call, swapping one attribute for a similarly named one).  Look for LESS obvious ways: a '
       'refactoring that moves logic into a new helper and gets a corner wrong, an "optimisation" or caching step, a change in a '
       'module other than the one you would first think of, a subtle change of evaluation order, a loop bound, a default value, '
       'a changed data structure, or two edits in different functions that are each harmless alone.  Produce THREE changes '
       '(A, B and C) instead of two, in {out}/A, {out}/B, {out}/C.\n'),
}
tmpl = '''You are helping to evaluate a verification tool for the Python library TexSoup (a fault-tolerant LaTeX parser). You work ONLY inside your own scratch git worktree of the repository: {wt}  (a checkout of the library; the package is the directory {wt}/TexSoup). Do not look at or touch anything outside {wt} and {out} (in particular never read /verif or /repo).

Here is a semantic property the library is supposed to satisfy:

  {pid} -- {title}
  Statement: {statement}
  Quantified over: {quant}

Your task: produce TWO independent, realistic source changes (call them A and B, each a separate small patch against the pristine worktree) to the library code under {wt}/TexSoup that BREAK this property, such that each change
  * still compiles/imports,
  * still passes the library's existing test suite unchanged:  cd {wt} && PYTHONPATH={wt} /venv/bin/python -m pytest -q -p no:cacheprovider   (164 tests incl. doctests must pass; do not edit tests or doctests),
  * is the kind of change a developer could plausibly make (a refactor gone wrong, an "optimisation", an off-by-one, a dropped guard, a wrong attribute, a reordered rule, a forgotten forwarding of an option ...), not a gratuitous sabotage and not a special-case on a magic input string,
  * needs something SPECIFIC to manifest -- an unusual input, a particular combination of neighbouring characters, a multi-step sequence of operations, or two cooperating code sites that each look fine alone -- so that ordinary use and the existing tests do not expose it at once.
A and B should use different mechanisms / different code sites from each other.
{extra}
For each change deliver, in {out}/A and {out}/B respectively:
  1. patch.diff  -- output of `git -C {wt} diff` for that change alone (apply A, save the diff, then `git -C {wt} checkout -- .` before making B),
  2. demo.py     -- a small standalone script, run as `PYTHONPATH=<tree> /venv/bin/python demo.py`, that exits 0 (prints OK) on the pristine tree and exits 1 (prints what went wrong) on the changed tree, demonstrating the violation of the property as stated,
  3. notes.txt   -- 3-6 lines: what the change is, which clause of the property it breaks, and what specific input/sequence is needed for it to manifest.
Verify yourself, for each change: the test suite passes with the change applied; demo.py fails with it and passes without it. Leave the worktree clean (git checkout -- .) when you are done. Reply with a short summary of the changes (files written, one line each).'''
os.makedirs(out, exist_ok=True)
for pid, p in props.items():
    if pid == 'C16':
        continue
    wt, o = '%s/%s' % (out, pid), '%s/%s_out' % (out, pid)
    open('%s/prompt_%s.txt' % (out, pid), 'w').write(tmpl.format(wt=wt, out=o, pid=pid, title=p['title'], statement=p['statement'],
                                                               quant=p['quantifier']['text'], extra=EXTRA[rnd].format(out=o)))
print('prompts written to', out)
