#!/venv/bin/python
"""tools/gen_pinned_api.py -- write sa/pinned_api.json: the parameter lists of every function and method of the package at the
pinned commit.  The properties quantify over this API; a parameter that is not in the table is a later addition (see
model.specialise_new_parameters)."""
import ast, json, os, subprocess
out = {}
files = subprocess.check_output(['git', '-C', '/repo', 'ls-tree', '--name-only', 'HEAD', 'TexSoup/'], text=True).split()
for f in files:
    if not f.endswith('.py'):
        continue
    src = subprocess.check_output(['git', '-C', '/repo', 'show', 'HEAD:' + f], text=True)
    t = ast.parse(src)
    m = os.path.basename(f)[:-3]
    tab = {}
    def params(fn):
        a = fn.args
        return [x.arg for x in a.posonlyargs + a.args] + ([a.vararg.arg] if a.vararg else []) + [x.arg for x in a.kwonlyargs] + \
            ([a.kwarg.arg] if a.kwarg else [])
    for st in t.body:
        if isinstance(st, ast.FunctionDef):
            tab[st.name] = params(st)
        elif isinstance(st, ast.ClassDef):
            for s2 in st.body:
                if isinstance(s2, ast.FunctionDef):
                    tab.setdefault('%s.%s' % (st.name, s2.name), params(s2))
    out[m] = tab
json.dump(out, open(os.path.join(os.path.dirname(os.path.dirname(os.path.abspath(__file__))), 'sa', 'pinned_api.json'), 'w'), indent=1, sort_keys=True)
print(sum(len(v) for v in out.values()), 'functions')
