#!/venv/bin/python
"""tools/keep_seed.py <dir with patch.diff demo.py notes.txt> <seed-id> <property>
Confirms a seeded change in a scratch worktree (outside /repo and /verif): demo passes on the pristine tree, the
repository's suite passes with the change, the demo fails with the change; runs every check against the changed tree
and stores patch, demo and meta.json under /verif/seeded/<seed-id>/.  The worktree is removed afterwards."""
import os, sys, subprocess, json, tempfile, shutil, re

def sh(cmd, **kw):
    return subprocess.run(cmd, shell=True, capture_output=True, text=True, **kw)

def main():
    src, sid, prop = os.path.abspath(sys.argv[1]), sys.argv[2], sys.argv[3]
    patch = os.path.join(src, 'patch.diff')
    demo = os.path.join(src, 'demo.py')
    wt = tempfile.mkdtemp(prefix='seedkeep_', dir='/tmp'); os.rmdir(wt)
    subprocess.check_call(['git', '-C', '/repo', 'worktree', 'add', '-q', '--detach', wt, 'HEAD'])
    meta = {'property': prop, 'seed': sid}
    try:
        env = 'cd %s && PYTHONPATH=%s ' % (wt, wt)
        r0 = sh(env + '/venv/bin/python %s' % demo)
        meta['demo_on_pristine_exit'] = r0.returncode
        a = sh('git -C %s apply %s' % (wt, patch))
        if a.returncode != 0:
            print('patch does not apply:', a.stderr[:300]); return 1
        t = sh(env + '/venv/bin/python -m pytest -q -p no:cacheprovider 2>&1 | tail -3')
        m = re.search(r'(\d+) passed', t.stdout)
        failed = re.search(r'(\d+) failed', t.stdout)
        meta['suite_with_change'] = t.stdout.strip().split('\n')[-1]
        r1 = sh(env + '/venv/bin/python %s' % demo)
        meta['demo_with_change_exit'] = r1.returncode
        meta['demo_with_change_output'] = (r1.stdout + r1.stderr)[-400:]
        ok = r0.returncode == 0 and r1.returncode != 0 and m and int(m.group(1)) >= 164 and not failed
        meta['confirmed'] = bool(ok)
    finally:
        subprocess.call(['git', '-C', '/repo', 'worktree', 'remove', '--force', wt])
    ev = sh('/venv/bin/python /verif/tools/try_seed.py %s' % patch)
    summ = [l for l in ev.stdout.split('\n') if l.startswith('SUMMARY')]
    status = json.loads(summ[0][8:]) if summ else {}
    meta['checks'] = status
    meta['caught_by'] = sorted(k for k, v in status.items() if v == 'VIOLATION')
    meta['analysis_error_in'] = sorted(k for k, v in status.items() if v not in ('VIOLATION', 'pass'))
    meta['reports'] = [l.strip() for l in ev.stdout.split('\n') if l.startswith('      (')][:8]
    notes = open(os.path.join(src, 'notes.txt')).read() if os.path.exists(os.path.join(src, 'notes.txt')) else ''
    meta['needs_to_manifest'] = notes.strip()[:900]
    meta['what_was_run'] = 'scratch worktree of /repo HEAD: demo.py on pristine tree; git apply patch.diff; repository suite (pytest, 164 tests); demo.py with the change; tools/try_seed.py (all checks, quick tier, against the changed tree)'
    print(json.dumps({k: meta[k] for k in ('confirmed', 'suite_with_change', 'demo_on_pristine_exit', 'demo_with_change_exit', 'caught_by', 'analysis_error_in')}, indent=1))
    if not meta['confirmed']:
        print('NOT CONFIRMED -- not kept'); return 2
    dst = '/verif/seeded/%s' % sid
    os.makedirs(dst, exist_ok=True)
    shutil.copy(patch, dst + '/patch.diff'); shutil.copy(demo, dst + '/demo.py')
    json.dump(meta, open(dst + '/meta.json', 'w'), indent=1)
    return 0

sys.exit(main())
