#!/venv/bin/python
"""tools/eval_rules.py <rule-func,...> [glob]  -- run single rules (module.func, e.g. rules_struct.r09_j) against every
behaviour-preserving change under /verif/benign (and /verif/rewrites), each applied to a scratch copy of /repo's
working tree outside /repo and /verif.  Prints the rules that report a finding (false alarm) or cannot decide."""
import sys, os, glob, subprocess, tempfile, shutil, importlib, multiprocessing
sys.path.insert(0, os.path.dirname(os.path.dirname(os.path.abspath(__file__))))
os.environ['VERIF_NO_CONTROLS'] = '1'


def one(args):
    patch, rules = args
    from sa.run import Ctx, Repo
    from sa.model import AnalysisError
    wt = tempfile.mkdtemp(prefix='ruleeval_', dir='/tmp')
    try:
        subprocess.check_call('git -C /repo archive HEAD | tar -x -C %s' % wt, shell=True)
        r = subprocess.run(['git', 'apply', patch], cwd=wt, capture_output=True, text=True)
        if r.returncode:
            return patch, [('apply', 'FAILED')]
        out = []
        ctx = Ctx(Repo(wt), tier='quick', seed=0)
        for rn in rules:
            mod, fn = rn.split('.')
            f = getattr(importlib.import_module('sa.' + mod), fn)
            try:
                rr = f(ctx)
                out.append((rn, 'FINDING %s' % [(x.function, str(x.construct)[:60]) for x in rr.findings] if rr.findings else 'ok'))
            except AnalysisError as e:
                out.append((rn, 'EXIT2 %s' % str(e)[:100]))
        return patch, out
    finally:
        shutil.rmtree(wt, ignore_errors=True)


if __name__ == '__main__':
    rules = sys.argv[1].split(',')
    pats = sys.argv[2:] or ['/verif/benign/*/patch.diff', '/verif/rewrites/*/patch.diff']
    patches = sorted(p for g in pats for p in glob.glob(g))
    bad = 0
    with multiprocessing.get_context('fork').Pool(16) as pool:
        for patch, out in pool.imap_unordered(one, [(p, rules) for p in patches]):
            for rn, st in out:
                if st != 'ok':
                    bad += st.startswith('FINDING')
                    print(patch.split('/')[-2], rn, st)
    print('%d patches, %d findings' % (len(patches), bad))
