#!/venv/bin/python
"""Regenerate /verif/MANIFEST.json from the property registry (sa/props.py) and the per-property
level texts below.  Properties without a registered check go under not_applicable with a reason."""
import json, os, sys
sys.path.insert(0, os.path.dirname(os.path.dirname(os.path.abspath(__file__))))
from sa import props

TECH = {
 'C19': 'static analysis: abstract interpretation of the tokenizer AST over character-category windows (finite dispatch table), plus structural def-use checks of categorize/tokenize',
 'C06': 'static analysis: context-propagating availability/progress dataflow over the reader and Buffer scans; tokenizer abstract interpretation; call-graph rule on raised types; dominance rules for subscripts',
 'C20': 'static analysis: affine abstract interpretation of the Buffer cursor field with Karr-style loop invariants; raise-set propagation; who-may-write rule for the queue',
 'C08': 'static analysis: linear-resource (token conservation) path analysis of the reader with per-context callee summaries; serialiser def-use rule; delimiter tables vs tokenizer dispatch table',
 'C01': 'static analysis: token conservation on the reader, lossless-serialiser def-use, delimiter-table agreement, raw-capture def-use, tokenizer partition (abstract interpretation)',
 'C10': 'static analysis: assertions on the tokenizer dispatch table (abstract interpretation) for backslash/percent windows; reader kind-blindness rule',
 'C12': 'static analysis: assertions on the tokenizer dispatch table for math-switch windows; kind/class/delimiter table agreement; def-use rules on the math readers; operator/sizing tables (constant folding)',
 'C09': 'static analysis: tokenizer dispatch-table assertions for whitespace/delimiters; cursor-movement summaries; spacer conservation; taint rule on the spacer variable',
 'C07': 'static analysis: option-role inference by data flow, threading and must-flow over the resolved call graph, truth-table non-interference of the tolerance option, conservation on tolerant paths',
 'C11': 'static analysis: call-graph reachability from the raw reader, skip-role threading/must-flow, dominance rule on the raw/parsed decision, raw-capture def-use',
 'C02': 'static analysis: mode-role threading and must-flow of the definition mode to the begin test; def-use rules on item and group readers',
 'C13': 'static analysis: position provenance (tokenizer abstract interpretation, affine evaluation of Token arithmetic, first-token rule from the conservation engine, regex offset def-use)',
 'C14': 'static analysis: MRO-resolved def-use of environment delimiters, setter write-through rules, slice-type rule, live-name match predicate',
 'C03': 'static analysis: class-lattice evaluation of view predicates; def-use/delegation rules on find/count/descendants/match',
 'C04': 'static analysis: class-lattice evaluation of view predicates; parent-wiring and delegation rules on the node views',
 'C05': 'static analysis: search-primitive classification (identity vs textual equality) and index def-use in the edit methods',
 'C15': 'static analysis: frame/effect analysis of mutators, no-memoisation rule, kind-flow analysis into content lists, view totality over stored kinds',
 'C17': 'static analysis: who-may-write rules for shared state, classification of set iterations with prefix-freeness of folded constants, fresh-root def-use, token provenance for attribute stores',
 'C18': 'static analysis: path-wise effect/typestate analysis of the TexArgs mutators (paired sequences, nothing fails after the write), signature comparison with list, serialiser def-use',
}
NA = {
 'C16': 'a relation between two executions on different inputs (parse(s) vs parse(str(parse(s)))); the only structural ingredient (spaced and adjacent argument groups read alike) is sufficient but not necessary, so a static rule would be a brittle proxy -- declined, see DESIGN.md section 6',
}
PENDING = 'static rule set designed (DESIGN.md section 5) but its check is not built yet in this round'

def main():
    allp = [json.loads(l) for l in open('/verif/properties.jsonl')]
    man = {
     'version': 1,
     'setup_cmd': 'true',
     'hooks': {'guard': 'ALVINWAN_TEXSOUP_VERIF',
               'enable': 'none needed: the checks read /repo/TexSoup/*.py with the ast module and never run it; no hook was added to the repository',
               'baseline_off_cmd': 'cd /repo && /venv/bin/python -m pytest -ra -q -p no:cacheprovider --timeout=900',
               'source_commits': [], 'add_only': True},
     'engines': [{'name': 'sa', 'path': '/verif/sa', 'serves_properties': sorted(props.PROPS),
                  'kind_free_text': 'repository-specific static analysis on Python ast: constant folder, class lattice, structured abstract interpreters (tokenizer category-window interpreter, cursor availability/progress dataflow, affine Buffer model, token-conservation path analysis), role/threading call-graph rules, data-model kind/effect rules'}],
     'checks': [],
     'notes': 'All checks are static analyses of the current /repo working tree (stdlib ast, /venv/bin/python); /repo code is never imported or executed by a check. Exit 2 + ANALYSIS-ERROR means the analysis could not be carried out (unsupported construct, vanished anchor, instance floor, positive control did not fire). Genuine defects found are listed in known_findings.json (fixed ones with their fix: commit).',
     'not_applicable': []}
    for p in allp:
        pid = p['id']
        if pid in props.PROPS:
            sp = props.PROPS[pid]
            man['checks'].append({
              'property_id': pid,
              'quick_cmd': './vcheck %s --tier quick' % pid,
              'thorough_cmd': './vcheck %s --tier thorough' % pid,
              'evidence_file': '/verif/evidence/%s.json' % pid,
              'replay_cmd_template': './vcheck %s --replay {path}' % pid,
              'engine': 'sa',
              'level_claimed': {'category': 'other',
                                'text': 'Static analysis, clause-level: decides ' + sp['decided'] + '  These are necessary conditions of the property that hold for every input/history because they are facts about every path of the code; the behaviour as a whole is NOT decided (not decided: ' + sp['not_decided'] + ').',
                                'design_ref': 'DESIGN.md section 5, ' + pid},
              'level_note': 'Trusted: CPython ast, the analyser under /verif/sa, the modelled semantics of builtins and of the decorators the repo uses; assumes nothing outside /repo/TexSoup monkey-patches it. ' + ' '.join(sp.get('assumptions', [])),
              'technique': TECH.get(pid, 'static analysis on the Python ast of /repo/TexSoup')})
        else:
            man['not_applicable'].append({'property_id': pid, 'reason': NA.get(pid, PENDING)})
    json.dump(man, open('/verif/MANIFEST.json', 'w'), indent=1)
    print('checks:', [c['property_id'] for c in man['checks']])
    print('n/a   :', [c['property_id'] for c in man['not_applicable']])

main()
