"""Rules R20.a-d on utils.Buffer from the affine cursor model (bufmodel.py)."""
import ast

from .model import AnalysisError, norm
from .core import RuleResult, Finding
from . import bufmodel
from .bufmodel import Aff, TOP
from . import rules_reader


def model(ctx):
    return ctx.memo('bufmodel', lambda: bufmodel.analyse(ctx.repo))


NONMOVING = [('peek', ()), ('peek', ('int',)), ('peek', ('range',)), ('__getitem__', ('int',)),
             ('__getitem__', ('slice',)), ('hasNext', ()), ('hasNext', ('int',)), ('startswith', ('other',)),
             ('endswith', ('other',)), ('num_forward_until', ('other',)), ('position', ())]

ZERO = Aff(0)
I0 = Aff.sym('I0')


def _fd(m, name):
    fd = m.method(name)
    if fd is None:
        raise AnalysisError('Buffer.%s vanished' % name)
    return fd


def _has(pc, kind, aff):
    return (kind, aff) in set(pc)


def r20_a(ctx):
    m = model(ctx)
    rr = RuleResult('R20.a', 'peek, indexing/slicing, hasNext, startswith, endswith, position and num_forward_until '
                    'leave the cursor where it was on every exit (normal or exceptional)', floor=9)
    for name, kinds in NONMOVING:
        fd = _fd(m, name)
        exits, raises = m.solve(name, kinds)
        if not exits and not raises:
            raise AnalysisError('Buffer.%s%s has no abstract exit' % (name, kinds))
        bad = [e for e in exits if e.delta is TOP or e.delta != ZERO]
        badr = [(x, d) for x, d in raises if x != 'AssertionError' and (d is TOP or d != ZERO)]
        ok = not bad and not badr
        rr.ob(ok, {'method': 'Buffer.%s%s' % (name, list(kinds)), 'exits': len(exits),
                   'cursor_delta': sorted({repr(e.delta) for e in exits})})
        if not ok:
            d = bad[0].delta if bad else badr[0][1]
            rr.fail(Finding('R20.a', 'utils', fd.qual, 'Buffer.%s: cursor delta %s on %s exit' % (
                name, 'unknown' if d is TOP else repr(d), 'a normal' if bad else 'an exceptional (%s)' % badr[0][0]),
                'the non-moving operation Buffer.%s can return with the cursor moved (delta %s): later reads see a '
                'different position' % (name, 'unknown' if d is TOP else d), line=fd.node.lineno))
    return rr


def r20_b(ctx):
    m = model(ctx)
    rr = RuleResult('R20.b', 'forward(j) moves by +j and returns the items [entry, entry+j); backward(j) moves by -j '
                    'and returns [entry-j, entry), checking underflow before moving; next() moves by one and returns '
                    'the item at the entry position', floor=5)
    pj = Aff.sym('p:j')
    # forward
    fd = _fd(m, 'forward')
    exits, raises = m.solve('forward', ('int',))
    n_pos = 0
    for e in exits:
        if _has(e.pc, 'nonneg', pj) or not (_has(e.pc, 'neg', pj)):
            n_pos += 1
            ok = e.delta == pj and e.ret == ('joined', I0, I0 + pj)
            rr.ob(ok, {'method': 'forward(j>=0)', 'delta': repr(e.delta), 'returns': repr(e.ret[1:]) if len(e.ret) > 1 else repr(e.ret)})
            if not ok:
                rr.fail(Finding('R20.b', 'utils', fd.qual, 'Buffer.forward(j>=0): delta %s, returns %s' % (
                    e.delta, (e.ret[0],) + tuple(map(repr, e.ret[1:]))),
                    'forward(j) must advance the cursor by j and return the items [entry, entry+j)', line=fd.node.lineno))
        else:
            ok = e.delta == pj and e.ret == ('joined', I0 + pj, I0)
            rr.ob(ok, {'method': 'forward(j<0)', 'delta': repr(e.delta)})
            if not ok:
                rr.fail(Finding('R20.b', 'utils', fd.qual, 'Buffer.forward(j<0): delta %s, returns %s' % (
                    e.delta, (e.ret[0],) + tuple(map(repr, e.ret[1:]))),
                    'forward(j) with negative j must behave as backward(-j)', line=fd.node.lineno))
    if n_pos == 0:
        raise AnalysisError('Buffer.forward: no exit for j >= 0')
    # backward
    fd = _fd(m, 'backward')
    exits, raises = m.solve('backward', ('int',))
    n_pos = 0
    for e in exits:
        if _has(e.pc, 'neg', pj) and not _has(e.pc, 'nonneg', pj):
            ok = e.delta == -pj and e.ret == ('joined', I0, I0 - pj)
            rr.ob(ok, {'method': 'backward(j<0)', 'delta': repr(e.delta)})
            if not ok:
                rr.fail(Finding('R20.b', 'utils', fd.qual, 'Buffer.backward(j<0): delta %s' % (e.delta,),
                                'backward(j) with negative j must behave as forward(-j)', line=fd.node.lineno))
            continue
        n_pos += 1
        ok_move = e.delta == -pj and e.ret == ('joined', I0 - pj, I0)
        ok_guard = _has(e.pc, 'nonneg', I0 - pj)
        rr.ob(ok_move and ok_guard, {'method': 'backward(j>=0)', 'delta': repr(e.delta), 'underflow_checked': ok_guard})
        if not ok_move:
            rr.fail(Finding('R20.b', 'utils', fd.qual, 'Buffer.backward(j>=0): delta %s, returns %s' % (
                e.delta, (e.ret[0],) + tuple(map(repr, e.ret[1:]))),
                'backward(j) must move the cursor back by j and return the items [entry-j, entry)', line=fd.node.lineno))
        elif not ok_guard:
            rr.fail(Finding('R20.b', 'utils', fd.qual, 'Buffer.backward: cursor written without the underflow check',
                            'backward(j) can move the cursor below zero: negative positions index from the end of the '
                            'queue', line=fd.node.lineno))
    if n_pos == 0:
        raise AnalysisError('Buffer.backward: no exit for j >= 0')
    # __next__
    fd = _fd(m, '__next__')
    exits, raises = m.solve('__next__', ())
    for e in exits:
        ok = e.delta == Aff(1) and e.ret == ('elem', I0)
        rr.ob(ok, {'method': '__next__', 'delta': repr(e.delta), 'returns': repr(e.ret)})
        if not ok:
            rr.fail(Finding('R20.b', 'utils', fd.qual, 'Buffer.__next__: delta %s, returns %s' % (e.delta, e.ret),
                            'next() must advance the cursor by one and return the item at the entry position',
                            line=fd.node.lineno))
    for x, d in raises:
        ok = x == 'StopIteration' and d == ZERO
        rr.ob(ok, {'method': '__next__', 'raises': x, 'delta': repr(d)})
        if not ok:
            rr.fail(Finding('R20.b', 'utils', fd.qual, 'Buffer.__next__: raises %s with delta %s' % (x, d),
                            'next() past the end must raise StopIteration and leave the cursor unchanged',
                            line=fd.node.lineno))
    if not exits:
        raise AnalysisError('Buffer.__next__ has no normal exit')
    return rr


def r20_c(ctx):
    m = model(ctx)
    rr = RuleResult('R20.c', 'exhaustion is reported, not leaked: peek lets no IndexError/StopIteration escape, '
                    'indexing lets no StopIteration escape, the tests raise nothing; no Buffer method dereferences a '
                    'single-item peek unguarded', floor=8)
    spec = [('peek', (), {'IndexError', 'StopIteration'}), ('peek', ('int',), {'IndexError', 'StopIteration'}),
            ('peek', ('range',), {'IndexError', 'StopIteration'}),
            ('__getitem__', ('int',), {'StopIteration'}), ('__getitem__', ('slice',), {'StopIteration', 'IndexError'}),
            ('hasNext', (), {'IndexError', 'StopIteration', 'AttributeError'}),
            ('hasNext', ('int',), {'IndexError', 'StopIteration', 'AttributeError'}),
            ('startswith', ('other',), {'IndexError', 'StopIteration'}),
            ('endswith', ('other',), {'IndexError', 'StopIteration'}),
            ('forward', ('int',), {'IndexError', 'StopIteration'}),
            ('backward', ('int',), {'IndexError', 'StopIteration'})]
    for name, kinds, forbidden in spec:
        fd = _fd(m, name)
        exits, raises = m.solve(name, kinds)
        leaked = sorted({x for x, d in raises} & forbidden)
        rr.ob(not leaked, {'method': 'Buffer.%s%s' % (name, list(kinds)), 'may_raise': sorted({x for x, d in raises})})
        if leaked:
            rr.fail(Finding('R20.c', 'utils', fd.qual, 'Buffer.%s: %s escapes' % (name, '/'.join(leaked)),
                            'reading past the end through Buffer.%s raises %s instead of reporting exhaustion '
                            '(None / shorter result / StopIteration from next only)' % (name, '/'.join(leaked)),
                            line=fd.node.lineno))
    # range-peek never yields None: no exit of peek(range) returns None
    exits, raises = m.solve('peek', ('range',))
    none_exits = [e for e in exits if e.ret == ('const', None)]
    rr.ob(not none_exits, {'method': 'peek(range)', 'may_return_None': bool(none_exits)})
    if none_exits:
        fd = _fd(m, 'peek')
        rr.fail(Finding('R20.c', 'utils', fd.qual, 'Buffer.peek(range): may return None',
                        'a range peek can return None; startswith/endswith and the tokenizer dereference range peeks '
                        'unconditionally', line=fd.node.lineno))
    for fd, node, msg in m.deref_findings:
        rr.ob(False)
        rr.fail(Finding('R20.c', 'utils', fd.qual, node, msg, line=getattr(node, 'lineno', 0)))
    # composite scans (cursor engine): None dereference inside Buffer methods
    e = rules_reader.engine(ctx)
    for f in e.findings.values():
        if f.kind == 'none-deref' and f.fd.module.name == 'utils':
            rr.ob(False)
            rr.fail(Finding('R20.c', 'utils', f.fd.qual, f.node, f.detail, line=getattr(f.node, 'lineno', 0),
                            trace={'call_chain': f.chain[-6:]}))
    for (kind, fq, construct), ok in e.sites.items():
        if kind == 'deref' and fq.startswith('utils.'):
            rr.ob(ok, {'site': fq + ': ' + construct})
    return rr


def r20_d(ctx):
    m = model(ctx)
    rr = RuleResult('R20.d', 'the item queue is append-only and filled only from the underlying iterator, in __next__',
                    floor=1)
    cls = m.cls
    q = m.queue_field
    mutators = ('append', 'insert', 'pop', 'remove', 'clear', 'extend', 'sort', 'reverse', '__setitem__', '__delitem__')
    for name, fds in cls.methods.items():
        for fd in fds:
            for n in ast.walk(fd.node):
                site = None
                if isinstance(n, ast.Call) and isinstance(n.func, ast.Attribute) and n.func.attr in mutators \
                        and isinstance(n.func.value, ast.Attribute) and n.func.value.attr == q:
                    site = n
                    from .model import resolve_locals
                    ok = (name == '__next__' and n.func.attr == 'append' and len(n.args) == 1
                          and any(isinstance(x, ast.Call) and isinstance(x.func, ast.Name) and x.func.id == 'next'
                                  and x.args and isinstance(x.args[0], ast.Attribute) and x.args[0].attr == m.iter_field
                                  for x in ast.walk(resolve_locals(fd.node, n.args[0]))))
                elif isinstance(n, (ast.Assign, ast.AugAssign, ast.Delete)):
                    tg = n.targets if isinstance(n, (ast.Assign, ast.Delete)) else [n.target]
                    for t in tg:
                        base = t.value if isinstance(t, ast.Subscript) else t
                        if isinstance(base, ast.Attribute) and base.attr == q and isinstance(base.value, ast.Name) \
                                and base.value.id == 'self':
                            site = n
                            ok = name == '__init__' and isinstance(n, ast.Assign) and not isinstance(t, ast.Subscript)
                if site is not None:
                    rr.ob(ok, {'method': fd.qual, 'write': norm(site)[:80]})
                    if not ok:
                        rr.fail(Finding('R20.d', 'utils', fd.qual, site,
                                        'the item queue is written outside the fill step of __next__ (or not from the '
                                        'iterator): items already handed out can change or vanish', line=site.lineno))
    return rr


def r20_e(ctx):
    """the tests are derived from the right items: hasNext(n) from the single item n-1 ahead, startswith/endswith
    from the range of len(s) items after/before the cursor"""
    m = model(ctx)
    rr = RuleResult('R20.e', 'hasNext(n) is the truth of the single item n-1 ahead (an item count, not a length of joined '
                    'text); startswith/endswith look at exactly len(s) items after/before the cursor', floor=3)
    pn = Aff.sym('p:n')
    fd = _fd(m, 'hasNext')
    exits, raises = m.solve('hasNext', ('int',))
    for e in exits:
        ok = e.ret in (('boolof', ('elem', I0 + pn - Aff(1))), ('boolof', ('const', None)))
        rr.ob(ok, {'method': 'hasNext(n)', 'derived_from': repr(e.ret)})
        if not ok:
            rr.fail(Finding('R20.e', 'utils', fd.qual, 'Buffer.hasNext(n) derived from %s' % (e.ret,),
                            'hasNext(n) is not the existence of the n-th item ahead: with multi-character items it can '
                            'claim items that do not exist (or deny ones that do)', line=fd.node.lineno))
    for name, lo, hi in (('startswith', I0, I0 + Aff.sym('len(p:s)')), ('endswith', I0 - Aff.sym('len(p:s)'), I0)):
        fd = _fd(m, name)
        ok = False
        for n in ast.walk(fd.node):
            if isinstance(n, ast.Call) and isinstance(n.func, ast.Attribute) and n.func.attr == name and isinstance(n.func.value, ast.Call) \
                    and isinstance(n.func.value.func, ast.Attribute) and n.func.value.func.attr == 'peek' and norm(n.func.value.func.value) == 'self':
                a = n.func.value.args[0] if n.func.value.args else None
                p = fd.params()[1]
                want = ('(0, len(%s))' % p) if name == 'startswith' else ('(-len(%s), 0)' % p)
                ok = a is not None and norm(a) == want and norm(n.args[0]) == p
        # ... on every path: a return that answers from something else (a single-item comparison for one-character
        # needles, say) is a different test on a buffer of multi-character items and at the edges of the buffer
        from .model import resolve_locals as _rl20
        others = []
        for r_ in [x for x in ast.walk(fd.node) if isinstance(x, ast.Return)]:
            v_ = _rl20(fd.node, r_.value) if r_.value is not None else None
            if v_ is None or norm(v_) != 'self.peek(%s).%s(%s)' % (want if ok else '?', name, fd.params()[1]):
                others.append(r_)
        if ok and others:
            ok = False
            rr.ob(False, {'method': name, 'other_answer': norm(others[0])[:60]})
            rr.fail(Finding('R20.e', 'utils', fd.qual, others[0], 'Buffer.%s also answers with `%s`, which is not the comparison '
                            'of the len(s) items next to the cursor with s: on a buffer of multi-character items, or at the '
                            'first/last position, the two disagree' % (name, norm(others[0].value)[:50] if others[0].value is not None else 'None'),
                            line=others[0].lineno))
            continue
        rr.ob(ok, {'method': name, 'range': 'len(s) items %s the cursor' % ('after' if name == 'startswith' else 'before')})
        if not ok:
            rr.fail(Finding('R20.e', 'utils', fd.qual, 'Buffer.%s range' % name, 'Buffer.%s does not compare the %d..len(s) '
                            'items next to the cursor with s' % (name, 0), line=fd.node.lineno))
    return rr


def r20_f(ctx):
    """num_forward_until answers with a count of items"""
    m = model(ctx)
    rr = RuleResult('R20.f', 'num_forward_until returns the number of items between the cursor and the first item that '
                    'satisfies the condition: an iteration count of a scan that advances one item per iteration (or the '
                    'cursor displacement of that scan) -- not a length of joined text, which counts characters on a '
                    'token buffer', floor=1)
    fd = _fd(m, 'num_forward_until')
    exits, raises = m.solve('num_forward_until', ('other',))
    if not exits:
        raise AnalysisError('Buffer.num_forward_until has no normal exit')
    seen = set()
    for e in exits:
        k = repr(e.ret)
        if k in seen:
            continue
        seen.add(k)
        ok = e.ret[0] == 'aff' and all(str(sym).startswith('k@') or sym == 1 for sym, _c in getattr(e.ret[1], 't', ())) \
            if e.ret[0] == 'aff' else False
        if e.ret[0] == 'aff' and not getattr(e.ret[1], 't', ()):
            ok = e.ret[1].c == 0        # the constant 0 (nothing to skip)
        rr.ob(ok, {'method': 'num_forward_until', 'returns': repr(e.ret)[:60]})
        if not ok:
            rr.fail(Finding('R20.f', 'utils', fd.qual, 'Buffer.num_forward_until returns %s' % (repr(e.ret)[:50],),
                            'the value returned by num_forward_until is not the number of items the scan passed over (%s): '
                            'on a buffer of multi-character tokens a text length over-counts, and callers that move by the '
                            'result overshoot' % (repr(e.ret)[:50],), line=fd.node.lineno))
    return rr


def r20_g(ctx):
    """the non-moving operations are queries: they assign no field of the buffer themselves"""
    m = model(ctx)
    rr = RuleResult('R20.g', 'peek, indexing/slicing, hasNext, startswith, endswith, position and num_forward_until write no '
                    'field of the buffer themselves (items are materialised only through __next__, whose net movement R20.a '
                    'bounds): a query cannot leave state behind that a later operation reads', floor=7)
    cls = m.cls
    mutators = ('append', 'insert', 'pop', 'remove', 'clear', 'extend', 'sort', 'reverse', 'add', 'update', 'discard',
                'setdefault', 'popitem', 'appendleft', 'popleft')
    reads = {}
    for name, fds in cls.methods.items():
        for fd in fds:
            for n in ast.walk(fd.node):
                if isinstance(n, ast.Attribute) and isinstance(n.value, ast.Name) and n.value.id == 'self' \
                        and isinstance(n.ctx, ast.Load):
                    reads.setdefault(n.attr, set()).add(name)
    for name in sorted({n for n, _k in NONMOVING}):
        fd = _fd(m, name)
        writes = []
        for n in ast.walk(fd.node):
            if isinstance(n, (ast.Assign, ast.AugAssign, ast.AnnAssign, ast.Delete)):
                tg = n.targets if isinstance(n, (ast.Assign, ast.Delete)) else [n.target]
                for t in tg:
                    for e in (t.elts if isinstance(t, (ast.Tuple, ast.List)) else [t]):
                        base = e.value if isinstance(e, ast.Subscript) else e
                        if isinstance(base, ast.Attribute) and isinstance(base.value, ast.Name) and base.value.id == 'self':
                            writes.append((n, base.attr))
            elif isinstance(n, ast.Call) and isinstance(n.func, ast.Attribute) and n.func.attr in mutators \
                    and isinstance(n.func.value, ast.Attribute) and isinstance(n.func.value.value, ast.Name) \
                    and n.func.value.value.id == 'self':
                writes.append((n, n.func.value.attr))
            elif isinstance(n, ast.Call) and isinstance(n.func, ast.Name) and n.func.id == 'setattr' and n.args \
                    and norm(n.args[0]) == 'self':
                writes.append((n, norm(n.args[1]) if len(n.args) > 1 else '?'))
        # the cursor field (save/restore, net movement decided by R20.a) and the queue (R20.d) have their own rules
        writes = [(n, a) for n, a in writes if a not in (m.cursor_field, m.queue_field)]
        live = [(n, a) for n, a in writes if reads.get(a, set()) - {'__init__'} or a not in reads]
        rr.ob(not live, {'method': 'Buffer.%s' % name, 'field_writes': [a for _n, a in writes]})
        for n, a in live:
            rr.fail(Finding('R20.g', 'utils', fd.qual, n, 'the non-moving operation Buffer.%s writes the field %s, which %s '
                            'read: what a later next/peek/hasNext answers depends on which queries were asked before'
                            % (name, a, ', '.join(sorted(reads.get(a, {'other operations'}) - {'__init__'})) or 'other operations'),
                            line=n.lineno))
    return rr
