"""E0 -- source model of /repo/TexSoup: modules, symbols, class lattice (C3 MRO),
decorator facts and a whitelisted constant folder for module-level initialisers.

Nothing from /repo is imported or executed: every fact is computed from `ast` trees.
"""
import ast
import hashlib
import os
import string as _string


class AnalysisError(Exception):
    """The analysis itself cannot be carried out (exit 2, never a VIOLATION)."""


class Unfoldable(AnalysisError):
    pass


REPO_ROOT = os.environ.get('VERIF_REPO', '/repo')
PKG = 'TexSoup'
MODULE_NAMES = ('utils', 'category', 'data', 'tokens', 'reader', 'tex', '__init__')


# --------------------------------------------------------------------------- folded values

class FEnum:
    """Folded IntEnum: ordered members, iteration yields members."""

    def __init__(self, name, pairs):
        self.name = name
        self.members = {}
        for k, v in pairs:
            self.members[k] = FEnumMember(v, self, k)

    def __iter__(self):
        return iter(self.members.values())

    def __contains__(self, x):
        return any(int(m) == x for m in self.members.values()) if isinstance(x, int) else False

    def __len__(self):
        return len(self.members)

    def by_value(self, v):
        return [m for m in self.members.values() if int(m) == int(v)]

    def __repr__(self):
        return '<FEnum %s/%d>' % (self.name, len(self.members))


class FEnumMember(int):
    def __new__(cls, value, enum, name):
        self = int.__new__(cls, value)
        self.enum = enum
        self.mname = name
        return self

    def __repr__(self):
        return '%s.%s' % (self.enum.name, self.mname)

    __str__ = __repr__


class ClassRef:
    def __init__(self, info):
        self.info = info

    def __repr__(self):
        return '<class %s>' % self.info.qual

    def __eq__(self, o):
        return isinstance(o, ClassRef) and o.info is self.info

    def __hash__(self):
        return hash(self.info.qual)


class FuncRef:
    def __init__(self, fdef):
        self.fdef = fdef

    def __repr__(self):
        return '<func %s>' % self.fdef.qual


# --------------------------------------------------------------------------- definitions

class FuncDef:
    def __init__(self, module, qual, node, cls=None, parent=None):
        self.module, self.qual, self.node, self.cls, self.parent = module, qual, node, cls, parent
        self.name = node.name
        self.decorators = [ast.unparse(d) for d in node.decorator_list]

    @property
    def fq(self):
        return '%s.%s' % (self.module.name, self.qual)

    def params(self):
        a = self.node.args
        return [x.arg for x in a.posonlyargs + a.args]

    def defaults(self):
        """param name -> default expr node"""
        a = self.node.args
        pos = a.posonlyargs + a.args
        out = {}
        for p, d in zip(pos[len(pos) - len(a.defaults):], a.defaults):
            out[p.arg] = d
        for p, d in zip(a.kwonlyargs, a.kw_defaults):
            if d is not None:
                out[p.arg] = d
        return out

    def __repr__(self):
        return '<FuncDef %s>' % self.fq


class ClassInfo:
    def __init__(self, module, node):
        self.module, self.node = module, node
        self.name = node.name
        self.qual = node.name
        self.base_exprs = node.bases
        self.bases = []         # resolved ClassInfo or external name strings
        self.mro = None
        self.methods = {}       # name -> [FuncDef] (several for property getter/setter)
        self.attrs = {}         # name -> value expr node (class-level Assign)
        for st in node.body:
            if isinstance(st, ast.FunctionDef):
                self.methods.setdefault(st.name, []).append(
                    FuncDef(module, '%s.%s' % (node.name, st.name), st, cls=self))
            elif isinstance(st, ast.Assign):
                for t in st.targets:
                    if isinstance(t, ast.Name):
                        self.attrs[t.id] = st.value

    @property
    def fq(self):
        return '%s.%s' % (self.module.name, self.qual)

    def is_subclass_of(self, other):
        return any(c is other for c in self.mro if isinstance(c, ClassInfo))

    def lookup(self, attr):
        """MRO-resolved definition: (owner, kind, payload)
        kind: 'method' (FuncDef) | 'property' (dict getter/setter FuncDef) | 'classattr' (expr)
              | 'classmethod' | 'staticmethod' | None"""
        for c in self.mro:
            if not isinstance(c, ClassInfo):
                continue
            if attr in c.methods:
                fds = c.methods[attr]
                props = {}
                for fd in fds:
                    if 'property' in fd.decorators:
                        props['getter'] = fd
                    elif any(d.endswith('.setter') for d in fd.decorators):
                        props['setter'] = fd
                if props:
                    return c, 'property', props
                fd = fds[-1]
                if 'classmethod' in fd.decorators:
                    return c, 'classmethod', fd
                if 'staticmethod' in fd.decorators:
                    return c, 'staticmethod', fd
                return c, 'method', fd
            if attr in c.attrs:
                return c, 'classattr', c.attrs[attr]
        return None, None, None

    def __repr__(self):
        return '<ClassInfo %s>' % self.fq


class Module:
    def __init__(self, name, path, src=None, unstable=frozenset(), methods=frozenset(), supplied=None):
        self.name, self.path = name, path
        if src is None:
            with open(path, encoding='utf-8') as fh:
                src = fh.read()
        self.src = src
        self.digest = hashlib.sha256(self.src.encode()).hexdigest()[:16]
        try:
            self.tree = ast.parse(self.src, filename=path)
        except SyntaxError as e:
            raise AnalysisError('module %s does not parse: %s' % (path, e))
        strip_annotations(self.tree)
        self.specialised = specialise_new_parameters(self.tree, name, supplied)
        self.renamed = canonicalise_private_names(self.tree, name)
        canonicalise_conditions(self.tree)
        desugar_map_filter(self.tree)
        desugar_fstrings(self.tree)
        self.factory_aliases = inline_factory_aliases(self.tree)
        self.method_aliases = inline_bound_method_aliases(self.tree, methods)
        canonicalise_call_style(self.tree)
        inline_adjacent_conditions(self.tree)
        self.temporaries_inlined = inline_single_use_temporaries(self.tree)
        self.query_temporaries = inline_query_temporaries(self.tree)
        normalise_idioms(self.tree)
        self.method_aliases += inline_bound_method_aliases(self.tree, methods)
        inline_expression_closures(self.tree)
        inline_straightline_closures(self.tree)
        self.inlined = inline_expression_helpers(self.tree)
        self.propagated = propagate_simple_constants(self.tree)
        self.local_constants = propagate_local_constants(self.tree)
        self.aliases_inlined = inline_pure_aliases(self.tree, unstable)
        self.tail_inlined = inline_tail_helpers(self.tree)
        self.procedures_inlined = inline_procedure_helpers(self.tree)
        fold_constant_conditions(self.tree)
        for parent in ast.walk(self.tree):
            for ch in ast.iter_child_nodes(parent):
                ch._parent = parent
        self.functions = {}     # top-level name -> FuncDef
        self.classes = {}       # name -> ClassInfo
        self.assigns = {}       # name -> [value expr] in order
        self.imports = {}       # local name -> ('module', modname) | ('from', modname, orig)
        self.star_imports = []  # module names
        self.all_names = None
        self.post_attr_assigns = []     # module-level `X.attr = expr`
        for st in self.tree.body:
            if isinstance(st, ast.FunctionDef):
                self.functions[st.name] = FuncDef(self, st.name, st)
            elif isinstance(st, ast.ClassDef):
                self.classes[st.name] = ClassInfo(self, st)
            elif isinstance(st, ast.Assign):
                for t in st.targets:
                    if isinstance(t, ast.Name):
                        self.assigns.setdefault(t.id, []).append(st.value)
                        if t.id == '__all__':
                            try:
                                self.all_names = list(ast.literal_eval(st.value))
                            except Exception:
                                self.all_names = None
                    elif isinstance(t, ast.Attribute):
                        self.post_attr_assigns.append((t, st.value))
            elif isinstance(st, ast.Import):
                for a in st.names:
                    self.imports[a.asname or a.name.split('.')[0]] = ('module', a.name)
            elif isinstance(st, ast.ImportFrom):
                for a in st.names:
                    if a.name == '*':
                        self.star_imports.append(st.module)
                    else:
                        self.imports[a.asname or a.name] = ('from', st.module, a.name)

    def line(self, node):
        return getattr(node, 'lineno', 0)


def _c3(cls, seen=()):
    if cls in seen:
        raise AnalysisError('inheritance cycle at %s' % cls.qual)
    seqs = []
    for b in cls.bases:
        if isinstance(b, ClassInfo):
            seqs.append(list(_c3(b, seen + (cls,))))
        else:
            seqs.append([b])
    seqs.append(list(cls.bases))
    res = [cls]
    while True:
        seqs = [s for s in seqs if s]
        if not seqs:
            return res
        for s in seqs:
            cand = s[0]
            if not any(cand in t[1:] for t in seqs):
                break
        else:
            raise AnalysisError('inconsistent MRO for %s' % cls.qual)
        res.append(cand)
        for s in seqs:
            if s and s[0] == cand:
                del s[0]


class Repo:
    def __init__(self, root=None, overrides=None):
        self.root = root or REPO_ROOT
        self.pkgdir = os.path.join(self.root, PKG)
        self.modules = {}
        self.overrides = overrides or {}
        sources = []
        source_names = []
        for fn in sorted(os.listdir(self.pkgdir)):
            if fn.endswith('.py'):
                source_names.append(fn[:-3])
                if fn[:-3] in self.overrides and self.overrides[fn[:-3]] is not None:
                    sources.append(self.overrides[fn[:-3]])
                else:
                    with open(os.path.join(self.pkgdir, fn), encoding='utf-8') as fh:
                        sources.append(fh.read())
        unstable = computed_attribute_names(sources)
        methods = plain_method_names(sources)
        supplied = supplied_arguments(sources, source_names)
        for m in MODULE_NAMES:
            p = os.path.join(self.pkgdir, m + '.py')
            if not os.path.exists(p):
                raise AnalysisError('anchor module missing: %s' % p)
            self.modules[m] = Module(m, p, self.overrides.get(m), unstable, methods, supplied)
        # any further module in the package is loaded too (a refactor may add one)
        for fn in sorted(os.listdir(self.pkgdir)):
            if fn.endswith('.py') and fn[:-3] not in self.modules:
                self.modules[fn[:-3]] = Module(fn[:-3], os.path.join(self.pkgdir, fn), None, unstable, methods, supplied)
        # literals moved to module level and imported elsewhere: second propagation pass over the importers
        for m in self.modules.values():
            extra = {}
            for local, imp in m.imports.items():
                if imp[0] == 'from':
                    mn = self.modname(imp[1])
                    if mn and imp[2] in self.modules[mn].propagated:
                        extra[local] = self.modules[mn].propagated[imp[2]]
            for sm in m.star_imports:
                mn = self.modname(sm)
                if mn:
                    m2 = self.modules[mn]
                    for nm, c in m2.propagated.items():
                        if (m2.all_names is None and not nm.startswith('_')) or (m2.all_names is not None and nm in m2.all_names):
                            extra.setdefault(nm, c)
            if extra:
                done = propagate_simple_constants(m.tree, extra)
                if done:
                    for parent in ast.walk(m.tree):
                        for ch in ast.iter_child_nodes(parent):
                            ch._parent = parent
        self._fold_cache = {}
        self._folding = set()
        self._resolve_classes()

    # ---------------------------------------------------------------- symbols
    def modname(self, dotted):
        """'TexSoup.utils' -> 'utils' ; 'TexSoup' -> '__init__'; else None"""
        if dotted == PKG:
            return '__init__'
        if dotted and dotted.startswith(PKG + '.'):
            m = dotted[len(PKG) + 1:]
            return m if m in self.modules else None
        return None

    def resolve(self, module, name, _seen=None):
        """Resolve a global name used in `module` to a definition:
        ('func', FuncDef) | ('class', ClassInfo) | ('const', Module, name) |
        ('extmod', dotted) | ('ext', dotted, name) | ('module', Module) | None"""
        _seen = _seen or set()
        key = (module.name, name)
        if key in _seen:
            return None
        _seen.add(key)
        if name in module.functions:
            return ('func', module.functions[name])
        if name in module.classes:
            return ('class', module.classes[name])
        if name in module.assigns:
            return ('const', module, name)
        if name in module.imports:
            imp = module.imports[name]
            if imp[0] == 'module':
                mn = self.modname(imp[1])
                return ('module', self.modules[mn]) if mn else ('extmod', imp[1])
            mn = self.modname(imp[1])
            if mn is None:
                return ('ext', imp[1], imp[2])
            if imp[2] in self.modules and mn == '__init__':
                return ('module', self.modules[imp[2]])
            return self.resolve(self.modules[mn], imp[2], _seen)
        for sm in module.star_imports:
            mn = self.modname(sm)
            if mn is None:
                continue
            m2 = self.modules[mn]
            exported = m2.all_names
            if exported is None:
                exported = [n for n in list(m2.functions) + list(m2.classes) + list(m2.assigns)
                            + list(m2.imports) if not n.startswith('_')]
            if name in exported:
                r = self.resolve(m2, name, _seen)
                if r:
                    return r
        return None

    def func(self, fq):
        """'reader.read_expr' | 'data.TexNode.insert' -> FuncDef (last definition) or None"""
        parts = fq.split('.')
        m = self.modules.get(parts[0])
        if not m:
            return None
        if len(parts) == 2:
            return m.functions.get(parts[1])
        if len(parts) == 3:
            c = m.classes.get(parts[1])
            if c and parts[2] in c.methods:
                return c.methods[parts[2]][-1]
        return None

    def need_func(self, fq):
        f = self.func(fq)
        if f is None:
            raise AnalysisError('anchor function vanished: %s' % fq)
        return f

    def cls(self, fq):
        parts = fq.split('.')
        m = self.modules.get(parts[0])
        return m.classes.get(parts[1]) if m else None

    def need_cls(self, fq):
        c = self.cls(fq)
        if c is None:
            raise AnalysisError('anchor class vanished: %s' % fq)
        return c

    def all_classes(self):
        for m in self.modules.values():
            for c in m.classes.values():
                yield c

    def all_funcs(self, nested=False):
        for m in self.modules.values():
            for f in m.functions.values():
                yield f
            for c in m.classes.values():
                for fds in c.methods.values():
                    for fd in fds:
                        yield fd

    def subclasses(self, base, strict=False):
        return [c for c in self.all_classes() if c.is_subclass_of(base) and (not strict or c is not base)]

    def _resolve_classes(self):
        for c in self.all_classes():
            for b in c.base_exprs:
                r = None
                if isinstance(b, ast.Name):
                    r = self.resolve(c.module, b.id)
                if r and r[0] == 'class':
                    c.bases.append(r[1])
                else:
                    c.bases.append(ast.unparse(b))
        for c in self.all_classes():
            c.mro = _c3(c)

    # ---------------------------------------------------------------- constant folding
    def fold_global(self, module, name):
        if isinstance(module, str):
            module = self.modules[module]
        key = (module.name, name)
        if key in self._fold_cache:
            v = self._fold_cache[key]
            if isinstance(v, Exception):
                raise v
            return v
        if key in self._folding:
            raise Unfoldable('cyclic initialiser %s.%s' % key)
        self._folding.add(key)
        try:
            r = self.resolve(module, name)
            if r is None:
                raise Unfoldable('unknown global %s in %s' % (name, module.name))
            if r[0] == 'const':
                m2, n2 = r[1], r[2]
                exprs = m2.assigns[n2]
                if len(exprs) != 1:
                    raise Unfoldable('%s.%s assigned %d times at module level' % (m2.name, n2, len(exprs)))
                v = Folder(self, m2).ev(exprs[0])
            elif r[0] == 'class':
                v = ClassRef(r[1])
            elif r[0] == 'func':
                v = FuncRef(r[1])
            elif r[0] == 'extmod' and r[1] == 'string':
                v = _string
            elif r[0] == 'ext' and r[1] == 'string':
                v = getattr(_string, r[2])
            elif r[0] == 'extmod' and r[1] == 'itertools':
                v = _ItertoolsNS
            elif r[0] == 'ext' and (r[1], r[2]) in _SAFE_EXTERNALS:
                v = _SAFE_EXTERNALS[(r[1], r[2])]
            else:
                raise Unfoldable('cannot fold %s.%s (%r)' % (module.name, name, r[:2]))
        except Unfoldable as e:
            self._fold_cache[key] = e
            raise
        finally:
            self._folding.discard(key)
        self._fold_cache[key] = v
        return v

    def class_attr(self, cinfo, attr):
        """constant-folded class-level attribute through the MRO"""
        owner, kind, payload = cinfo.lookup(attr)
        if kind != 'classattr':
            raise Unfoldable('%s.%s is not a class-level constant (%s)' % (cinfo.qual, attr, kind))
        return Folder(self, owner.module).ev(payload)

    def digests(self):
        return {m.name: m.digest for m in self.modules.values()}


_SAFE_BUILTINS = {
    'set': set, 'frozenset': frozenset, 'tuple': tuple, 'list': list, 'dict': dict, 'chr': chr,
    'ord': ord, 'len': len, 'sorted': sorted, 'enumerate': enumerate, 'str': str, 'int': int,
    'range': range, 'zip': zip, 'min': min, 'max': max, 'reversed': reversed, 'bool': bool,
    'True': True, 'False': False, 'None': None,
    'map': lambda f, *its: [f(*xs) for xs in zip(*its)], 'sum': sum, 'any': any, 'all': all, 'abs': abs,
}
import itertools as _itertools
class _ItertoolsNS:
    pass


_SAFE_EXTERNALS = {('itertools', 'product'): lambda *a, **k: list(_itertools.product(*a, **k)),
                   ('itertools', 'chain'): lambda *a: list(_itertools.chain(*a))}
_SAFE_METHODS = {
    str: {'join', 'format', 'upper', 'lower', 'strip', 'split', 'replace', 'startswith', 'endswith'},
    set: {'union', 'intersection', 'difference', 'copy'},
    frozenset: {'union', 'intersection', 'difference', 'copy'},
    dict: {'keys', 'values', 'items', 'get', 'copy'},
    tuple: {'index', 'count'},
    list: {'index', 'count', 'copy'},
}


class Folder:
    """Whitelisted evaluator for constant initialiser expressions."""

    def __init__(self, repo, module, env=None, depth=0):
        self.repo, self.module, self.env, self.depth = repo, module, dict(env or {}), depth

    def ev(self, n):
        m = getattr(self, 'ev_' + type(n).__name__, None)
        if m is None:
            raise Unfoldable('expression kind %s not foldable (%s:%d)' % (
                type(n).__name__, self.module.name, getattr(n, 'lineno', 0)))
        return m(n)

    def ev_Constant(self, n):
        return n.value

    def ev_Name(self, n):
        if n.id in self.env:
            return self.env[n.id]
        r = self.repo.resolve(self.module, n.id)
        if r is not None:
            return self.repo.fold_global(self.module, n.id)
        if n.id in _SAFE_BUILTINS:
            return _SAFE_BUILTINS[n.id]
        raise Unfoldable('name %s not foldable in %s' % (n.id, self.module.name))

    def ev_Tuple(self, n):
        return tuple(self._elts(n.elts))

    def ev_List(self, n):
        return list(self._elts(n.elts))

    def ev_Set(self, n):
        return set(self._elts(n.elts))

    def _elts(self, elts):
        out = []
        for e in elts:
            if isinstance(e, ast.Starred):
                out.extend(self.ev(e.value))
            else:
                out.append(self.ev(e))
        return out

    def ev_Dict(self, n):
        d = {}
        for k, v in zip(n.keys, n.values):
            if k is None:
                d.update(self.ev(v))
            else:
                d[self.ev(k)] = self.ev(v)
        return d

    def ev_JoinedStr(self, n):
        raise Unfoldable('f-string')

    def ev_UnaryOp(self, n):
        v = self.ev(n.operand)
        if isinstance(n.op, ast.USub):
            return -v
        if isinstance(n.op, ast.Not):
            return not v
        raise Unfoldable('unary op')

    def ev_BinOp(self, n):
        l, r = self.ev(n.left), self.ev(n.right)
        ok = (str, int, tuple, list, set, frozenset)
        if not isinstance(l, ok) or not isinstance(r, ok):
            raise Unfoldable('binop operands')
        try:
            if isinstance(n.op, ast.Add):
                return l + r
            if isinstance(n.op, ast.Sub):
                return l - r
            if isinstance(n.op, ast.Mod):
                return l % r
            if isinstance(n.op, ast.BitOr):
                return l | r
            if isinstance(n.op, ast.BitAnd):
                return l & r
            if isinstance(n.op, ast.Mult) and isinstance(r, int) and abs(r) < 64:
                return l * r
        except TypeError as e:
            raise Unfoldable('binop: %s' % e)
        raise Unfoldable('binop %s' % type(n.op).__name__)

    def ev_Compare(self, n):
        l = self.ev(n.left)
        for op, c in zip(n.ops, n.comparators):
            r = self.ev(c)
            t = {ast.Eq: lambda: l == r, ast.NotEq: lambda: l != r, ast.In: lambda: l in r,
                 ast.NotIn: lambda: l not in r, ast.Lt: lambda: l < r, ast.Gt: lambda: l > r,
                 ast.LtE: lambda: l <= r, ast.GtE: lambda: l >= r}.get(type(op))
            if t is None:
                raise Unfoldable('compare op')
            if not t():
                return False
            l = r
        return True

    def ev_IfExp(self, n):
        return self.ev(n.body) if self.ev(n.test) else self.ev(n.orelse)

    def ev_Subscript(self, n):
        base = self.ev(n.value)
        if isinstance(n.slice, ast.Slice):
            lo = self.ev(n.slice.lower) if n.slice.lower else None
            hi = self.ev(n.slice.upper) if n.slice.upper else None
            st = self.ev(n.slice.step) if n.slice.step else None
            return base[lo:hi:st]
        try:
            return base[self.ev(n.slice)]
        except (KeyError, IndexError, TypeError) as e:
            raise Unfoldable('subscript: %r' % e)

    def ev_Attribute(self, n):
        base = self.ev(n.value)
        if isinstance(base, FEnum):
            if n.attr in base.members:
                return base.members[n.attr]
            raise Unfoldable('enum %s has no member %s' % (base.name, n.attr))
        if isinstance(base, ClassRef):
            return self.repo.class_attr(base.info, n.attr)
        if base is _ItertoolsNS:
            if ('itertools', n.attr) in _SAFE_EXTERNALS:
                return _SAFE_EXTERNALS[('itertools', n.attr)]
            raise Unfoldable('itertools.%s' % n.attr)
        if base is _string:
            if n.attr in ('printable', 'ascii_letters', 'ascii_lowercase', 'ascii_uppercase', 'digits',
                          'punctuation', 'whitespace'):
                return getattr(_string, n.attr)
            raise Unfoldable('string.%s' % n.attr)
        if isinstance(base, FEnumMember) and n.attr in ('name', 'value'):
            return base.mname if n.attr == 'name' else int(base)
        for ty, names in _SAFE_METHODS.items():
            if isinstance(base, ty) and n.attr in names:
                return getattr(base, n.attr)
        raise Unfoldable('attribute %s of %s' % (n.attr, type(base).__name__))

    def ev_Lambda(self, n):
        params = [a.arg for a in n.args.args]
        outer = self

        def fn(*args):
            return Folder(outer.repo, outer.module, dict(outer.env, **dict(zip(params, args))),
                          outer.depth + 1).ev(n.body)
        return fn

    def ev_Call(self, n):
        f = self.ev(n.func)
        args = self._elts(n.args)
        kwargs = {}
        for kw in n.keywords:
            if kw.arg is None:
                raise Unfoldable('**kwargs')
            kwargs[kw.arg] = self.ev(kw.value)
        if isinstance(f, FuncRef):
            return self.call_repo_func(f.fdef, args, kwargs)
        if f is max or f is min:
            if len(args) == 1 and isinstance(args[0], FEnum):
                return f(int(m) for m in args[0])
        allowed = set(_SAFE_BUILTINS.values()) | set(_SAFE_EXTERNALS.values())
        is_method = getattr(f, '__self__', None) is not None and not isinstance(f.__self__, type(_string))
        if (f in allowed and not isinstance(f, bool) and f is not None) or is_method or callable(f) and getattr(f, '__name__', '') == 'fn':
            try:
                return f(*args, **kwargs)
            except Unfoldable:
                raise
            except Exception as e:      # noqa
                raise Unfoldable('call %s failed: %r' % (ast.unparse(n)[:40], e))
        raise Unfoldable('call %s' % ast.unparse(n)[:60])

    def call_repo_func(self, fdef, args, kwargs):
        """Interpret a tiny repo helper: body = optional docstring + one `return <expr>`."""
        if self.depth > 6:
            raise Unfoldable('fold depth')
        body = [s for s in fdef.node.body
                if not (isinstance(s, ast.Expr) and isinstance(s.value, ast.Constant))]
        if len(body) != 1 or not isinstance(body[0], ast.Return) or body[0].value is None:
            raise Unfoldable('helper %s is not a single return' % fdef.qual)
        env = {}
        params = fdef.params()
        for p, d in fdef.defaults().items():
            env[p] = Folder(self.repo, fdef.module, depth=self.depth + 1).ev(d)
        for p, a in zip(params, args):
            env[p] = a
        env.update(kwargs)
        missing = [p for p in params if p not in env]
        if missing:
            raise Unfoldable('helper %s: unbound %s' % (fdef.qual, missing))
        return Folder(self.repo, fdef.module, env, self.depth + 1).ev(body[0].value)

    def _comp(self, gens, emit):
        def rec(i):
            if i == len(gens):
                emit()
                return
            g = gens[i]
            it = self.ev(g.iter)
            if isinstance(it, (set, frozenset)):
                it = sorted(it, key=repr)
            elif isinstance(it, dict):
                it = list(it)
            for v in it:
                self._bind(g.target, v)
                if all(self.ev(c) for c in g.ifs):
                    rec(i + 1)
        rec(0)

    def _bind(self, t, v):
        if isinstance(t, ast.Name):
            self.env[t.id] = v
        elif isinstance(t, (ast.Tuple, ast.List)):
            v = list(v)
            if len(v) != len(t.elts):
                raise Unfoldable('unpack')
            for e, x in zip(t.elts, v):
                self._bind(e, x)
        else:
            raise Unfoldable('bind target')

    def ev_SetComp(self, n):
        out = set()
        self._comp(n.generators, lambda: out.add(self.ev(n.elt)))
        return out

    def ev_ListComp(self, n):
        out = []
        self._comp(n.generators, lambda: out.append(self.ev(n.elt)))
        return out

    ev_GeneratorExp = ev_ListComp

    def ev_DictComp(self, n):
        out = {}

        def emit():
            out[self.ev(n.key)] = self.ev(n.value)
        self._comp(n.generators, emit)
        return out


# `IntEnumBase(name, pairs)` -- the functional API of enum.IntEnum, modelled
def _int_enum_base(name, pairs):
    return FEnum(name, list(pairs))


def _patch_folder_for_enum():
    orig = Folder.ev_Name

    def ev_Name(self, n):
        if n.id not in self.env:
            r = self.repo.resolve(self.module, n.id)
            if r and r[0] == 'ext' and r[1] == 'enum' and r[2] == 'IntEnum':
                return _int_enum_base
        return orig(self, n)
    Folder.ev_Name = ev_Name
    orig_call = Folder.ev_Call

    def ev_Call(self, n):
        if isinstance(n.func, ast.Name):
            try:
                f = self.ev(n.func)
            except Unfoldable:
                f = None
            if f is _int_enum_base:
                args = self._elts(n.args)
                return _int_enum_base(*args)
        return orig_call(self, n)
    Folder.ev_Call = ev_Call


_patch_folder_for_enum()


def norm(node):
    """normalised construct text (no line numbers)"""
    return ' '.join(ast.unparse(node).split())


def func_of(node):
    """enclosing FunctionDef chain names for a node with _parent links"""
    names = []
    p = getattr(node, '_parent', None)
    while p is not None:
        if isinstance(p, (ast.FunctionDef, ast.ClassDef)):
            names.append(p.name)
        p = getattr(p, '_parent', None)
    return '.'.join(reversed(names))


# --------------------------------------------------------------------------- wrapper inlining

def _pure_simple(e):
    if isinstance(e, (ast.Name, ast.Constant)):
        return True
    if isinstance(e, ast.Attribute):
        return _pure_simple(e.value)
    return False


_NEG_OPS = {ast.NotEq: ast.Eq, ast.NotIn: ast.In, ast.IsNot: ast.Is}


def _negated(e):
    """the positive form P when e is syntactically `not P` / `a != b` / `a not in b` / `a is not b`, else None"""
    if isinstance(e, ast.UnaryOp) and isinstance(e.op, ast.Not):
        return e.operand
    if isinstance(e, ast.Compare) and len(e.ops) == 1 and type(e.ops[0]) in _NEG_OPS:
        return ast.copy_location(ast.Compare(e.left, [_NEG_OPS[type(e.ops[0])]()], e.comparators), e)
    return None


def canonicalise_conditions(tree):
    """Inverting a two-armed conditional or applying De Morgan does not change behaviour; the rules should not notice:
      * `if <negative>: A else: B` (A, B non-empty)  ->  `if <positive>: B else: A`   (also conditional expressions);
      * `N1 or N2 ...` with every operand syntactically negative  ->  `not (P1 and P2 ...)`, and dually for `and`
        (short-circuit order is kept: the operands stay in place).
    A one-armed `if not x:` is left alone."""
    class C(ast.NodeTransformer):
        def visit_BoolOp(self, n):
            self.generic_visit(n)
            pos = [_negated(v) for v in n.values]
            if all(p is not None for p in pos) and len(pos) >= 2:
                inner = ast.BoolOp(ast.And() if isinstance(n.op, ast.Or) else ast.Or(), pos)
                return ast.copy_location(ast.UnaryOp(ast.Not(), ast.copy_location(inner, n)), n)
            return n

        def visit_UnaryOp(self, n):
            self.generic_visit(n)
            # not not P  /  not (a != b)
            if isinstance(n.op, ast.Not):
                p = _negated(n.operand)
                if p is not None and isinstance(n.operand, ast.UnaryOp):
                    return p
            return n

        def visit_If(self, n):
            self.generic_visit(n)
            p = _negated(n.test)
            if p is not None and n.orelse and n.body and not (len(n.orelse) == 1 and isinstance(n.orelse[0], ast.If)):
                n.test, n.body, n.orelse = p, n.orelse, n.body
            return n

        def visit_IfExp(self, n):
            self.generic_visit(n)
            p = _negated(n.test)
            if p is not None:
                n.test, n.body, n.orelse = p, n.orelse, n.body
            return n
    C().visit(tree)
    ast.fix_missing_locations(tree)


def desugar_map_filter(tree):
    """map / filter with a simple function are generator expressions:  map(f, it) -> (f(_e) for _e in it),
    map(operator.attrgetter('a'), it) -> (_e.a for _e in it), map(lambda x: E, it) -> (E for x in it),
    filter(lambda x: C, it) -> (x for x in it if C), filter(None, it) -> (_e for _e in it if _e).  (Both are lazy and
    evaluate in the same order; only the StopIteration-inside-the-function corner differs.)"""
    import copy
    counter = [0]

    def fresh():
        counter[0] += 1
        return '_e%d' % counter[0]

    class D(ast.NodeTransformer):
        def visit_Call(self, n):
            self.generic_visit(n)
            if not (isinstance(n.func, ast.Name) and n.func.id in ('map', 'filter') and len(n.args) == 2 and not n.keywords):
                return n
            f, it = n.args
            if isinstance(it, ast.Starred):
                return n
            if n.func.id == 'map':
                if isinstance(f, ast.Lambda) and len(f.args.args) == 1 and not f.args.defaults and not f.args.vararg:
                    x = f.args.args[0].arg
                    elt, tgt = f.body, ast.Name(x, ast.Store())
                elif isinstance(f, ast.Call) and ast.unparse(f.func) in ('operator.attrgetter', 'attrgetter') and len(f.args) == 1 \
                        and isinstance(f.args[0], ast.Constant) and isinstance(f.args[0].value, str) and f.args[0].value.isidentifier():
                    x = fresh()
                    elt, tgt = ast.Attribute(ast.Name(x, ast.Load()), f.args[0].value, ast.Load()), ast.Name(x, ast.Store())
                elif isinstance(f, (ast.Name, ast.Attribute)):
                    x = fresh()
                    elt, tgt = ast.Call(f, [ast.Name(x, ast.Load())], []), ast.Name(x, ast.Store())
                else:
                    return n
                g = ast.GeneratorExp(elt, [ast.comprehension(tgt, it, [], 0)])
            else:
                if isinstance(f, ast.Lambda) and len(f.args.args) == 1 and not f.args.defaults and not f.args.vararg:
                    x = f.args.args[0].arg
                    g = ast.GeneratorExp(ast.Name(x, ast.Load()), [ast.comprehension(ast.Name(x, ast.Store()), it, [f.body], 0)])
                elif isinstance(f, ast.Constant) and f.value is None:
                    x = fresh()
                    g = ast.GeneratorExp(ast.Name(x, ast.Load()), [ast.comprehension(ast.Name(x, ast.Store()), it, [ast.Name(x, ast.Load())], 0)])
                elif isinstance(f, (ast.Name, ast.Attribute)):
                    x = fresh()
                    g = ast.GeneratorExp(ast.Name(x, ast.Load()), [ast.comprehension(
                        ast.Name(x, ast.Store()), it, [ast.Call(f, [ast.Name(x, ast.Load())], [])], 0)])
                else:
                    return n
            return ast.copy_location(g, n)
    D().visit(tree)
    ast.fix_missing_locations(tree)


def canonicalise_private_names(tree, modname):
    """Private names are free to change; the rules know them by the names they have today.  The private attributes and
    methods the rules refer to are therefore *found by their role* in the code and renamed to today's names before
    anything else looks at the module (a no-op on the pinned tree).  Roles:
      data:  TexExpr.__init__ stores its `contents` parameter in <_contents>; TexText its `text` in <_text>; TexEnv its
             `begin`/`end` in <_begin>/<_end>; TexNode.descendants returns self.<__descendants>(); the TexArgs method
             that calls TexGroup.parse is <__coerce>; the zero-argument TexExpr method that just returns True is
             <_supports_contents>; the private method called first by TexExpr.append/insert/remove is
             <_assert_supports_contents>;
      utils: Buffer.position returns self.<__i>; Buffer.__init__ binds [] to <__queue>, iter(<iterator>) to <__iterator>
             and its parameters join/init/empty to <__join>/<__init>/<__empty>; Token.__iter__ returns
             iter(self.<__iter>()).
    Returns {found name: canonical name} for the names that were changed."""
    classes = {c.name: c for c in tree.body if isinstance(c, ast.ClassDef)}

    def method(cname, mname, deco=None):
        c = classes.get(cname)
        if c is None:
            return None
        for st in c.body:
            if isinstance(st, ast.FunctionDef) and st.name == mname:
                decos = [ast.unparse(d) for d in st.decorator_list]
                if deco is None and not any(d.endswith('.setter') for d in decos):
                    return st
                if deco is not None and deco in decos:
                    return st
        return None

    def self_attr_assigned_from(fn, pred):
        if fn is None:
            return None
        for n in ast.walk(fn):
            if isinstance(n, ast.Assign) and len(n.targets) == 1 and isinstance(n.targets[0], ast.Attribute) \
                    and isinstance(n.targets[0].value, ast.Name) and n.targets[0].value.id == 'self' and pred(n.value):
                return n.targets[0].attr
        return None

    def mentions(param):
        return lambda v: any(isinstance(x, ast.Name) and x.id == param for x in ast.walk(v))

    def is_name(param):
        return lambda v: isinstance(v, ast.Name) and v.id == param
    found = {}
    if modname == 'data':
        found['_contents'] = self_attr_assigned_from(method('TexExpr', '__init__'), mentions('contents'))
        found['_text'] = self_attr_assigned_from(method('TexText', '__init__'), is_name('text'))
        found['_begin'] = self_attr_assigned_from(method('TexEnv', '__init__'), is_name('begin'))
        found['_end'] = self_attr_assigned_from(method('TexEnv', '__init__'), is_name('end'))
        d = method('TexNode', 'descendants', 'property')
        if d is not None:
            for n in ast.walk(d):
                if isinstance(n, ast.Return) and isinstance(n.value, ast.Call) and isinstance(n.value.func, ast.Attribute) \
                        and isinstance(n.value.func.value, ast.Name) and n.value.func.value.id == 'self' and not n.value.args:
                    found['__descendants'] = n.value.func.attr
        c = classes.get('TexArgs')
        if c is not None:
            for st in c.body:
                if isinstance(st, ast.FunctionDef) and st.name.startswith('_') and not st.name.endswith('__') and any(
                        isinstance(x, ast.Attribute) and x.attr == 'parse' and isinstance(x.value, ast.Name) and x.value.id == 'TexGroup'
                        for x in ast.walk(st)):
                    found['__coerce'] = st.name
        c = classes.get('TexExpr')
        if c is not None:
            for st in c.body:
                if isinstance(st, ast.FunctionDef) and st.name.startswith('_') and not st.name.endswith('__') and len(st.args.args) == 1:
                    body = [b for b in st.body if not (isinstance(b, ast.Expr) and isinstance(b.value, ast.Constant))]
                    if len(body) == 1 and isinstance(body[0], ast.Return) and isinstance(body[0].value, ast.Constant) \
                            and body[0].value.value is True:
                        found['_supports_contents'] = st.name
            firsts = set()
            for mname in ('append', 'insert', 'remove'):
                m = method('TexExpr', mname)
                if m is None:
                    continue
                body = [b for b in m.body if not (isinstance(b, ast.Expr) and isinstance(b.value, ast.Constant))]
                if body and isinstance(body[0], ast.Expr) and isinstance(body[0].value, ast.Call) and isinstance(body[0].value.func, ast.Attribute) \
                        and isinstance(body[0].value.func.value, ast.Name) and body[0].value.func.value.id == 'self' \
                        and body[0].value.func.attr.startswith('_') and not body[0].value.args:
                    firsts.add(body[0].value.func.attr)
            if len(firsts) == 1:
                found['_assert_supports_contents'] = firsts.pop()
    elif modname == 'utils':
        p_ = method('Buffer', 'position', 'property')
        if p_ is not None:
            for n in ast.walk(p_):
                if isinstance(n, ast.Return) and isinstance(n.value, ast.Attribute) and isinstance(n.value.value, ast.Name) \
                        and n.value.value.id == 'self':
                    found['__i'] = n.value.attr
        init = method('Buffer', '__init__')
        found['__queue'] = self_attr_assigned_from(init, lambda v: isinstance(v, ast.List) and not v.elts)
        found['__iterator'] = self_attr_assigned_from(init, lambda v: isinstance(v, ast.Call) and ast.unparse(v.func) == 'iter')
        for prm, canon in (('join', '__join'), ('init', '__init'), ('empty', '__empty')):
            found[canon] = self_attr_assigned_from(init, is_name(prm))
        it = method('Token', '__iter__')
        if it is not None:
            for n in ast.walk(it):
                if isinstance(n, ast.Call) and isinstance(n.func, ast.Attribute) and isinstance(n.func.value, ast.Name) \
                        and n.func.value.id == 'self' and n.func.attr.startswith('_') and not n.func.attr.endswith('__'):
                    found['__iter'] = n.func.attr
    ren = {actual: canon for canon, actual in found.items() if actual is not None and actual != canon}
    if not ren:
        return {}
    # the canonical names must be free, and the mapping one-to-one
    used = {n.attr for n in ast.walk(tree) if isinstance(n, ast.Attribute)} | {n.name for n in ast.walk(tree) if isinstance(n, ast.FunctionDef)}
    if len(set(ren.values())) != len(ren) or any(c in used for c in ren.values()):
        return {}
    for n in ast.walk(tree):
        if isinstance(n, ast.Attribute) and n.attr in ren:
            n.attr = ren[n.attr]
        elif isinstance(n, ast.FunctionDef) and n.name in ren:
            n.name = ren[n.name]
    return ren


def normalise_idioms(tree):
    """Equivalent spellings brought to the one the pinned tree uses:
      * isinstance(x, A) or isinstance(x, B)            ->  isinstance(x, (A, B))
      * [*xs]                                           ->  list(xs)
      * len(x) > 0 / len(x) != 0 / len(x) >= 1 as a condition ->  x ;   len(x) == 0 / len(x) < 1  ->  not x
      * while True: if <c>: break; <rest>               ->  while not <c>: <rest>      (no else clause)
      * while/for ... else: without a break in the body ->  the loop followed by the else statements
      * x.m(name=a, attrs=b) for a method m whose definitions in the module agree on the parameter order
                                                        ->  x.m(a, b)   (keywords that continue the positional prefix)"""
    # method signatures by name (all definitions in the module must agree)
    sigs = {}
    for c in ast.walk(tree):
        if isinstance(c, ast.ClassDef):
            for st in c.body:
                if isinstance(st, ast.FunctionDef):
                    decos = [ast.unparse(d) for d in st.decorator_list]
                    if any(d in ('property',) or d.endswith('.setter') for d in decos):
                        sigs[st.name] = None
                        continue
                    a = st.args
                    ps = [x.arg for x in a.args]
                    if 'staticmethod' not in decos:
                        ps = ps[1:]
                    sig = (tuple(ps), a.vararg is not None, a.kwarg.arg if a.kwarg else None)
                    if st.name in sigs and sigs[st.name] != sig:
                        sigs[st.name] = None
                    else:
                        sigs.setdefault(st.name, sig)

    def cond(e):
        """normalise e used as a condition"""
        if isinstance(e, ast.Compare) and len(e.ops) == 1 and isinstance(e.left, ast.Call) and isinstance(e.left.func, ast.Name) \
                and e.left.func.id == 'len' and len(e.left.args) == 1 and isinstance(e.comparators[0], ast.Constant) \
                and isinstance(e.comparators[0].value, int):
            k, op, x = e.comparators[0].value, type(e.ops[0]), e.left.args[0]
            if (op in (ast.Gt, ast.NotEq) and k == 0) or (op is ast.GtE and k == 1):
                return x
            if (op is ast.Eq and k == 0) or (op is ast.Lt and k == 1):
                return ast.copy_location(ast.UnaryOp(ast.Not(), x), e)
        if isinstance(e, ast.UnaryOp) and isinstance(e.op, ast.Not):
            e.operand = cond(e.operand)
        elif isinstance(e, ast.BoolOp):
            e.values = [cond(v) for v in e.values]
        return e

    def has_break(stmts):
        for s_ in stmts:
            for n in ast.walk(s_):
                if isinstance(n, ast.Break):
                    # a break of a nested loop does not count -- approximate: any nested loop makes us give up
                    return True
        return False

    class N(ast.NodeTransformer):
        def visit_Assert(self, n):
            self.generic_visit(n)
            n.test = cond(n.test)
            return n

        def visit_BoolOp(self, n):
            self.generic_visit(n)
            n.values = [cond(v) for v in n.values]
            if isinstance(n.op, ast.Or):
                # x == a or x == b   ->   x in (a, b)      (constants on the right, the same pure subject)
                out = []
                for v in n.values:
                    if isinstance(v, ast.Compare) and len(v.ops) == 1 and isinstance(v.ops[0], ast.Eq) \
                            and isinstance(v.comparators[0], ast.Constant) and _pure_expr(v.left):
                        prev = out[-1] if out else None
                        if isinstance(prev, ast.Compare) and len(prev.ops) == 1 and ast.dump(prev.left) == ast.dump(v.left):
                            if isinstance(prev.ops[0], ast.Eq) and isinstance(prev.comparators[0], ast.Constant):
                                out[-1] = ast.copy_location(ast.Compare(prev.left, [ast.In()], [ast.Tuple(
                                    [prev.comparators[0], v.comparators[0]], ast.Load())]), prev)
                                out[-1]._from_eq_chain = True
                                continue
                            if isinstance(prev.ops[0], ast.In) and isinstance(prev.comparators[0], ast.Tuple) \
                                    and getattr(prev, '_from_eq_chain', False):
                                prev.comparators[0].elts.append(v.comparators[0])
                                continue
                    out.append(v)
                    if isinstance(out[-1], ast.Compare) and isinstance(out[-1].ops[0], ast.In):
                        pass
                for o in out:
                    if isinstance(o, ast.Compare) and isinstance(o.ops[0], ast.In) and isinstance(o.comparators[0], ast.Tuple):
                        o._from_eq_chain = True
                if len(out) == 1:
                    return out[0]
                n.values = out
            if isinstance(n.op, ast.Or):
                out = []
                for v in n.values:
                    if out and isinstance(v, ast.Call) and isinstance(v.func, ast.Name) and v.func.id == 'isinstance' and len(v.args) == 2 \
                            and isinstance(out[-1], ast.Call) and isinstance(out[-1].func, ast.Name) and out[-1].func.id == 'isinstance' \
                            and len(out[-1].args) == 2 and ast.dump(out[-1].args[0]) == ast.dump(v.args[0]):
                        prev = out[-1]
                        a = list(prev.args[1].elts) if isinstance(prev.args[1], ast.Tuple) else [prev.args[1]]
                        b = list(v.args[1].elts) if isinstance(v.args[1], ast.Tuple) else [v.args[1]]
                        prev.args[1] = ast.Tuple(a + b, ast.Load())
                    else:
                        out.append(v)
                if len(out) == 1:
                    return out[0]
                n.values = out
            return n

        def visit_Assign(self, n):
            self.generic_visit(n)
            # a, b = x, y   ->   a = x ; b = y     (no target occurs in a right-hand side: not a swap)
            if len(n.targets) == 1 and isinstance(n.targets[0], ast.Tuple) and isinstance(n.value, ast.Tuple) \
                    and len(n.targets[0].elts) == len(n.value.elts) and all(isinstance(t, ast.Name) for t in n.targets[0].elts):
                tn = {t.id for t in n.targets[0].elts}
                if not any(isinstance(x, ast.Name) and x.id in tn for v in n.value.elts for x in ast.walk(v)) \
                        and not any(isinstance(v, ast.Starred) for v in n.value.elts):
                    return [ast.copy_location(ast.Assign([t], v), n) for t, v in zip(n.targets[0].elts, n.value.elts)]
            return n

        def visit_List(self, n):
            self.generic_visit(n)
            if isinstance(n.ctx, ast.Load) and len(n.elts) == 1 and isinstance(n.elts[0], ast.Starred):
                return ast.copy_location(ast.Call(ast.Name('list', ast.Load()), [n.elts[0].value], []), n)
            return n

        def visit_If(self, n):
            self.generic_visit(n)
            n.test = cond(n.test)
            return n

        def visit_IfExp(self, n):
            self.generic_visit(n)
            n.test = cond(n.test)
            return n

        def visit_While(self, n):
            self.generic_visit(n)
            n.test = cond(n.test)
            if not n.orelse and n.body:
                # peel leading exit guards:  `if c: break`   and   `b = <expr>` + `if b: break` / `if not b: break`
                # (`while t: if c: break; ...`  ==  `while t and not c: ...`)
                always = isinstance(n.test, ast.Constant) and n.test.value is True
                conds, body = ([] if always else [n.test]), list(n.body)
                n_own = len(conds)
                while body:
                    g = body[0]
                    if isinstance(g, ast.If) and not g.orelse and len(g.body) == 1 and isinstance(g.body[0], ast.Break):
                        c = g.test
                        body = body[1:]
                    elif len(body) >= 2 and isinstance(g, ast.Assign) and len(g.targets) == 1 and isinstance(g.targets[0], ast.Name) \
                            and isinstance(body[1], ast.If) and not body[1].orelse and len(body[1].body) == 1 \
                            and isinstance(body[1].body[0], ast.Break):
                        nm = g.targets[0].id
                        t = body[1].test
                        uses = sum(1 for s_ in n.body for x in ast.walk(s_) if isinstance(x, ast.Name) and x.id == nm)
                        if isinstance(t, ast.Name) and t.id == nm and uses == 2:
                            c = g.value
                        elif isinstance(t, ast.UnaryOp) and isinstance(t.op, ast.Not) and isinstance(t.operand, ast.Name) \
                                and t.operand.id == nm and uses == 2:
                            c = ast.copy_location(ast.UnaryOp(ast.Not(), g.value), g.value)
                        else:
                            break
                        body = body[2:]
                    else:
                        break
                    p = _negated(c)
                    conds.append(p if p is not None else ast.copy_location(ast.UnaryOp(ast.Not(), c), c))
                if len(conds) > n_own:
                    n.test = conds[0] if len(conds) == 1 else ast.copy_location(ast.BoolOp(ast.And(), conds), n)
                    n.body = body or [ast.copy_location(ast.Pass(), n)]
            if n.orelse and not has_break(n.body):
                tail, n.orelse = n.orelse, []
                return [n] + tail
            return n

        def visit_For(self, n):
            self.generic_visit(n)
            if n.orelse and not has_break(n.body):
                tail, n.orelse = n.orelse, []
                return [n] + tail
            return n

        def visit_Call(self, n):
            self.generic_visit(n)
            if isinstance(n.func, ast.Attribute) and n.keywords and sigs.get(n.func.attr) \
                    and not any(isinstance(a, ast.Starred) for a in n.args):
                ps, has_var, kwname = sigs[n.func.attr]
                if not has_var:
                    kw = {k.arg: k for k in n.keywords if k.arg is not None}
                    i = len(n.args)
                    moved = []
                    while i < len(ps) and ps[i] in kw:
                        moved.append(kw.pop(ps[i]).value)
                        i += 1
                    if moved:
                        n.args = list(n.args) + moved
                        n.keywords = [k for k in n.keywords if k.arg is None or k.arg in kw]
            return n
    N().visit(tree)
    ast.fix_missing_locations(tree)


def _pure_expr(e):
    """an expression without calls or other effects (reads of names, attributes, subscripts, arithmetic)"""
    if isinstance(e, (ast.Name, ast.Constant)):
        return True
    if isinstance(e, ast.Attribute):
        return _pure_expr(e.value)
    if isinstance(e, ast.Subscript):
        return _pure_expr(e.value) and _pure_expr(e.slice)
    if isinstance(e, ast.BinOp):
        return _pure_expr(e.left) and _pure_expr(e.right)
    if isinstance(e, ast.UnaryOp):
        return _pure_expr(e.operand)
    if isinstance(e, ast.Compare):
        return _pure_expr(e.left) and all(_pure_expr(c) for c in e.comparators)
    if isinstance(e, ast.Tuple):
        return all(_pure_expr(x) for x in e.elts)
    if isinstance(e, ast.Slice):
        return all(x is None or _pure_expr(x) for x in (e.lower, e.upper, e.step))
    return False


def _drop_unreferenced_closures(fn, names):
    """remove the definitions (nested def / `name = lambda`) of closures that are no longer referenced"""
    used = {n.id for n in ast.walk(fn) if isinstance(n, ast.Name) and isinstance(n.ctx, ast.Load)}
    dead = {nm for nm in names if nm not in used}
    if not dead:
        return

    def prune(stmts):
        out = []
        for st in stmts:
            if isinstance(st, ast.FunctionDef) and st.name in dead:
                continue
            if isinstance(st, ast.Assign) and len(st.targets) == 1 and isinstance(st.targets[0], ast.Name) \
                    and st.targets[0].id in dead and isinstance(st.value, ast.Lambda):
                continue
            for fld in ('body', 'orelse', 'finalbody'):
                sub = getattr(st, fld, None)
                if isinstance(sub, list) and sub and isinstance(sub[0], ast.stmt) and not isinstance(st, ast.FunctionDef):
                    setattr(st, fld, prune(sub) or [ast.copy_location(ast.Pass(), st)])
            out.append(st)
        return out
    fn.body = prune(fn.body) or [ast.copy_location(ast.Pass(), fn)]


def _predicate_expr(body):
    """the boolean expression computed by a body of the form  [if <t>: return <True|False>]* ; return <e>"""
    if not body or not isinstance(body[-1], ast.Return) or body[-1].value is None:
        return None
    expr = body[-1].value
    for st in reversed(body[:-1]):
        if not (isinstance(st, ast.If) and not st.orelse and len(st.body) == 1 and isinstance(st.body[0], ast.Return)
                and isinstance(st.body[0].value, ast.Constant) and isinstance(st.body[0].value.value, bool)):
            return None
        t = st.test
        if st.body[0].value.value is False:
            nt = _negated(t)
            nt = nt if nt is not None else ast.copy_location(ast.UnaryOp(ast.Not(), t), t)
            expr = ast.copy_location(ast.BoolOp(ast.And(), [nt, expr]), t)
        else:
            expr = ast.copy_location(ast.BoolOp(ast.Or(), [t, expr]), t)
    return expr


def inline_expression_closures(tree):
    """A nested function whose body is one `return <expr>` (or a lambda bound to a local name), called with pure simple
    arguments inside the function that defines it, is replaced by that expression at the call (a closure reads its
    free variables when it is called, so the substitution is exact).  The definition stays."""
    import copy
    for fn in ast.walk(tree):
        if not isinstance(fn, ast.FunctionDef):
            continue
        closures = {}
        for st in ast.walk(fn):
            if st is fn:
                continue
            if isinstance(st, ast.FunctionDef) and not st.decorator_list and not st.args.vararg and not st.args.kwarg \
                    and not st.args.kwonlyargs and not st.args.defaults:
                body = [b for b in st.body if not (isinstance(b, ast.Expr) and isinstance(b.value, ast.Constant))]
                # `if t: return False` ... `return e`   is   (not t) and ... and e ;  `if t: return True` ... is  t or ...
                pred = _predicate_expr(body)
                if pred is not None and len(body) > 1:
                    body = [ast.copy_location(ast.Return(pred), body[-1])]
                if len(body) == 1 and isinstance(body[0], ast.Return) and body[0].value is not None \
                        and not any(isinstance(x, (ast.Yield, ast.YieldFrom, ast.Lambda)) for x in ast.walk(body[0].value)) \
                        and not any(isinstance(x, ast.Name) and x.id == st.name for x in ast.walk(body[0].value)):
                    closures[st.name] = ([a.arg for a in st.args.args], body[0].value)
            elif isinstance(st, ast.Assign) and len(st.targets) == 1 and isinstance(st.targets[0], ast.Name) \
                    and isinstance(st.value, ast.Lambda) and not st.value.args.vararg and not st.value.args.kwarg \
                    and not st.value.args.defaults and not st.value.args.kwonlyargs:
                if not any(isinstance(x, (ast.Lambda,)) for x in ast.walk(st.value.body)):
                    closures[st.targets[0].id] = ([a.arg for a in st.value.args.args], st.value.body)
        # names bound more than once are not closures we can trust
        counts = {}
        for n in ast.walk(fn):
            if isinstance(n, ast.Name) and isinstance(n.ctx, ast.Store):
                counts[n.id] = counts.get(n.id, 0) + 1
            elif isinstance(n, ast.FunctionDef) and n is not fn:
                counts[n.name] = counts.get(n.name, 0) + 1
        closures = {k: v for k, v in closures.items() if counts.get(k, 0) == 1}
        if not closures:
            continue

        class I(ast.NodeTransformer):
            def visit_Call(self, n):
                self.generic_visit(n)
                if isinstance(n.func, ast.Name) and n.func.id in closures and not n.keywords \
                        and not any(isinstance(a, ast.Starred) for a in n.args):
                    params, body = closures[n.func.id]
                    if len(params) != len(n.args):
                        return n
                    uses = {p_: sum(1 for x in ast.walk(body) if isinstance(x, ast.Name) and x.id == p_) for p_ in params}
                    if not all(_pure_simple(a) or isinstance(a, ast.Constant) or (_pure_expr(a) and uses[p_] <= 1)
                               for p_, a in zip(params, n.args)):
                        return n
                    env = dict(zip(params, n.args))

                    class S(ast.NodeTransformer):
                        def visit_Name(self, m):
                            if isinstance(m.ctx, ast.Load) and m.id in env:
                                return ast.copy_location(copy.deepcopy(env[m.id]), m)
                            return m
                    return ast.copy_location(S().visit(copy.deepcopy(body)), n)
                return n

            def visit_FunctionDef(self, n):
                if n is fn:
                    self.generic_visit(n)
                    return n
                if n.name in closures:
                    return n        # the closure's own body is left as it is
                self.generic_visit(n)
                return n

            def visit_Lambda(self, n):
                return n
        I().visit(fn)
        _drop_unreferenced_closures(fn, set(closures))
    ast.fix_missing_locations(tree)


def inline_straightline_closures(tree):
    """A nested function whose body is a straight line of simple statements ending in `return <expr>` is pasted in
    front of each statement that calls it as `x = f(a)`, `yield f(a)`, `return f(a)` or `f(a)` (pure simple arguments),
    with its parameters substituted, its locals renamed apart, and the call replaced by the returned expression."""
    import copy
    uid = [0]
    for fn in ast.walk(tree):
        if not isinstance(fn, ast.FunctionDef):
            continue
        closures = {}
        for st in fn.body if True else []:
            pass
        for st in ast.walk(fn):
            if isinstance(st, ast.FunctionDef) and st is not fn and not st.decorator_list and not st.args.vararg \
                    and not st.args.kwarg and not st.args.kwonlyargs and not st.args.defaults:
                body = [b for b in st.body if not (isinstance(b, ast.Expr) and isinstance(b.value, ast.Constant))]
                if len(body) < 2 or not isinstance(body[-1], ast.Return) or body[-1].value is None:
                    continue
                if not all(isinstance(b, (ast.Assign, ast.AugAssign, ast.Expr)) for b in body[:-1]):
                    continue
                if any(isinstance(x, (ast.Yield, ast.YieldFrom, ast.Lambda, ast.FunctionDef, ast.Nonlocal, ast.Global, ast.Return))
                       for b in body[:-1] for x in ast.walk(b)):
                    continue
                if any(isinstance(x, ast.Name) and x.id == st.name for b in body for x in ast.walk(b)):
                    continue
                closures[st.name] = (st, body)
        counts = {}
        for n in ast.walk(fn):
            if isinstance(n, ast.Name) and isinstance(n.ctx, ast.Store):
                counts[n.id] = counts.get(n.id, 0) + 1
            elif isinstance(n, ast.FunctionDef) and n is not fn:
                counts[n.name] = counts.get(n.name, 0) + 1
        closures = {k: v for k, v in closures.items() if counts.get(k, 0) == 1}
        if not closures:
            continue

        def site_call(stmt):
            v = None
            if isinstance(stmt, ast.Expr):
                v = stmt.value.value if isinstance(stmt.value, ast.Yield) else stmt.value
            elif isinstance(stmt, ast.Assign) and len(stmt.targets) == 1:
                v = stmt.value
            elif isinstance(stmt, ast.Return):
                v = stmt.value
            if isinstance(v, ast.Call) and isinstance(v.func, ast.Name) and v.func.id in closures and not v.keywords \
                    and not any(isinstance(a, ast.Starred) for a in v.args):
                st, body = closures[v.func.id]
                if len(st.args.args) == len(v.args) and all(_pure_simple(a) or isinstance(a, ast.Constant) for a in v.args):
                    return v
            return None

        def expand(stmts, inside_closure=False):
            out = []
            for stmt in stmts:
                if isinstance(stmt, ast.FunctionDef) and stmt.name in closures:
                    out.append(stmt)
                    continue
                for fld in ('body', 'orelse', 'finalbody'):
                    sub = getattr(stmt, fld, None)
                    if isinstance(sub, list) and sub and isinstance(sub[0], ast.stmt):
                        setattr(stmt, fld, expand(sub))
                for h in getattr(stmt, 'handlers', []) or []:
                    h.body = expand(h.body)
                call = site_call(stmt)
                if call is None:
                    out.append(stmt)
                    continue
                st, body = closures[call.func.id]
                uid[0] += 1
                params = [a.arg for a in st.args.args]
                env = dict(zip(params, call.args))
                loc = {n.id for b in body for n in ast.walk(b) if isinstance(n, ast.Name) and isinstance(n.ctx, ast.Store)} - set(params)
                ren = {l: '_%s_%d_%s' % (st.name, uid[0], l) for l in loc}

                class S(ast.NodeTransformer):
                    def visit_Name(self, m):
                        if m.id in ren:
                            m.id = ren[m.id]
                            return m
                        if isinstance(m.ctx, ast.Load) and m.id in env:
                            return ast.copy_location(copy.deepcopy(env[m.id]), m)
                        return m
                if any(isinstance(n, ast.Name) and isinstance(n.ctx, ast.Store) and n.id in params for b in body for n in ast.walk(b)):
                    out.append(stmt)
                    continue
                new = [S().visit(copy.deepcopy(b)) for b in body]
                for b in new[:-1]:
                    ast.copy_location(b, stmt)
                    out.append(b)
                ret_expr = new[-1].value
                # put the returned expression where the call stood
                if isinstance(stmt, ast.Expr) and isinstance(stmt.value, ast.Yield):
                    stmt.value.value = ret_expr
                elif isinstance(stmt, ast.Expr):
                    stmt.value = ret_expr
                else:
                    stmt.value = ret_expr
                out.append(stmt)
            return out
        fn.body = expand(fn.body)
        _drop_unreferenced_closures(fn, set(closures))
    ast.fix_missing_locations(tree)


def inline_adjacent_conditions(tree):
    """`b = <expr>` immediately followed by an `if` / `while` / `assert` / `return` whose condition mentions b, with b
    used nowhere else in the function, is the condition written in place."""
    import copy
    for fn in ast.walk(tree):
        if not isinstance(fn, ast.FunctionDef):
            continue
        uses = {}
        for n in ast.walk(fn):
            if isinstance(n, ast.Name):
                uses[n.id] = uses.get(n.id, 0) + 1

        def fix(stmts):
            i = 0
            while i < len(stmts):
                st = stmts[i]
                for fld in ('body', 'orelse', 'finalbody'):
                    sub = getattr(st, fld, None)
                    if isinstance(sub, list) and sub and isinstance(sub[0], ast.stmt):
                        fix(sub)
                for h in getattr(st, 'handlers', []) or []:
                    fix(h.body)
                if i + 1 < len(stmts) and isinstance(st, ast.Assign) and len(st.targets) == 1 and isinstance(st.targets[0], ast.Name) \
                        and uses.get(st.targets[0].id, 0) == 2 and not isinstance(st.value, (ast.Lambda, ast.Yield, ast.YieldFrom)):
                    nm = st.targets[0].id
                    nxt = stmts[i + 1]
                    holder = None
                    if isinstance(nxt, (ast.If, ast.While, ast.Assert)):
                        holder = 'test'
                    elif isinstance(nxt, ast.Return) and nxt.value is not None:
                        holder = 'value'
                    if holder is not None:
                        e = getattr(nxt, holder)
                        hits = [x for x in ast.walk(e) if isinstance(x, ast.Name) and x.id == nm and isinstance(x.ctx, ast.Load)]
                        # the name must be the first thing evaluated in the condition (nothing before it can run or raise)
                        first = e
                        while isinstance(first, (ast.BoolOp, ast.UnaryOp)):
                            first = first.values[0] if isinstance(first, ast.BoolOp) else first.operand
                        if len(hits) == 1 and first is hits[0] and not isinstance(nxt, ast.While):
                            class S(ast.NodeTransformer):
                                def visit_Name(self, m):
                                    if m is hits[0]:
                                        return ast.copy_location(copy.deepcopy(st.value), m)
                                    return m
                            setattr(nxt, holder, S().visit(e))
                            del stmts[i]
                            continue
                i += 1
        fix(fn.body)
    ast.fix_missing_locations(tree)


def inline_factory_aliases(tree):
    """`peek_command = make_read_peek(read_command)` -- a name bound exactly once (at module level, or by a top-level
    statement of a function) to the application of a *closure factory* (a module-level function whose body only defines
    a nested function and returns it) to module-level functions is replaced by that application where it is read: each
    application yields an equivalent closure, so naming it is invisible."""
    import copy
    funcs = {st.name: st for st in tree.body if isinstance(st, ast.FunctionDef)}
    factories = set()
    for nm, st in funcs.items():
        body = [b for b in st.body if not (isinstance(b, ast.Expr) and isinstance(b.value, ast.Constant))]
        if len(body) >= 2 and all(isinstance(b, ast.FunctionDef) for b in body[:-1]) and isinstance(body[-1], ast.Return) \
                and isinstance(body[-1].value, ast.Name) and body[-1].value.id in {b.name for b in body[:-1]} \
                and not st.args.vararg and not st.args.kwarg:
            factories.add(nm)
    if not factories:
        return 0
    module_stores = {}
    for n in ast.walk(tree):
        if isinstance(n, ast.Name) and isinstance(n.ctx, (ast.Store, ast.Del)):
            module_stores[n.id] = module_stores.get(n.id, 0) + 1
        elif isinstance(n, (ast.FunctionDef, ast.ClassDef)):
            module_stores[n.name] = module_stores.get(n.name, 0) + 1
        elif isinstance(n, ast.arg):
            module_stores[n.arg] = module_stores.get(n.arg, 0) + 1
        elif isinstance(n, ast.alias):
            module_stores[(n.asname or n.name).split('.')[0]] = module_stores.get((n.asname or n.name).split('.')[0], 0) + 1

    def application(v):
        return isinstance(v, ast.Call) and isinstance(v.func, ast.Name) and v.func.id in factories and not v.keywords \
            and v.args and all(isinstance(a, ast.Name) and a.id in funcs and module_stores.get(a.id, 0) == 1 for a in v.args) \
            and module_stores.get(v.func.id, 0) == 1
    count = 0

    def substitute(scope_stmts, owner, name, value, skip):
        class Sub(ast.NodeTransformer):
            def visit_Name(self, n):
                if isinstance(n.ctx, ast.Load) and n.id == name:
                    return ast.copy_location(copy.deepcopy(value), n)
                return n
        for st in scope_stmts:
            if st is skip:
                continue
            Sub().visit(st)
    # module level: the name is bound once in the whole module
    for st in list(tree.body):
        if isinstance(st, ast.Assign) and len(st.targets) == 1 and isinstance(st.targets[0], ast.Name) and application(st.value) \
                and module_stores.get(st.targets[0].id, 0) == 1 and not st.targets[0].id.startswith('__'):
            substitute(tree.body, tree, st.targets[0].id, st.value, st)
            tree.body.remove(st)
            count += 1
    # function level
    for fn in ast.walk(tree):
        if not isinstance(fn, ast.FunctionDef):
            continue
        stores = {}
        for n in ast.walk(fn):
            if isinstance(n, ast.Name) and isinstance(n.ctx, (ast.Store, ast.Del)):
                stores[n.id] = stores.get(n.id, 0) + 1
            elif isinstance(n, ast.arg):
                stores[n.arg] = stores.get(n.arg, 0) + 1
            elif isinstance(n, (ast.Global, ast.Nonlocal)):
                for g in n.names:
                    stores[g] = stores.get(g, 0) + 2
        for st in list(fn.body):
            if isinstance(st, ast.Assign) and len(st.targets) == 1 and isinstance(st.targets[0], ast.Name) and application(st.value) \
                    and stores.get(st.targets[0].id, 0) == 1 \
                    and not any(stores.get(a.id, 0) for a in st.value.args) and not stores.get(st.value.func.id, 0):
                after = fn.body[fn.body.index(st) + 1:]
                substitute(after, fn, st.targets[0].id, st.value, st)
                fn.body.remove(st)
                count += 1
    if count:
        ast.fix_missing_locations(tree)
    return count


def _evaluated_before(expr, target):
    """the sub-expressions of `expr` that are evaluated before the node `target` is, as a list of leaf nodes
    (names, constants, attribute/subscript/call nodes in evaluation order); None when `target` sits where it is
    evaluated lazily, repeatedly or not at all (right operand of and/or, branch of a conditional expression, inside a
    lambda or the element/condition of a comprehension)"""
    before = []

    def go(e):
        """-> True when target was found (stop), False when e was evaluated completely, None when unsafe"""
        if e is target:
            return True
        if isinstance(e, (ast.Name, ast.Constant)):
            before.append(e)
            return False
        if isinstance(e, ast.BoolOp):
            r = go(e.values[0])
            if r is not False:
                return r
            return None if any(x is target for v in e.values[1:] for x in ast.walk(v)) else _rest(e.values[1:])
        if isinstance(e, ast.IfExp):
            r = go(e.test)
            if r is not False:
                return r
            return None if any(x is target for v in (e.body, e.orelse) for x in ast.walk(v)) else _rest([e.body, e.orelse])
        if isinstance(e, (ast.ListComp, ast.SetComp, ast.GeneratorExp, ast.DictComp)):
            r = go(e.generators[0].iter)
            if r is not False:
                return r
            return None if any(x is target for x in ast.walk(e)) else _rest([e])
        if isinstance(e, ast.Lambda):
            return None if any(x is target for x in ast.walk(e)) else False
        if isinstance(e, ast.Call):
            order = [e.func] + list(e.args) + [k.value for k in e.keywords]
        elif isinstance(e, ast.Attribute):
            order = [e.value]
        elif isinstance(e, ast.Subscript):
            order = [e.value, e.slice]
        elif isinstance(e, ast.BinOp):
            order = [e.left, e.right]
        elif isinstance(e, ast.UnaryOp):
            order = [e.operand]
        elif isinstance(e, ast.Compare):
            if any(x is target for c in e.comparators[1:] for x in ast.walk(c)):
                return None             # chained comparisons short-circuit
            order = [e.left] + list(e.comparators)
        elif isinstance(e, (ast.Tuple, ast.List, ast.Set)):
            order = list(e.elts)
        elif isinstance(e, ast.Starred):
            order = [e.value]
        elif isinstance(e, ast.Dict):
            order = [x for kv in zip(e.keys, e.values) for x in kv if x is not None]
        elif isinstance(e, ast.Slice):
            order = [x for x in (e.lower, e.upper, e.step) if x is not None]
        elif isinstance(e, ast.JoinedStr):
            order = list(e.values)
        elif isinstance(e, ast.FormattedValue):
            order = [e.value]
        else:
            return None if any(x is target for x in ast.walk(e)) else _rest([e])
        for sub in order:
            r = go(sub)
            if r is not False:
                return r
        before.append(e)
        return False

    def _rest(nodes):
        before.extend(nodes)
        return False

    r = go(expr)
    return before if r is True else None


def inline_single_use_temporaries(tree):
    """`t = <expr>` immediately followed by a simple statement that reads t exactly once, with t mentioned nowhere else
    in the function, is that statement with <expr> written in place of t -- provided nothing that could observe or
    disturb the evaluation of <expr> is evaluated before the read: only names, constants and attribute chains rooted
    in names the function does not bind (`itertools.chain`) may precede it (anything pure when <expr> is pure too).
    `matches = list(self.find_all(...)); return len(matches)`  ==  `return len(list(self.find_all(...)))`."""
    import copy
    changed = [0]
    for fn in ast.walk(tree):
        if not isinstance(fn, ast.FunctionDef):
            continue
        declared = {nm for n in ast.walk(fn) if isinstance(n, (ast.Global, ast.Nonlocal)) for nm in n.names}
        bound = {a.arg for a in fn.args.args + fn.args.kwonlyargs + fn.args.posonlyargs}
        if fn.args.vararg:
            bound.add(fn.args.vararg.arg)
        if fn.args.kwarg:
            bound.add(fn.args.kwarg.arg)
        for n in ast.walk(fn):
            if isinstance(n, ast.Name) and isinstance(n.ctx, (ast.Store, ast.Del)):
                bound.add(n.id)
            elif isinstance(n, (ast.FunctionDef, ast.ClassDef)) and n is not fn:
                bound.add(n.name)
            elif isinstance(n, ast.arg):
                bound.add(n.arg)

        def harmless(e, pure_value):
            if isinstance(e, (ast.Name, ast.Constant)):
                return True
            if isinstance(e, ast.Attribute):
                root = e
                while isinstance(root, ast.Attribute):
                    root = root.value
                if isinstance(root, ast.Name) and root.id not in bound:
                    return True
            return pure_value and _pure_expr(e)

        def fix(stmts):
            again = True
            while again:
                again = False
                uses = {}
                for n in ast.walk(fn):
                    if isinstance(n, ast.Name):
                        uses[n.id] = uses.get(n.id, 0) + 1
                for i in range(len(stmts) - 1):
                    st, nxt = stmts[i], stmts[i + 1]
                    if not (isinstance(st, ast.Assign) and len(st.targets) == 1 and isinstance(st.targets[0], ast.Name)):
                        continue
                    nm = st.targets[0].id
                    if uses.get(nm, 0) != 2 or nm in declared:
                        continue
                    if any(isinstance(x, (ast.Lambda, ast.Yield, ast.YieldFrom, ast.Await, ast.NamedExpr)) for x in ast.walk(st.value)):
                        continue
                    if isinstance(nxt, (ast.Return, ast.Expr)) and nxt.value is not None:
                        holder, e = 'value', nxt.value
                    elif isinstance(nxt, ast.Assign) and all(isinstance(t, (ast.Name, ast.Tuple)) for t in nxt.targets):
                        holder, e = 'value', nxt.value
                    elif isinstance(nxt, (ast.If, ast.Assert)):
                        holder, e = 'test', nxt.test
                    elif isinstance(nxt, ast.For):
                        holder, e = 'iter', nxt.iter
                    else:
                        continue
                    if isinstance(e, (ast.Yield,)) and e.value is not None:
                        inner_holder, inner = e, e.value
                    else:
                        inner_holder, inner = None, e
                    hits = [x for x in ast.walk(inner) if isinstance(x, ast.Name) and x.id == nm and isinstance(x.ctx, ast.Load)]
                    if len(hits) != 1:
                        continue
                    if any(isinstance(x, (ast.Yield, ast.YieldFrom, ast.Await)) for x in ast.walk(inner)):
                        continue
                    before = _evaluated_before(inner, hits[0])
                    if before is None:
                        continue
                    pv = _pure_expr(st.value)
                    if not all(harmless(b, pv) for b in before):
                        continue
                    hit = hits[0]

                    class S(ast.NodeTransformer):
                        def visit_Name(self, m):
                            if m is hit:
                                return ast.copy_location(copy.deepcopy(st.value), m)
                            return m
                    newinner = S().visit(inner)
                    if inner_holder is not None:
                        inner_holder.value = newinner
                    else:
                        setattr(nxt, holder, newinner)
                    del stmts[i]
                    changed[0] += 1
                    again = True
                    break
            for st in stmts:
                for fld in ('body', 'orelse', 'finalbody'):
                    sub = getattr(st, fld, None)
                    if isinstance(sub, list) and sub and isinstance(sub[0], ast.stmt) and not isinstance(st, (ast.FunctionDef, ast.ClassDef)):
                        fix(sub)
                for h in getattr(st, 'handlers', []) or []:
                    fix(h.body)
        fix(fn.body)
    ast.fix_missing_locations(tree)
    return changed[0]


def canonicalise_call_style(tree):
    """Whether an argument is passed by position or by keyword does not matter; the package passes required
    parameters by position and optional ones (those with a default) by keyword.  Calls of module-level functions of
    the same module are brought into that form: positionally passed optional parameters become keywords, required
    parameters passed by keyword become positional (when every earlier one is present).  Calls with * / ** are left
    alone."""
    funcs = {st.name: st for st in tree.body if isinstance(st, ast.FunctionDef)}
    # constructors of the module's classes (own __init__, no inheritance chase): same style
    for st in tree.body:
        if isinstance(st, ast.ClassDef):
            for m_ in st.body:
                if isinstance(m_, ast.FunctionDef) and m_.name == '__init__' and not m_.decorator_list and m_.args.args:
                    import copy as _copy
                    ctor = _copy.copy(m_)
                    ctor.args = _copy.copy(m_.args)
                    ctor.args.args = list(m_.args.args[1:])
                    ctor.decorator_list = []
                    funcs.setdefault(st.name, ctor)
    shadowed = set()
    for st in tree.body:
        if isinstance(st, ast.Assign):
            for t in st.targets:
                if isinstance(t, ast.Name):
                    shadowed.add(t.id)

    class C(ast.NodeTransformer):
        def visit_Call(self, n):
            self.generic_visit(n)
            fname = None
            if isinstance(n.func, ast.Name):
                fname = n.func.id
            elif isinstance(n.func, ast.Call) and isinstance(n.func.func, ast.Name) and n.func.func.id in funcs \
                    and len(n.func.args) == 1 and isinstance(n.func.args[0], ast.Name) and not n.func.keywords:
                # factory(f)(...): a wrapper made by a module-level factory takes f's arguments
                fname = n.func.args[0].id
            if not (fname in funcs and fname not in shadowed):
                return n
            f = funcs[fname]
            a = f.args
            if a.vararg or a.kwarg or a.posonlyargs or a.kwonlyargs or f.decorator_list:
                return n
            if any(isinstance(x, ast.Starred) for x in n.args) or any(k.arg is None for k in n.keywords):
                return n
            params = [x.arg for x in a.args]
            nreq = len(params) - len(a.defaults)
            if len(n.args) > len(params) or any(k.arg not in params for k in n.keywords):
                return n
            given = dict(zip(params, n.args))
            for k in n.keywords:
                if k.arg in given:
                    return n
                given[k.arg] = k.value
            pos, i = [], 0
            while i < nreq and params[i] in given:
                pos.append(given[params[i]])
                i += 1
            if any(p_ in given for p_ in params[i:nreq]):
                return n        # a required parameter after a missing one: leave the (erroneous) call alone
            kws = [ast.keyword(p_, given[p_]) for p_ in params[nreq:] if p_ in given]
            n.args, n.keywords = pos, kws
            return n
    C().visit(tree)
    ast.fix_missing_locations(tree)


def desugar_fstrings(tree):
    """f'..{a}..{b!r}..' is read as '..%s..%r..' % (a, b) -- the formatting style of the pinned tree (only plain
    `{expr}`, `!s` and `!r` fields; a field with a format spec keeps the f-string); str.format with positional `{}`
    fields likewise"""
    class F(ast.NodeTransformer):
        def visit_JoinedStr(self, n):
            self.generic_visit(n)
            fmt, args = '', []
            for v in n.values:
                if isinstance(v, ast.Constant) and isinstance(v.value, str):
                    fmt += v.value.replace('%', '%%')
                elif isinstance(v, ast.FormattedValue) and v.format_spec is None and v.conversion in (-1, 115, 114):
                    fmt += '%r' if v.conversion == 114 else '%s'
                    args.append(v.value)
                else:
                    return n
            if not args:
                return ast.copy_location(ast.Constant(fmt.replace('%%', '%')), n)
            right = args[0] if len(args) == 1 and not isinstance(args[0], (ast.Tuple, ast.Dict)) else ast.Tuple(args, ast.Load())
            return ast.copy_location(ast.BinOp(ast.Constant(fmt), ast.Mod(), right), n)

        def visit_Call(self, n):
            self.generic_visit(n)
            # '..{}..{}'.format(a, b)
            if isinstance(n.func, ast.Attribute) and n.func.attr == 'format' and isinstance(n.func.value, ast.Constant) \
                    and isinstance(n.func.value.value, str) and not n.keywords and n.args \
                    and not any(isinstance(a, ast.Starred) for a in n.args):
                import re as _re
                src = n.func.value.value
                fields = _re.findall(r'\{[^{}]*\}', src.replace('{{', '').replace('}}', ''))
                if fields and all(f_ == '{}' for f_ in fields) and len(fields) == len(n.args):
                    fmt = src.replace('%', '%%').replace('{{', '\x00').replace('}}', '\x01').replace('{}', '%s') \
                        .replace('\x00', '{').replace('\x01', '}')
                    right = n.args[0] if len(n.args) == 1 and not isinstance(n.args[0], (ast.Tuple, ast.Dict)) \
                        else ast.Tuple(list(n.args), ast.Load())
                    return ast.copy_location(ast.BinOp(ast.Constant(fmt), ast.Mod(), right), n)
            return n
    F().visit(tree)
    ast.fix_missing_locations(tree)


def strip_annotations(tree):
    """type annotations carry no behaviour: `x: T = v` is read as `x = v`, a bare `x: T` disappears, parameter and
    return annotations are dropped"""
    class A(ast.NodeTransformer):
        def visit_AnnAssign(self, n):
            self.generic_visit(n)
            if n.value is None:
                return ast.copy_location(ast.Pass(), n)
            return ast.copy_location(ast.Assign([n.target], n.value), n)

        def visit_FunctionDef(self, n):
            self.generic_visit(n)
            n.returns = None
            return n

        def visit_arg(self, n):
            n.annotation = None
            return n
    A().visit(tree)
    ast.fix_missing_locations(tree)


# module-level names with a literal initialiser that the rules refer to by name (they stay names)
PINNED_CONSTANT_NAMES = {'MODE_MATH', 'MODE_NON_MATH', 'MODE_SPECIAL', '__version__',
                         # today's module-level collections (rules fold them by name)
                         'others', 'CATEGORY_CODES', '__all__', 'arg_type', 'MATH_SIMPLE_ENVS', 'MATH_TOKEN_TO_ENV',
                         'ARG_BEGIN_TO_ENV', 'SIGNATURES', 'SKIP_ENV_NAMES', 'MATH_ENV_NAMES', 'SPECIAL_COMMANDS',
                         'BRACKETS_DELIMITERS', 'SIZE_PREFIX', 'PUNCTUATION_COMMANDS', 'tokenizers', 'CC', 'TC'}


def propagate_simple_constants(tree, extra=None):
    """"Move a literal to module level" is a behaviour-preserving refactoring the rules should not notice: a
    module-level name bound exactly once to a str/int/bytes literal, never rebound or declared global, is replaced by
    the literal where it is read inside the module (the definition stays).  `extra` maps imported names to literals
    (second pass over importing modules).  Returns the propagated names."""
    import copy
    consts = dict(extra or {})
    stores = {}
    for n in ast.walk(tree):
        if isinstance(n, ast.Name) and isinstance(n.ctx, (ast.Store, ast.Del)):
            stores[n.id] = stores.get(n.id, 0) + 1
        elif isinstance(n, (ast.Global, ast.Nonlocal)):
            for x in n.names:
                stores[x] = stores.get(x, 0) + 2
        elif isinstance(n, ast.arg):
            stores[n.arg] = stores.get(n.arg, 0) + 2
    if extra is None:
        for st in tree.body:
            if isinstance(st, ast.Assign) and len(st.targets) == 1 and isinstance(st.targets[0], ast.Name) \
                    and isinstance(st.value, ast.Constant) and isinstance(st.value.value, (str, int, bytes)) \
                    and not isinstance(st.value.value, bool):
                nm = st.targets[0].id
                if nm not in PINNED_CONSTANT_NAMES and not nm.startswith('__') and stores.get(nm, 0) == 1:
                    consts[nm] = st.value
            # a new tuple / frozenset of names (classes, category or token codes) used for membership / isinstance tests
            elif isinstance(st, ast.Assign) and len(st.targets) == 1 and isinstance(st.targets[0], ast.Name):
                nm, v = st.targets[0].id, st.value
                if isinstance(v, ast.Call) and isinstance(v.func, ast.Name) and v.func.id in ('frozenset', 'tuple') and len(v.args) == 1 \
                        and isinstance(v.args[0], (ast.Tuple, ast.List, ast.Set)):
                    v = ast.copy_location(ast.Tuple(list(v.args[0].elts), ast.Load()), v)
                if isinstance(v, ast.Tuple) and v.elts and nm not in PINNED_CONSTANT_NAMES and not nm.startswith('__') \
                        and stores.get(nm, 0) == 1 and all(
                            isinstance(e, ast.Name) or (isinstance(e, ast.Attribute) and isinstance(e.value, ast.Name))
                            for e in v.elts):
                    consts[nm] = v
    else:
        consts = {k: v for k, v in consts.items() if stores.get(k, 0) == 0}
    if not consts:
        return {}

    class P(ast.NodeTransformer):
        def visit_Name(self, n):
            if isinstance(n.ctx, ast.Load) and n.id in consts:
                return ast.copy_location(copy.deepcopy(consts[n.id]), n)
            return n
    P().visit(tree)
    return consts


# the functions the rules are anchored in by name: they are never dissolved into their callers
PINNED_FUNCTION_NAMES = {
    'IntEnum', 'TexSoup', 'categorize', 'make_read_peek', 'next_token', 'read', 'read_arg', 'read_arg_optional',
    'read_arg_required', 'read_args', 'read_command', 'read_env', 'read_expr', 'read_item', 'read_math_env',
    'read_skip_env', 'read_spacer', 'read_tex', 'to_buffer', 'to_list', 'token', 'tokenize', 'tokenize_command_name',
    'tokenize_escaped_symbols', 'tokenize_ignore', 'tokenize_line_break', 'tokenize_line_comment',
    'tokenize_math_asym_switch', 'tokenize_math_sym_switch', 'tokenize_punctuation_command_name', 'tokenize_spacers',
    'tokenize_string', 'tokenize_symbols', 'unclosed_env_handler'}


def inline_tail_helpers(tree):
    """"Extract a branch into its own function" is invisible to the analyses: a module-level, undecorated,
    non-generator, non-recursive function F with exactly one reference in the module, which is a tail call
    `return F(<names>)` inside another module-level function G, is pasted over that return statement (parameters
    renamed to the argument names; omitted parameters bound to their defaults).  In tail position F's returns are
    G's returns and G's own locals are dead, so the substitution preserves behaviour.  F, now unreferenced, is dropped from the analysed module.
    Returns the list of (G, F) pairs."""
    import copy
    funcs = {st.name: st for st in tree.body if isinstance(st, ast.FunctionDef)}
    done = []
    for fname, F in list(funcs.items()):
        if F.decorator_list or F.args.vararg or F.args.kwarg or F.args.posonlyargs or fname in PINNED_FUNCTION_NAMES:
            continue
        if any(isinstance(n, (ast.Yield, ast.YieldFrom, ast.Global, ast.Nonlocal)) for n in ast.walk(F)):
            continue
        if any(isinstance(n, (ast.FunctionDef, ast.Lambda)) and n is not F for n in ast.walk(F)):
            continue
        refs = [n for n in ast.walk(tree) if isinstance(n, ast.Name) and n.id == fname and isinstance(n.ctx, ast.Load)]
        if len(refs) != 1:
            continue
        # __all__ / strings naming the function are public API: still fine, F stays defined
        site = None
        for G in funcs.values():
            if G is F:
                continue
            for n in ast.walk(G):
                if isinstance(n, ast.Return) and isinstance(n.value, ast.Call) and n.value.func is refs[0]:
                    site = (G, n)
        if site is None:
            continue
        G, ret = site
        call = ret.value
        if any(isinstance(a, ast.Starred) or not isinstance(a, ast.Name) for a in call.args):
            continue
        if any(k.arg is None or not isinstance(k.value, (ast.Name, ast.Constant)) for k in call.keywords):
            continue
        params = [a.arg for a in F.args.args + F.args.kwonlyargs]
        if len(call.args) > len(F.args.args):
            continue
        binding = {}
        for p_, a in zip([a.arg for a in F.args.args], call.args):
            binding[p_] = a
        bad = False
        for k in call.keywords:
            if k.arg not in params or k.arg in binding:
                bad = True
            binding[k.arg] = k.value
        defaults = {}
        pos = F.args.args
        for p_, d in zip(pos[len(pos) - len(F.args.defaults):], F.args.defaults):
            defaults[p_.arg] = d
        for p_, d in zip(F.args.kwonlyargs, F.args.kw_defaults):
            if d is not None:
                defaults[p_.arg] = d
        pre = []
        for p_ in params:
            if p_ not in binding:
                if p_ in defaults and isinstance(defaults[p_], (ast.Constant, ast.Name)):
                    pre.append(ast.Assign([ast.Name(p_, ast.Store())], copy.deepcopy(defaults[p_])))
                else:
                    bad = True
        if bad:
            continue
        fnames = {n.id for n in ast.walk(F) if isinstance(n, ast.Name)} | set(params)
        ren = {}
        for p_, a in binding.items():
            if isinstance(a, ast.Constant):
                pre.append(ast.Assign([ast.Name(p_, ast.Store())], copy.deepcopy(a)))
            elif a.id != p_:
                if a.id in fnames:
                    bad = True
                ren[p_] = a.id
        # two parameters bound to the same caller variable would alias after renaming
        if bad or len(set(ren.values()) | {p_ for p_ in binding if p_ not in ren}) < len([p_ for p_, a in binding.items() if isinstance(a, ast.Name)]):
            continue
        body = [copy.deepcopy(st) for st in F.body
                if not (isinstance(st, ast.Expr) and isinstance(st.value, ast.Constant) and isinstance(st.value.value, str))]

        class Ren(ast.NodeTransformer):
            def visit_Name(self, n):
                if n.id in ren:
                    n.id = ren[n.id]
                return n
        body = [Ren().visit(st) for st in body]
        new = pre + body
        if not new or not isinstance(new[-1], (ast.Return, ast.Raise)):
            new.append(ast.Return(ast.Constant(None)))
        for st in new:
            for x in ast.walk(st):
                if not hasattr(x, 'lineno'):
                    x.lineno, x.col_offset, x.end_lineno, x.end_col_offset = ret.lineno, 0, ret.lineno, 0

        # paste over the return statement
        def paste(stmts):
            for i, st in enumerate(stmts):
                if st is ret:
                    stmts[i:i + 1] = new
                    return True
                for fld in ('body', 'orelse', 'finalbody'):
                    sub = getattr(st, fld, None)
                    if isinstance(sub, list) and paste(sub):
                        return True
                for h in getattr(st, 'handlers', []) or []:
                    if paste(h.body):
                        return True
            return False
        if paste(G.body):
            done.append((G.name, fname))
            # the only reference is gone: the stand-alone copy would be analysed without any calling context
            tree.body.remove(F)
    return done


def computed_attribute_names(sources):
    """names that some class of the package defines as a property or method: reading such an attribute computes a
    value, so two reads need not agree (Buffer.position, TexNode.contents, ...)"""
    names = set()
    for src in sources:
        try:
            t = ast.parse(src)
        except SyntaxError:
            continue
        for c in ast.walk(t):
            if isinstance(c, ast.ClassDef):
                for st in c.body:
                    if isinstance(st, ast.FunctionDef):
                        names.add(st.name)
    return frozenset(names)


_PINNED_API = None


def pinned_api():
    """parameter lists of the package's functions at the pinned commit (sa/pinned_api.json, tools/gen_pinned_api.py)"""
    global _PINNED_API
    if _PINNED_API is None:
        import json
        fn = os.path.join(os.path.dirname(os.path.abspath(__file__)), 'pinned_api.json')
        try:
            with open(fn) as fh:
                _PINNED_API = json.load(fh)
        except OSError:
            _PINNED_API = {}
    return _PINNED_API


def _fold_test(e):
    """simplify a condition with constant parts; returns an ast node (possibly a Constant)"""
    if isinstance(e, ast.UnaryOp) and isinstance(e.op, ast.Not):
        v = _fold_test(e.operand)
        if isinstance(v, ast.Constant):
            return ast.copy_location(ast.Constant(not v.value), e)
        e.operand = v
        return e
    if isinstance(e, ast.BoolOp):
        isand = isinstance(e.op, ast.And)
        vals = []
        for x in e.values:
            v = _fold_test(x)
            if isinstance(v, ast.Constant):
                if bool(v.value) == isand:
                    continue            # neutral element (only its truth matters in a test)
                # absorbing element: everything after it is not evaluated
                vals.append(v)
                break
            vals.append(v)
        if not vals:
            return ast.copy_location(ast.Constant(isand), e)
        if len(vals) == 1:
            return vals[0]
        if isinstance(vals[-1], ast.Constant) and len(vals) > 1:
            # `a and False`: a is still evaluated; keep the expression (its truth value is known only if a has no say)
            e.values = vals
            return e
        e.values = vals
        return e
    if isinstance(e, ast.Compare) and len(e.ops) == 1 and isinstance(e.left, ast.Constant) and isinstance(e.comparators[0], ast.Constant):
        a, b, op = e.left.value, e.comparators[0].value, e.ops[0]
        try:
            if isinstance(op, ast.Is):
                r = a is b
            elif isinstance(op, ast.IsNot):
                r = a is not b
            elif isinstance(op, ast.Eq):
                r = a == b
            elif isinstance(op, ast.NotEq):
                r = a != b
            else:
                return e
        except Exception:       # noqa
            return e
        return ast.copy_location(ast.Constant(r), e)
    return e


def propagate_local_constants(tree):
    """a local bound exactly once, by a top-level statement of its function, to a literal or to a tuple of names the
    function does not bind (`text_types = (TexText, str)`) is replaced by that value where it is read"""
    import copy
    count = 0
    for fn in ast.walk(tree):
        if not isinstance(fn, ast.FunctionDef):
            continue
        stores = {}
        for n in ast.walk(fn):
            if isinstance(n, ast.Name) and isinstance(n.ctx, (ast.Store, ast.Del)):
                stores[n.id] = stores.get(n.id, 0) + 1
            elif isinstance(n, ast.arg):
                stores[n.arg] = stores.get(n.arg, 0) + 1
            elif isinstance(n, (ast.Global, ast.Nonlocal)):
                for g in n.names:
                    stores[g] = stores.get(g, 0) + 2
            elif isinstance(n, (ast.FunctionDef, ast.ClassDef)) and n is not fn:
                stores[n.name] = stores.get(n.name, 0) + 1
        env = {}
        for st in fn.body:
            if isinstance(st, ast.Assign) and len(st.targets) == 1 and isinstance(st.targets[0], ast.Name) \
                    and stores.get(st.targets[0].id, 0) == 1:
                v = st.value
                ok = isinstance(v, ast.Constant) and isinstance(v.value, (str, int, float, bool, type(None))) and not isinstance(v.value, bytes)
                if isinstance(v, ast.Tuple) and v.elts and all(
                        isinstance(e, ast.Name) and stores.get(e.id, 0) == 0 or isinstance(e, ast.Constant) for e in v.elts):
                    ok = True
                if ok:
                    env[st.targets[0].id] = st
        if not env:
            continue

        class Sub(ast.NodeTransformer):
            def visit_Name(self, n):
                if isinstance(n.ctx, ast.Load) and n.id in env:
                    return ast.copy_location(copy.deepcopy(env[n.id].value), n)
                return n
        Sub().visit(fn)
        fn.body = [b for b in fn.body if not any(b is e for e in env.values())] or [ast.copy_location(ast.Pass(), fn)]
        count += len(env)
    if count:
        ast.fix_missing_locations(tree)
    return count


QUERY_METHODS = ('hasNext', 'peek', 'startswith', 'endswith')


def inline_query_temporaries(tree):
    """`more = src.hasNext()` directly followed by an if/elif chain whose tests are the only readers of `more`, and whose
    tests call nothing but the non-moving cursor queries (hasNext / peek / startswith / endswith: R20.a), is the chain
    with the query written out: between the assignment and any of the tests nothing can have moved the cursor"""
    import copy
    count = 0
    for fn in ast.walk(tree):
        if not isinstance(fn, ast.FunctionDef):
            continue
        uses = {}
        for n in ast.walk(fn):
            if isinstance(n, ast.Name):
                uses[n.id] = uses.get(n.id, 0) + 1

        def chain_tests(node):
            tests = []
            while isinstance(node, ast.If):
                tests.append(node.test)
                node = node.orelse[0] if len(node.orelse) == 1 and isinstance(node.orelse[0], ast.If) else None
            return tests

        def fix(stmts):
            nonlocal count
            i = 0
            while i + 1 < len(stmts):
                st, nxt = stmts[i], stmts[i + 1]
                if isinstance(st, ast.Assign) and len(st.targets) == 1 and isinstance(st.targets[0], ast.Name) \
                        and isinstance(st.value, ast.Call) and isinstance(st.value.func, ast.Attribute) \
                        and st.value.func.attr in QUERY_METHODS and isinstance(st.value.func.value, ast.Name) \
                        and all(_pure_simple(a) or isinstance(a, ast.Constant) for a in st.value.args) and not st.value.keywords \
                        and isinstance(nxt, ast.If):
                    nm = st.targets[0].id
                    tests = chain_tests(nxt)
                    hits = [x for t in tests for x in ast.walk(t) if isinstance(x, ast.Name) and x.id == nm]
                    calls = [x for t in tests for x in ast.walk(t) if isinstance(x, ast.Call)]
                    pure = all(isinstance(c.func, ast.Attribute) and c.func.attr in QUERY_METHODS
                               or isinstance(c.func, ast.Name) and c.func.id in ('isinstance', 'len') for c in calls)
                    if hits and len(hits) + 1 == uses.get(nm, 0) and pure:
                        class S(ast.NodeTransformer):
                            def visit_Name(self, m):
                                if m.id == nm and isinstance(m.ctx, ast.Load):
                                    return ast.copy_location(copy.deepcopy(st.value), m)
                                return m
                        node = nxt
                        while isinstance(node, ast.If):
                            node.test = S().visit(node.test)
                            node = node.orelse[0] if len(node.orelse) == 1 and isinstance(node.orelse[0], ast.If) else None
                        del stmts[i]
                        count += 1
                        continue
                i += 1
            for st in stmts:
                for fld in ('body', 'orelse', 'finalbody'):
                    sub = getattr(st, fld, None)
                    if isinstance(sub, list) and sub and isinstance(sub[0], ast.stmt) and not isinstance(st, (ast.FunctionDef, ast.ClassDef)):
                        fix(sub)
                for h in getattr(st, 'handlers', []) or []:
                    fix(h.body)
        fix(fn.body)
    if count:
        ast.fix_missing_locations(tree)
    return count


def fold_constant_conditions(tree):
    """conditions that consist of comparisons between literals (left behind when a helper was inlined with a literal
    argument) are resolved: `if None is None or x:` is `if True:`, and an `if` with a constant test is its live arm"""
    changed = [0]

    def has_const_compare(e):
        return any(isinstance(x, ast.Compare) and isinstance(x.left, ast.Constant) and len(x.comparators) == 1
                   and isinstance(x.comparators[0], ast.Constant) for x in ast.walk(e))

    def fix(stmts):
        out = []
        for st in stmts:
            for fld in ('body', 'orelse', 'finalbody'):
                sub = getattr(st, fld, None)
                if isinstance(sub, list) and sub and isinstance(sub[0], ast.stmt):
                    new = fix(sub)
                    setattr(st, fld, new or ([ast.copy_location(ast.Pass(), st)] if fld == 'body' else []))
            for h in getattr(st, 'handlers', []) or []:
                h.body = fix(h.body) or [ast.copy_location(ast.Pass(), h)]
            if isinstance(st, (ast.If, ast.While, ast.Assert)) and has_const_compare(st.test):
                st.test = _fold_test(st.test)
                changed[0] += 1
                if isinstance(st, ast.If) and isinstance(st.test, ast.Constant):
                    out += st.body if st.test.value else st.orelse
                    continue
                if isinstance(st, ast.Assert) and isinstance(st.test, ast.Constant) and st.test.value:
                    continue
            out.append(st)
        return out
    for fn in ast.walk(tree):
        if isinstance(fn, ast.FunctionDef):
            fn.body = fix(fn.body) or [ast.copy_location(ast.Pass(), fn)]
    for n in ast.walk(tree):
        if isinstance(n, ast.IfExp) and has_const_compare(n.test):
            n.test = _fold_test(n.test)
    if changed[0]:
        ast.fix_missing_locations(tree)
    return changed[0]


def supplied_arguments(sources, names=None):
    """what the calls of the whole package supply, by callee name: keyword names and the largest number of positional
    arguments (a starred argument counts as 'any')"""
    kws, pos = {}, {}
    api = pinned_api()
    for si, src in enumerate(sources):
        try:
            t = ast.parse(src)
        except SyntaxError:
            continue
        tab = api.get(names[si], {}) if names else {}
        # parameters that are themselves later additions (per enclosing function)
        new_params = {}
        for st in t.body:
            defs = [(st.name, st)] if isinstance(st, ast.FunctionDef) else (
                [('%s.%s' % (st.name, x.name), x) for x in st.body if isinstance(x, ast.FunctionDef)] if isinstance(st, ast.ClassDef) else [])
            for q, f in defs:
                old = tab.get(q)
                if old is not None:
                    for x in ast.walk(f):
                        x._new_params = {a.arg for a in f.args.args + f.args.kwonlyargs if a.arg not in old}
        for n in ast.walk(t):
            if isinstance(n, ast.Call):
                nm = n.func.id if isinstance(n.func, ast.Name) else (n.func.attr if isinstance(n.func, ast.Attribute) else None)
                if nm is None:
                    continue
                for k in n.keywords:
                    # `encoding=encoding` only forwards the caller's own parameter of that name: it supplies a value
                    # other than the default only if somebody supplies one to the caller
                    if k.arg is not None and isinstance(k.value, ast.Name) and k.value.id == k.arg \
                            and k.arg in getattr(n, '_new_params', ()):
                        continue
                    kws.setdefault(nm, set()).add('**' if k.arg is None else k.arg)
                npos = len(n.args) + (100 if any(isinstance(a, ast.Starred) for a in n.args) else 0)
                pos[nm] = max(pos.get(nm, 0), npos)
    return kws, pos


def specialise_new_parameters(tree, modname, supplied=None):
    """The properties quantify over the API of the pinned commit.  A parameter that a function of that API has gained
    since (not in sa/pinned_api.json), that has a literal default (None / bool / number / string) and that no call in
    the module supplies, is a switched-off feature: inside the function it is replaced by its default, and the conditions,
    conditional expressions and `if` statements this decides are resolved.  Existing calls behave exactly like that."""
    import copy
    api = pinned_api().get(modname)
    if not api:
        return 0
    # what calls supply, by callee name: in this module, and (when given) in the whole package
    supplied_kw, max_pos = ({k: set(v) for k, v in supplied[0].items()}, dict(supplied[1])) if supplied else ({}, {})
    for n in ast.walk(tree):
        if isinstance(n, ast.Call):
            nm = n.func.id if isinstance(n.func, ast.Name) else (n.func.attr if isinstance(n.func, ast.Attribute) else None)
            if nm is None:
                continue
            for k in n.keywords:
                if k.arg is None:
                    supplied_kw.setdefault(nm, set()).add('**')
                elif supplied is None or not (isinstance(k.value, ast.Name) and k.value.id == k.arg):
                    supplied_kw.setdefault(nm, set()).add(k.arg)
                elif k.arg in (supplied[0].get(nm) or ()):
                    supplied_kw.setdefault(nm, set()).add(k.arg)
            npos = len(n.args) + (100 if any(isinstance(a, ast.Starred) for a in n.args) else 0)
            max_pos[nm] = max(max_pos.get(nm, 0), npos)
    count = 0
    todo = []
    for st in tree.body:
        if isinstance(st, ast.FunctionDef):
            todo.append((st.name, st, 0))
        elif isinstance(st, ast.ClassDef):
            for s2 in st.body:
                if isinstance(s2, ast.FunctionDef):
                    todo.append(('%s.%s' % (st.name, s2.name), s2, 1))
    for qual, fn, skip in todo:
        old = api.get(qual)
        if old is None:
            continue
        a = fn.args
        pos = a.posonlyargs + a.args
        defaults = dict(zip([x.arg for x in pos][len(pos) - len(a.defaults):], a.defaults))
        defaults.update({x.arg: d for x, d in zip(a.kwonlyargs, a.kw_defaults) if d is not None})
        env = {}
        for i, x in enumerate(pos + a.kwonlyargs):
            nm = x.arg
            if nm in old or nm not in defaults:
                continue
            d = defaults[nm]
            if not (isinstance(d, ast.Constant) and (d.value is None or isinstance(d.value, (bool, int, float, str)))):
                continue
            kws = supplied_kw.get(fn.name, set())
            if nm in kws or '**' in kws:
                continue
            if x in pos and max_pos.get(fn.name, 0) > pos.index(x) - skip:
                continue
            if any(isinstance(y, ast.Name) and y.id == nm and isinstance(y.ctx, (ast.Store, ast.Del)) for y in ast.walk(fn)):
                continue
            env[nm] = d
        if not env:
            continue

        class Sub(ast.NodeTransformer):
            def visit_Name(self, n):
                if isinstance(n.ctx, ast.Load) and n.id in env:
                    return ast.copy_location(copy.deepcopy(env[n.id]), n)
                return n

            def visit_FunctionDef(self, n):
                if n is fn:
                    n.body = [self.visit(b) for b in n.body]
                    n.body = self.flatten(n.body)
                    return n
                # nested functions may shadow the name
                if any(isinstance(y, ast.arg) and y.arg in env for y in ast.walk(n.args)):
                    return n
                self.generic_visit(n)
                return n

            def flatten(self, stmts):
                out = []
                for b in stmts:
                    if isinstance(b, list):
                        out += b
                    elif b is not None:
                        out.append(b)
                return out

            def visit_If(self, n):
                n.test = _fold_test(self.visit(n.test))
                n.body = self.flatten([self.visit(b) for b in n.body])
                n.orelse = self.flatten([self.visit(b) for b in n.orelse])
                if isinstance(n.test, ast.Constant):
                    return (n.body if n.test.value else n.orelse) or None
                if not n.body:
                    n.body = [ast.copy_location(ast.Pass(), n)]
                return n

            def visit_IfExp(self, n):
                n.test = _fold_test(self.visit(n.test))
                n.body = self.visit(n.body)
                n.orelse = self.visit(n.orelse)
                if isinstance(n.test, ast.Constant):
                    return n.body if n.test.value else n.orelse
                return n

            def visit_While(self, n):
                n.test = _fold_test(self.visit(n.test))
                n.body = self.flatten([self.visit(b) for b in n.body]) or [ast.copy_location(ast.Pass(), n)]
                n.orelse = self.flatten([self.visit(b) for b in n.orelse])
                return n

            def visit_Assert(self, n):
                n.test = _fold_test(self.visit(n.test))
                if n.msg is not None:
                    n.msg = self.visit(n.msg)
                if isinstance(n.test, ast.Constant) and n.test.value:
                    return None
                return n

            def visit_BoolOp(self, n):
                self.generic_visit(n)
                # value context: `<const> or x` / `<const> and x`
                vals = list(n.values)
                isand = isinstance(n.op, ast.And)
                while len(vals) > 1 and isinstance(vals[0], ast.Constant):
                    if bool(vals[0].value) == isand:
                        vals = vals[1:]          # falls through to the next operand
                    else:
                        vals = vals[:1]
                if len(vals) == 1:
                    return vals[0]
                n.values = vals
                return n

            def generic_block(self, n):
                for fld in ('body', 'orelse', 'finalbody'):
                    lst = getattr(n, fld, None)
                    if isinstance(lst, list) and lst and isinstance(lst[0], ast.stmt):
                        new = self.flatten([self.visit(b) for b in lst])
                        setattr(n, fld, new or ([ast.copy_location(ast.Pass(), n)] if fld == 'body' else []))
                for h in getattr(n, 'handlers', []) or []:
                    h.body = self.flatten([self.visit(b) for b in h.body]) or [ast.copy_location(ast.Pass(), h)]
                return n

            def visit_For(self, n):
                n.iter = self.visit(n.iter)
                return self.generic_block(n)

            def visit_Try(self, n):
                return self.generic_block(n)

            def visit_With(self, n):
                for it in n.items:
                    it.context_expr = self.visit(it.context_expr)
                return self.generic_block(n)
        Sub().visit(fn)
        if not fn.body:
            fn.body = [ast.Pass()]
        count += len(env)
    if count:
        ast.fix_missing_locations(tree)
    return count


def plain_method_names(sources):
    """names that the classes of the package define only as plain methods (never as a property, never stored as an
    attribute): `x.<name>` then denotes the same callable however often it is read"""
    plain, other = set(), set()
    for src in sources:
        try:
            t = ast.parse(src)
        except SyntaxError:
            continue
        for c in ast.walk(t):
            if isinstance(c, ast.ClassDef):
                for st in c.body:
                    if isinstance(st, ast.FunctionDef):
                        decos = {ast.unparse(d) for d in st.decorator_list}
                        if any(d == 'property' or d.endswith(('.setter', '.getter', '.deleter')) or 'cached' in d for d in decos):
                            other.add(st.name)
                        else:
                            plain.add(st.name)
                    elif isinstance(st, ast.Assign):
                        for tg in st.targets:
                            if isinstance(tg, ast.Name):
                                other.add(tg.id)
            elif isinstance(c, ast.Attribute) and isinstance(c.ctx, (ast.Store, ast.Del)):
                other.add(c.attr)
    return frozenset(plain - other)


_BUILTIN_METHODS = ('insert', 'append', 'extend', 'pop', 'remove', 'index', 'count', 'join', 'startswith', 'endswith', 'get',
                    'items', 'keys', 'values', 'add', 'format', 'strip', 'lstrip', 'rstrip', 'find')


def inline_bound_method_aliases(tree, methods):
    """`has_next = src.hasNext ... has_next()`: a local bound exactly once to `<name>.<plain method>` (the root a
    parameter or `self`, never rebound) and used only as the callee of calls is replaced by the attribute."""
    import copy
    count = 0
    if not methods:
        return 0
    for fn in ast.walk(tree):
        if not isinstance(fn, ast.FunctionDef):
            continue
        params = {a.arg for a in fn.args.args + fn.args.kwonlyargs + fn.args.posonlyargs}
        stores = {}
        for n in ast.walk(fn):
            if isinstance(n, ast.Name) and isinstance(n.ctx, (ast.Store, ast.Del)):
                stores[n.id] = stores.get(n.id, 0) + 1
            elif isinstance(n, (ast.Global, ast.Nonlocal)):
                for g in n.names:
                    stores[g] = stores.get(g, 0) + 2
        cands = {}
        attr_stores = {n.attr for n in ast.walk(fn) if isinstance(n, ast.Attribute) and isinstance(n.ctx, (ast.Store, ast.Del))}
        for st in ast.walk(fn):
            if isinstance(st, ast.Assign) and len(st.targets) == 1 and isinstance(st.targets[0], ast.Name) \
                    and isinstance(st.value, ast.Attribute) and isinstance(st.value.value, ast.Name) \
                    and st.value.attr in methods and st.value.value.id in params and stores.get(st.value.value.id, 0) == 0 \
                    and stores.get(st.targets[0].id, 0) == 1 and st.targets[0].id not in params:
                cands[st.targets[0].id] = st
            elif isinstance(st, ast.Assign) and len(st.targets) == 1 and isinstance(st.targets[0], ast.Name) \
                    and isinstance(st.value, ast.Attribute) and isinstance(st.value.value, ast.Attribute) \
                    and isinstance(st.value.value.value, ast.Name) and st.value.value.value.id in params \
                    and stores.get(st.value.value.value.id, 0) == 0 and st.value.attr in _BUILTIN_METHODS \
                    and st.value.value.attr not in attr_stores and st.value.value.attr not in methods \
                    and stores.get(st.targets[0].id, 0) == 1 and st.targets[0].id not in params:
                # `insert = self._contents.insert`: a method of the list/str held in a plain attribute the function
                # never rebinds
                cands[st.targets[0].id] = st
        if not cands:
            continue
        # every load of the local must be the callee of a call
        loads = {}
        callee = {}
        for n in ast.walk(fn):
            if isinstance(n, ast.Name) and isinstance(n.ctx, ast.Load) and n.id in cands:
                loads[n.id] = loads.get(n.id, 0) + 1
            if isinstance(n, ast.Call) and isinstance(n.func, ast.Name) and n.func.id in cands:
                callee[n.func.id] = callee.get(n.func.id, 0) + 1
        ok = {k for k in cands if loads.get(k, 0) == callee.get(k, 0)}
        if not ok:
            continue

        class Sub(ast.NodeTransformer):
            def visit_Call(self, n):
                self.generic_visit(n)
                if isinstance(n.func, ast.Name) and n.func.id in ok:
                    n.func = ast.copy_location(copy.deepcopy(cands[n.func.id].value), n.func)
                return n

            def visit_Assign(self, n):
                if any(n is cands[k] for k in ok):
                    return None
                self.generic_visit(n)
                return n
        Sub().visit(fn)
        for b in ast.walk(fn):
            for fld in ('body', 'orelse', 'finalbody'):
                lst = getattr(b, fld, None)
                if isinstance(lst, list) and not lst and fld == 'body' and isinstance(b, (ast.If, ast.For, ast.While, ast.With, ast.FunctionDef)):
                    lst.append(ast.Pass())
        count += len(ok)
    if count:
        ast.fix_missing_locations(tree)
    return count


def inline_procedure_helpers(tree):
    """"Extract a few statements into a helper that returns nothing": a new module-level function without a returned
    value (no `return <expr>`, no yield; a bare `return` only as its last statement), every use of which is a call
    statement `F(<pure simple arguments>)`, is pasted at those statements (parameters substituted, locals renamed
    apart) and dropped.  The functions that exist today are pinned and never dissolved."""
    import copy
    funcs = {st.name: st for st in tree.body if isinstance(st, ast.FunctionDef)}
    done = []
    uid = [0]
    for fname, F in list(funcs.items()):
        if fname in PINNED_FUNCTION_NAMES or F.decorator_list or F.args.vararg or F.args.kwarg or F.args.kwonlyargs \
                or F.args.posonlyargs or F.args.defaults:
            continue
        body = [b for b in F.body if not (isinstance(b, ast.Expr) and isinstance(b.value, ast.Constant))]
        if body and isinstance(body[-1], ast.Return) and body[-1].value is None:
            body = body[:-1]
        if not body:
            continue
        if any(isinstance(x, (ast.Return, ast.Yield, ast.YieldFrom, ast.FunctionDef, ast.Lambda, ast.Global, ast.Nonlocal))
               for b in body for x in ast.walk(b)):
            continue
        if any(isinstance(x, ast.Name) and x.id == fname for b in body for x in ast.walk(b)):
            continue
        params = [a.arg for a in F.args.args]
        if any(isinstance(x, ast.Name) and isinstance(x.ctx, ast.Store) and x.id in params for b in body for x in ast.walk(b)):
            continue
        refs = [n for n in ast.walk(tree) if isinstance(n, ast.Name) and n.id == fname and isinstance(n.ctx, ast.Load)]
        sites = []
        ok = True
        for G in funcs.values():
            if G is F:
                continue
            for st in ast.walk(G):
                if isinstance(st, ast.Expr) and isinstance(st.value, ast.Call) and st.value.func in refs:
                    c = st.value
                    if c.keywords or len(c.args) != len(params) or not all(_pure_simple(a) or isinstance(a, ast.Constant) for a in c.args):
                        ok = False
                    sites.append((G, st))
        if not ok or not sites or len(sites) != len(refs):
            continue
        loc = {n.id for b in body for n in ast.walk(b) if isinstance(n, ast.Name) and isinstance(n.ctx, ast.Store)}

        def expand(stmts):
            out = []
            for st in stmts:
                for fld in ('body', 'orelse', 'finalbody'):
                    sub = getattr(st, fld, None)
                    if isinstance(sub, list) and sub and isinstance(sub[0], ast.stmt):
                        setattr(st, fld, expand(sub))
                for h in getattr(st, 'handlers', []) or []:
                    h.body = expand(h.body)
                if any(st is s_ for _, s_ in sites):
                    uid[0] += 1
                    env = dict(zip(params, st.value.args))
                    ren = {l: '_%s_%d_%s' % (fname.strip('_'), uid[0], l) for l in loc}

                    class S(ast.NodeTransformer):
                        def visit_Name(self, m):
                            if m.id in ren:
                                m.id = ren[m.id]
                                return m
                            if isinstance(m.ctx, ast.Load) and m.id in env:
                                return ast.copy_location(copy.deepcopy(env[m.id]), m)
                            return m
                    for b in body:
                        nb = S().visit(copy.deepcopy(b))
                        for x in ast.walk(nb):
                            if hasattr(x, 'lineno'):
                                x.lineno = st.lineno
                        out.append(nb)
                else:
                    out.append(st)
            return out
        for G in {g for g, _ in sites}:
            G.body = expand(G.body)
        tree.body.remove(F)
        done.append(fname)
    ast.fix_missing_locations(tree)
    return done


def inline_pure_aliases(tree, unstable=frozenset()):
    """"Read an attribute once into a local" is invisible to the rules: inside a function, a local that is bound
    exactly once, by a top-level statement `x = self.a.b` (a pure attribute chain rooted at `self`), is replaced by the
    chain where it is read -- provided the function never stores to the chain's root attribute (`self.a = ...`), never
    deletes it and declares nothing global.  Returns the list of (function, local) pairs."""
    import copy
    done = []
    module_attr_stores = {n.attr for n in ast.walk(tree) if isinstance(n, ast.Attribute) and isinstance(n.ctx, (ast.Store, ast.Del))}
    # per class: names computed by the class itself or a base defined in this module, and attributes of `self` stored
    # outside the constructors
    classes = {c.name: c for c in ast.walk(tree) if isinstance(c, ast.ClassDef)}

    def class_facts(c, seen=()):
        computed, stored = set(), set()
        for st in c.body:
            if isinstance(st, ast.FunctionDef):
                computed.add(st.name)
                if st.name not in ('__init__', '__new__'):
                    for n in ast.walk(st):
                        if isinstance(n, ast.Attribute) and isinstance(n.ctx, (ast.Store, ast.Del)) and isinstance(n.value, ast.Name) \
                                and n.value.id == 'self':
                            stored.add(n.attr)
        for b in c.bases:
            if isinstance(b, ast.Name) and b.id in classes and b.id not in seen:
                c2, s2 = class_facts(classes[b.id], seen + (c.name,))
                computed |= c2
                stored |= s2
        return computed, stored
    owner_of = {}
    for c in classes.values():
        for st in c.body:
            if isinstance(st, ast.FunctionDef):
                owner_of[st] = c
    for fn in ast.walk(tree):
        if not isinstance(fn, ast.FunctionDef):
            continue
        params = {a.arg for a in fn.args.args + fn.args.kwonlyargs + fn.args.posonlyargs}
        if fn.args.vararg:
            params.add(fn.args.vararg.arg)
        if fn.args.kwarg:
            params.add(fn.args.kwarg.arg)
        stores = {}
        attr_stores = set()
        nested = False
        for n in ast.walk(fn):
            if isinstance(n, ast.Name) and isinstance(n.ctx, (ast.Store, ast.Del)):
                stores[n.id] = stores.get(n.id, 0) + 1
            elif isinstance(n, ast.Attribute) and isinstance(n.ctx, (ast.Store, ast.Del)):
                attr_stores.add(n.attr)
            elif isinstance(n, (ast.Global, ast.Nonlocal)):
                nested = True
            elif isinstance(n, (ast.FunctionDef, ast.Lambda)) and n is not fn:
                nested = True
        if nested:
            continue
        env = {}
        for st in fn.body:
            if isinstance(st, ast.Assign) and len(st.targets) == 1 and isinstance(st.targets[0], ast.Name):
                nm = st.targets[0].id
                v = st.value
                chain = []
                x = v
                while isinstance(x, ast.Attribute):
                    chain.append(x.attr)
                    x = x.value
                # the root: `self`, a parameter that is never rebound, or a local bound exactly once by an earlier
                # top-level statement of the function
                root_ok = isinstance(x, ast.Name) and (
                    x.id == 'self' and 'self' in params
                    or (x.id in params and stores.get(x.id, 0) == 0)
                    or (x.id not in params and stores.get(x.id, 0) == 1 and any(
                        isinstance(e_, ast.Assign) and len(e_.targets) == 1 and isinstance(e_.targets[0], ast.Name)
                        and e_.targets[0].id == x.id for e_ in fn.body[:fn.body.index(st)])))
                # the attributes must be plain data: not computed by a property/method of any class of the package,
                # and -- when the root is not `self` -- never stored to anywhere in this module
                if not chain:
                    stable = False
                elif isinstance(x, ast.Name) and x.id == 'self' and fn in owner_of:
                    # `self.<a>`: <a> is plain data of this class (neither it nor a base computes it) and the class
                    # rebinds it only in its constructors; a longer chain needs package-wide plain attributes
                    comp_, stored_ = class_facts(owner_of[fn])
                    stable = chain[-1] not in comp_ and chain[-1] not in stored_ and not (set(chain[:-1]) & unstable)
                elif isinstance(x, ast.Name):
                    stable = not (set(chain) & unstable) and not (set(chain) & module_attr_stores)
                else:
                    stable = False
                if root_ok and stable and chain and stores.get(nm, 0) == 1 and nm not in params \
                        and not (set(chain) & attr_stores) and len(chain) <= 2 and x.id not in env:
                    env[nm] = v
        if not env:
            continue

        class Sub(ast.NodeTransformer):
            def visit_Name(self, n):
                if isinstance(n.ctx, ast.Load) and n.id in env:
                    return ast.copy_location(copy.deepcopy(env[n.id]), n)
                return n
        for st in fn.body:
            if isinstance(st, ast.Assign) and len(st.targets) == 1 and isinstance(st.targets[0], ast.Name) and st.targets[0].id in env:
                continue
            Sub().visit(st)
        done += [(fn.name, k) for k in env]
    return done


def inline_expression_helpers(tree):
    """Resolve trivial wrappers: a module-level, undecorated function whose body is a single `return <expr>` is
    substituted at its call sites inside other functions of the same module when every argument is a pure
    simple expression (name, attribute chain, constant), so that the analyses see the wrapped expression --
    e.g. `_next_is(buf, TC.X)` is analysed as `buf.hasNext() and buf.peek().category == TC.X`.  The helper itself
    stays in the module.  Returns the list of (helper, call-site line) pairs that were inlined."""
    import copy
    helpers = {}
    for st in tree.body:
        if isinstance(st, ast.FunctionDef) and not st.decorator_list:
            body = [s for s in st.body if not (isinstance(s, ast.Expr) and isinstance(s.value, ast.Constant))]
            a = st.args
            if len(body) == 1 and isinstance(body[0], ast.Return) and body[0].value is not None and not a.vararg and not a.kwarg \
                    and not a.kwonlyargs and not a.posonlyargs:
                expr = body[0].value
                if any(isinstance(x, (ast.Lambda, ast.Yield, ast.YieldFrom, ast.Await, ast.NamedExpr)) for x in ast.walk(expr)):
                    continue
                # not self-recursive
                if any(isinstance(x, ast.Name) and x.id == st.name for x in ast.walk(expr)):
                    continue
                # boolean/comparison style wrappers (conditions); for functions no rule is anchored in by name also a
                # single method call on a parameter (`return src.startswith(...)`): with pure simple arguments the
                # substitution evaluates the same expression in the caller
                if not isinstance(expr, (ast.BoolOp, ast.Compare, ast.UnaryOp)):
                    params_ = {x.arg for x in a.args}
                    method_call = (st.name not in PINNED_FUNCTION_NAMES and isinstance(expr, ast.Call)
                                   and isinstance(expr.func, ast.Attribute) and isinstance(expr.func.value, ast.Name)
                                   and expr.func.value.id in params_)
                    # a private helper that is one `return <expression over its parameters>` (each parameter read at
                    # most once unless the arguments are plain names, which the call-site test below requires)
                    private = st.name.startswith('_') and not st.name.startswith('__') and st.name not in PINNED_FUNCTION_NAMES \
                        and not a.defaults
                    if not (method_call or private):
                        continue
                helpers[st.name] = st
    if not helpers:
        return []
    done = []

    class Sub(ast.NodeTransformer):
        def __init__(self, env):
            self.env = env

        def visit_Name(self, n):
            if isinstance(n.ctx, ast.Load) and n.id in self.env:
                return copy.deepcopy(self.env[n.id])
            return n

    class Inl(ast.NodeTransformer):
        def visit_Call(self, n):
            self.generic_visit(n)
            if isinstance(n.func, ast.Name) and n.func.id in helpers and self.cur is not helpers[n.func.id]:
                h = helpers[n.func.id]
                params = [x.arg for x in h.args.args]
                if any(isinstance(x, ast.Starred) for x in n.args) or any(k.arg is None for k in n.keywords):
                    return n
                env = {}
                defaults = dict(zip(params[len(params) - len(h.args.defaults):], h.args.defaults))
                for p, a in zip(params, n.args):
                    env[p] = a
                for k in n.keywords:
                    if k.arg in params:
                        env[k.arg] = k.value
                for p in params:
                    if p not in env:
                        if p in defaults and isinstance(defaults[p], ast.Constant):
                            env[p] = defaults[p]
                        else:
                            return n
                if not all(_pure_simple(v) for v in env.values()) or len(n.args) > len(params):
                    return n
                body = [s for s in h.body if isinstance(s, ast.Return)][0].value
                new = Sub(env).visit(copy.deepcopy(body))
                for x in ast.walk(new):
                    ast.copy_location(x, n)
                done.append((h.name, getattr(n, 'lineno', 0)))
                return new
            return n

    for st in tree.body:
        targets = [st] if isinstance(st, ast.FunctionDef) else ([x for x in st.body if isinstance(x, ast.FunctionDef)]
                                                              if isinstance(st, ast.ClassDef) else [])
        for fn in targets:
            t = Inl()
            t.cur = fn
            for i, s in enumerate(fn.body):
                fn.body[i] = t.visit(s)
    ast.fix_missing_locations(tree)
    return done


def resolve_locals(fnode, expr, depth=0):
    """the expression with single-assignment locals of the function substituted by their definitions"""
    import copy
    assigns = {}
    params = {a.arg for a in fnode.args.args + fnode.args.kwonlyargs}
    for n in ast.walk(fnode):
        if isinstance(n, ast.Assign) and len(n.targets) == 1 and isinstance(n.targets[0], ast.Name):
            assigns.setdefault(n.targets[0].id, []).append(n.value)
        elif isinstance(n, ast.Assign) and len(n.targets) == 1 and isinstance(n.targets[0], ast.Tuple) \
                and isinstance(n.value, ast.Tuple) and len(n.value.elts) == len(n.targets[0].elts):
            for t_, v_ in zip(n.targets[0].elts, n.value.elts):
                if isinstance(t_, ast.Name):
                    assigns.setdefault(t_.id, []).append(v_)
        elif isinstance(n, ast.AugAssign) and isinstance(n.target, ast.Name):
            assigns.setdefault(n.target.id, []).append(None)
        elif isinstance(n, (ast.For, ast.comprehension)):
            for x in ast.walk(n.target):
                if isinstance(x, ast.Name):
                    assigns.setdefault(x.id, []).append(None)

    class R(ast.NodeTransformer):
        def __init__(self, d):
            self.d = d

        def visit_Name(self, n):
            if isinstance(n.ctx, ast.Load) and n.id not in params and len(assigns.get(n.id, [])) == 1 \
                    and assigns[n.id][0] is not None and self.d < 6:
                return R(self.d + 1).visit(copy.deepcopy(assigns[n.id][0]))
            return n
    return R(depth).visit(copy.deepcopy(expr))


def effective_method(cls, fd, depth=0):
    """The method as the analyses should see it: a method whose body is the pure delegation
    `return self.<private helper>(<simple arguments>)` is replaced by a synthetic copy of the helper with the arguments
    substituted for its parameters (and `getattr(x, '<const>')` folded to an attribute), so that "merge similar
    methods through a parameter" / "extract the body into a private method" refactorings present the original shape.
    Returns a FuncDef (the given one when nothing applies)."""
    import copy
    body = [s for s in fd.node.body if not (isinstance(s, ast.Expr) and isinstance(s.value, ast.Constant)
                                            and isinstance(s.value.value, str))]
    if len(body) != 1 or not isinstance(body[0], ast.Return) or depth > 2:
        return fd
    c = body[0].value
    if isinstance(c, ast.Call) and isinstance(c.func, ast.Name) and c.func.id == 'iter' and len(c.args) == 1 and not c.keywords:
        c = c.args[0]       # iter(<generator>) is that generator
    modfunc = None
    if isinstance(c, ast.Call) and isinstance(c.func, ast.Name) and c.func.id.startswith('_') and c.func.id in fd.module.functions \
            and c.args and isinstance(c.args[0], ast.Name) and c.args[0].id == 'self':
        modfunc = fd.module.functions[c.func.id]      # _helper(self, ...): a private module-level function
    if modfunc is None and not (isinstance(c, ast.Call) and isinstance(c.func, ast.Attribute) and isinstance(c.func.value, ast.Name)
                                and c.func.value.id == 'self' and c.func.attr.startswith('_') and not c.func.attr.endswith('__')):
        return fd
    if modfunc is not None:
        kind, h = 'method', modfunc
        import copy as _copy
        c = _copy.copy(c)
        c.args = c.args[1:]
    else:
        owner, kind, h = cls.lookup(c.func.attr)
    if kind != 'method' or h.decorators:
        return fd
    if any(isinstance(a, ast.Starred) for a in c.args) or any(k.arg is None for k in c.keywords):
        return fd
    params = h.params()[1:]
    self_name = h.params()[0] if h.params() else 'self'
    if h.node.args.vararg or h.node.args.kwarg or h.node.args.kwonlyargs:
        return fd
    env = dict(zip(params, c.args))
    for k in c.keywords:
        env[k.arg] = k.value
    defaults = h.defaults()
    for p_ in params:
        if p_ not in env:
            if p_ in defaults:
                env[p_] = defaults[p_]
            else:
                return fd
    if len(c.args) > len(params) or not all(_pure_simple(v) or isinstance(v, ast.Constant) for v in env.values()):
        return fd
    # parameters that the helper rebinds must be given names
    stored = {n.id for n in ast.walk(h.node) if isinstance(n, ast.Name) and isinstance(n.ctx, (ast.Store, ast.Del))}
    if any(p_ in stored and not isinstance(v, ast.Name) for p_, v in env.items()):
        return fd

    class Sub(ast.NodeTransformer):
        def visit_Name(self, n):
            if n.id == self_name and self_name != 'self':
                n.id = 'self'
                return n
            if n.id in env and isinstance(n.ctx, ast.Load):
                return ast.copy_location(copy.deepcopy(env[n.id]), n)
            if n.id in env and isinstance(env[n.id], ast.Name):
                n.id = env[n.id].id
            return n

        def visit_Call(self, n):
            self.generic_visit(n)
            # getattr(x, 'name') -> x.name
            if isinstance(n.func, ast.Name) and n.func.id == 'getattr' and len(n.args) == 2 and isinstance(n.args[1], ast.Constant) \
                    and isinstance(n.args[1].value, str) and n.args[1].value.isidentifier():
                return ast.copy_location(ast.Attribute(n.args[0], n.args[1].value, ast.Load()), n)
            return n
    new = copy.deepcopy(h.node)
    new.name = fd.node.name
    new.args = copy.deepcopy(fd.node.args)
    new = Sub().visit(new)
    ast.fix_missing_locations(new)
    for parent in ast.walk(new):
        for ch in ast.iter_child_nodes(parent):
            ch._parent = parent
    syn = FuncDef(fd.module, fd.qual, new, cls=fd.cls, parent=fd.parent)
    syn.inlined_from = h
    return effective_method(cls, syn, depth + 1)


def loop_form(fnode):
    """A function whose body is `return (<elt> for <x> in <it> if <c>...)` (generator expression or list comprehension,
    one generator) rewritten as the loop it abbreviates:  for <x> in <it>: if <c>: yield <elt>.  Returns a synthetic
    FunctionDef (with parent links), or the given node when the body has another shape."""
    import copy
    body = [s for s in fnode.body if not (isinstance(s, ast.Expr) and isinstance(s.value, ast.Constant)
                                          and isinstance(s.value.value, str))]
    if len(body) != 1 or not isinstance(body[0], ast.Return) or not isinstance(body[0].value, (ast.GeneratorExp, ast.ListComp)):
        return fnode
    g = body[0].value
    if len(g.generators) != 1 or g.generators[0].is_async:
        return fnode
    gen = g.generators[0]
    y = ast.Expr(ast.Yield(copy.deepcopy(g.elt)))
    inner = [y]
    if gen.ifs:
        test = copy.deepcopy(gen.ifs[0]) if len(gen.ifs) == 1 else ast.BoolOp(ast.And(), [copy.deepcopy(c) for c in gen.ifs])
        inner = [ast.If(test, [y], [])]
    loop = ast.For(copy.deepcopy(gen.target), copy.deepcopy(gen.iter), inner, [])
    new = copy.copy(fnode)
    new.body = [loop]
    for x in ast.walk(loop):
        if not hasattr(x, 'lineno'):
            x.lineno, x.col_offset, x.end_lineno, x.end_col_offset = body[0].lineno, 0, body[0].lineno, 0
    for parent in ast.walk(new):
        for ch in ast.iter_child_nodes(parent):
            ch._parent = parent
    return new


def with_self_aliases_resolved(fnode):
    """a copy of the function in which every local bound exactly once to an attribute chain of `self` (no calls) is
    replaced by that chain where it is read -- for rules that ask *which object* an operation touches (frame rules):
    the alias names the same object whatever happens in between"""
    import copy
    stores = {}
    for n in ast.walk(fnode):
        if isinstance(n, ast.Name) and isinstance(n.ctx, (ast.Store, ast.Del)):
            stores[n.id] = stores.get(n.id, 0) + 1
    env = {}
    for n in ast.walk(fnode):
        if isinstance(n, ast.Assign) and len(n.targets) == 1 and isinstance(n.targets[0], ast.Name) and stores.get(n.targets[0].id) == 1:
            x = n.value
            while isinstance(x, ast.Attribute):
                x = x.value
            if isinstance(x, ast.Name) and x.id == 'self' and isinstance(n.value, ast.Attribute):
                env[n.targets[0].id] = n.value
    if not env:
        return fnode
    new = copy.deepcopy(fnode)

    class Sub(ast.NodeTransformer):
        def visit_Name(self, n):
            if isinstance(n.ctx, ast.Load) and n.id in env:
                return ast.copy_location(copy.deepcopy(env[n.id]), n)
            return n
    new = Sub().visit(new)
    for parent in ast.walk(new):
        for ch in ast.iter_child_nodes(parent):
            ch._parent = parent
    return new


def bound_call_args(repo, module, call):
    """parameter name -> argument expression for a call whose callee can be resolved: a module-level function or class
    (constructor parameters, through the MRO) by name, or a method whose definitions across the package agree on their
    parameter list.  None when the callee or the binding cannot be determined (star arguments, unknown names)."""
    if any(isinstance(a, ast.Starred) for a in call.args) or any(k.arg is None for k in call.keywords):
        return None
    params = None
    f = call.func
    if isinstance(f, ast.Name):
        r = repo.resolve(module, f.id)
        if r and r[0] == 'func':
            params = [a.arg for a in r[1].node.args.args]
        elif r and r[0] == 'class':
            c = r[1]
            for k in (c.mro or [c]):
                if hasattr(k, 'methods') and ('__init__' in k.methods or '__new__' in k.methods):
                    fd = (k.methods.get('__init__') or k.methods.get('__new__'))[-1]
                    params = [a.arg for a in fd.node.args.args][1:]
                    break
    elif isinstance(f, ast.Attribute):
        sigs = set()
        for c in repo.all_classes():
            for fd in c.methods.get(f.attr, []):
                ps = [a.arg for a in fd.node.args.args]
                sigs.add(tuple(ps[1:] if 'staticmethod' not in fd.decorators else ps))
        if len(sigs) == 1:
            params = list(sigs.pop())
    if params is None or len(call.args) > len(params):
        return None
    out = dict(zip(params, call.args))
    for k in call.keywords:
        if k.arg in out:
            return None
        out[k.arg] = k.value
    return out
