"""Affine cursor analysis of utils.Buffer (engine E3, Buffer part; rules R20.a-d).

The cursor field (the integer attribute that `position` returns) is tracked as an affine
form over symbols: I0 (its value at method entry), the method's integer parameters, and one
iteration-count symbol per summarised loop (Karr-style: variables that advance by constants
in a loop keep constant differences).  Methods are analysed with symbolic arguments; call
sites substitute the actual affine arguments.  Exceptions are tracked as raise sets through
try/except.  Nothing is executed.
"""
import ast
import collections

from .model import AnalysisError, norm
from .interp import Interp, Raised, NEXT, BREAK, CONTINUE, strip_doc, Unsupported

TOP = 'TOP'


class Aff:
    """affine form: const + sum coeff*sym ; immutable"""
    __slots__ = ('c', 't')

    def __init__(self, c=0, t=()):
        self.c = c
        self.t = tuple(sorted((s, k) for s, k in dict(t).items() if k != 0))

    @staticmethod
    def sym(s):
        return Aff(0, ((s, 1),))

    def __add__(self, o):
        d = dict(self.t)
        for s, k in o.t:
            d[s] = d.get(s, 0) + k
        return Aff(self.c + o.c, tuple(d.items()))

    def __neg__(self):
        return Aff(-self.c, tuple((s, -k) for s, k in self.t))

    def __sub__(self, o):
        return self + (-o)

    def scale(self, k):
        return Aff(self.c * k, tuple((s, c * k) for s, c in self.t))

    def subst(self, env):
        out = Aff(self.c)
        for s, k in self.t:
            if s in env:
                v = env[s]
                if v is TOP:
                    return TOP
                out = out + v.scale(k)
            else:
                out = out + Aff(0, ((s, k),))
        return out

    def __eq__(self, o):
        return isinstance(o, Aff) and self.c == o.c and self.t == o.t

    def __hash__(self):
        return hash((self.c, self.t))

    def is_const(self):
        return not self.t

    def __repr__(self):
        parts = []
        for s, k in self.t:
            parts.append(('' if k == 1 else '-' if k == -1 else '%d*' % k) + s)
        if self.c or not parts:
            parts.append(str(self.c))
        return '+'.join(parts).replace('+-', '-')


def aadd(a, b):
    return TOP if a is TOP or b is TOP else a + b


def asub(a, b):
    return TOP if a is TOP or b is TOP else a - b


class BSt:
    __slots__ = ('cur', 'vars', 'pc')

    def __init__(self, cur, vars=None, pc=()):
        self.cur, self.vars, self.pc = cur, vars if vars is not None else {}, pc

    def copy(self):
        return BSt(self.cur, dict(self.vars), self.pc)

    def key(self):
        return (self.cur, frozenset(self.vars.items()), self.pc)


BExit = collections.namedtuple('BExit', 'delta ret pc')


class BufferModel:
    def __init__(self, repo):
        self.repo = repo
        self.cls = repo.need_cls('utils.Buffer')
        self.cursor_field, self.queue_field, self.iter_field = self.identify_fields()
        self.summ = {}          # (method, argkinds) -> (exits, raises)
        self.inprog = set()
        self.findings = []
        self.deref_findings = []
        self.notes = []
        self.changed = False

    def identify_fields(self):
        """cursor field = what the `position` property returns; queue = the list appended to in
        __next__; iterator = the field given to next() there"""
        owner, kind, payload = self.cls.lookup('position')
        cf = None
        if kind == 'property' and 'getter' in payload:
            for n in ast.walk(payload['getter'].node):
                if isinstance(n, ast.Return) and isinstance(n.value, ast.Attribute) and isinstance(n.value.value, ast.Name) \
                        and n.value.value.id == 'self':
                    cf = n.value.attr
        if cf is None:
            raise AnalysisError('Buffer.position does not return a field of self')
        owner, kind, nxt = self.cls.lookup('__next__')
        if kind != 'method':
            raise AnalysisError('Buffer.__next__ vanished')
        qf = itf = None
        for n in ast.walk(nxt.node):
            if isinstance(n, ast.Call) and isinstance(n.func, ast.Attribute) and n.func.attr == 'append' \
                    and isinstance(n.func.value, ast.Attribute) and isinstance(n.func.value.value, ast.Name) \
                    and n.func.value.value.id == 'self':
                qf = n.func.value.attr
            if isinstance(n, ast.Call) and isinstance(n.func, ast.Name) and n.func.id == 'next' and n.args \
                    and isinstance(n.args[0], ast.Attribute) and isinstance(n.args[0].value, ast.Name) \
                    and n.args[0].value.id == 'self':
                itf = n.args[0].attr
        if qf is None or itf is None:
            raise AnalysisError('Buffer.__next__: queue/iterator fields not recognised')
        return cf, qf, itf

    def method(self, name):
        owner, kind, payload = self.cls.lookup(name)
        if kind == 'method':
            return payload
        if kind == 'property':
            return payload.get('getter')
        return None

    def summary(self, name, argkinds):
        key = (name, argkinds)
        if key in self.inprog:
            return self.summ.get(key, (set(), set()))
        if key in self.done:
            return self.summ[key]
        fd = self.method(name)
        if fd is None:
            raise AnalysisError('Buffer.%s vanished' % name)
        self.inprog.add(key)
        it = BufInterp(self, fd)
        params = fd.params()[1:]
        vars = {'self': ('self',)}
        for p, k in zip(params, argkinds):
            if k == 'int':
                vars[p] = ('aff', Aff.sym('p:' + p))
            elif k == 'slice':
                vars[p] = ('slice', Aff.sym('p:%s.start' % p), Aff.sym('p:%s.stop' % p))
            elif k == 'range':
                vars[p] = ('pair', Aff.sym('p:%s[0]' % p), Aff.sym('p:%s[1]' % p))
            elif isinstance(k, tuple) and k[0] == 'const':
                vars[p] = k
            else:
                vars[p] = ('unknown', 'p:' + p)
        for p in params[len(argkinds):]:
            d = fd.defaults().get(p)
            if d is not None and isinstance(d, ast.Constant):
                vars[p] = ('aff', Aff(d.value)) if isinstance(d.value, int) and not isinstance(d.value, bool) else ('const', d.value)
            else:
                vars[p] = ('unknown', 'p:' + p)
        st = BSt(Aff.sym('I0'), vars)
        exits, raises = set(), set()
        for out, s1 in it.block(strip_doc(fd.node.body), st):
            d = asub(s1.cur, Aff.sym('I0'))
            if out == NEXT:
                exits.add(BExit(d, ('const', None), s1.pc))
            elif out[0] == 'return':
                exits.add(BExit(d, out[1] if out[1] is not None else ('const', None), s1.pc))
            elif out[0] == 'raise':
                raises.add((out[1], d))
        self.inprog.discard(key)
        old = self.summ.get(key)
        if old != (exits, raises):
            self.changed = True
        self.summ[key] = (exits, raises)
        self.done.add(key)
        return exits, raises

    def solve(self, name, argkinds):
        for _ in range(8):
            self.changed = False
            self.done = set()
            r = self.summary(name, argkinds)
            if not self.changed:
                return r
        raise AnalysisError('Buffer summaries did not stabilise')


class BufInterp(Interp):
    def __init__(self, model, fd):
        super().__init__()
        self.m, self.fd = model, fd

    def where(self, n):
        return 'utils.py:%s' % getattr(n, 'lineno', '?')

    # ---- expressions
    def ev_Constant(self, n, st):
        if isinstance(n.value, int) and not isinstance(n.value, bool):
            return [(('aff', Aff(n.value)), st)]
        return [(('const', n.value), st)]

    def ev_Name(self, n, st):
        if n.id in st.vars:
            return [(st.vars[n.id], st)]
        return [(('global', n.id), st)]

    def ev_Tuple(self, n, st):
        outs = []
        for vals, s1 in self.evs(n.elts, st):
            if isinstance(vals, Raised):
                outs.append((vals, s1))
            elif len(vals) == 2 and all(v[0] == 'aff' for v in vals):
                outs.append((('pair', vals[0][1], vals[1][1]), s1))
            else:
                outs.append((('tuple', tuple(vals)), s1))
        return outs

    def ev_Attribute(self, n, st):
        outs = []
        for v, s1 in self.ev(n.value, st):
            if isinstance(v, Raised):
                outs.append((v, s1))
                continue
            if v[0] == 'self':
                if n.attr == self.m.cursor_field:
                    outs.append((('aff', s1.cur) if s1.cur is not TOP else ('unknown', 'cursor'), s1))
                elif n.attr == self.m.queue_field:
                    outs.append((('queue',), s1))
                elif self.m.method(n.attr) is not None and self.m.cls.lookup(n.attr)[1] == 'property':
                    outs += self.call_method(n.attr, [], s1, n)
                elif self.m.method(n.attr) is not None:
                    outs.append((('bound', n.attr), s1))
                else:
                    outs.append((('field', n.attr), s1))
            elif v[0] == 'slice' and n.attr in ('start', 'stop'):
                a = v[1] if n.attr == 'start' else v[2]
                outs.append((('aff', a) if a is not None else ('const', None), s1))
            elif v[0] == 'maybe_none':
                self.m.deref_findings.append((self.fd, n, 'attribute %r of a single-item peek that may be None' % n.attr))
                outs.append((('unknown', 'attr'), s1))
            elif v[0] == 'unknown' and n.attr in ('start', 'stop'):
                outs.append((('aff', Aff.sym('%s.%s' % (v[1], n.attr))), s1))
            else:
                outs.append((('attr', n.attr, v), s1))
        return outs

    def ev_UnaryOp(self, n, st):
        if isinstance(n.op, ast.Not):
            return [((b if isinstance(b, Raised) else ('const', b)), s1) for b, s1 in self.cond(n, st)]
        outs = []
        for v, s1 in self.ev(n.operand, st):
            if isinstance(v, Raised):
                outs.append((v, s1))
            elif v[0] == 'aff' and isinstance(n.op, ast.USub):
                outs.append((('aff', -v[1]), s1))
            else:
                outs.append((('unknown', 'unary'), s1))
        return outs

    def ev_BinOp(self, n, st):
        outs = []
        for vals, s1 in self.evs([n.left, n.right], st):
            if isinstance(vals, Raised):
                outs.append((vals, s1))
                continue
            l, r = vals
            if l[0] == 'aff' and r[0] == 'aff' and isinstance(n.op, (ast.Add, ast.Sub)):
                outs.append((('aff', l[1] + r[1] if isinstance(n.op, ast.Add) else l[1] - r[1]), s1))
            elif isinstance(n.op, ast.Add) and (l[0] in ('joined', 'const', 'acc') or r[0] in ('joined', 'acc')):
                outs.append((('acc',), s1))
            else:
                outs.append((('unknown', 'binop'), s1))
        return outs

    def ev_BoolOp(self, n, st):
        return [((b if isinstance(b, Raised) else ('const', b)), s1) for b, s1 in self.cond(n, st)]

    def ev_Compare(self, n, st):
        return [((b if isinstance(b, Raised) else ('const', b)), s1) for b, s1 in self.cond(n, st)]

    def ev_Lambda(self, n, st):
        return [(('unknown', 'lambda'), st)]

    def ev_ListComp(self, n, st):
        """[<elt> for _ in range(E)]: the element expression is evaluated E times; if each evaluation moves the
        cursor by a constant d, the cursor moves by d*E (E affine) and raises of one evaluation can occur"""
        if len(n.generators) != 1 or n.generators[0].ifs:
            raise AnalysisError('comprehension shape in Buffer.%s' % self.fd.name)
        g = n.generators[0]
        outs = []
        for it, s0 in self.ev(g.iter, st):
            if isinstance(it, Raised):
                outs.append((it, s0))
                continue
            count = it[1] if it[0] == 'rangeof' else None
            per = self.ev(n.elt, s0)
            deltas = set()
            for v, s1 in per:
                if isinstance(v, Raised):
                    # may raise at any iteration: the cursor has moved by an unknown multiple of d by then
                    s2 = s1.copy()
                    s2.cur = TOP if s1.cur is TOP or s0.cur is TOP else s0.cur + Aff.sym('k@%d' % n.lineno)
                    outs.append((v, s2))
                elif s1.cur is TOP or s0.cur is TOP:
                    deltas.add(None)
                else:
                    d = s1.cur - s0.cur
                    deltas.add(d.c if d.is_const() else None)
            for d in deltas:
                s3 = s0.copy()
                if d is None or count is None:
                    s3.cur = TOP
                    outs.append((('unknown', 'list'), s3))
                else:
                    s3.cur = s0.cur + count.scale(d)
                    first = [v for v, _ in per if not isinstance(v, Raised)]
                    if d == 1 and first and first[0][0] == 'elem' and first[0][1] == s0.cur:
                        outs.append((('qslice', s0.cur, s3.cur), s3))
                    else:
                        outs.append((('unknown', 'list'), s3))
        return outs

    def ev_Subscript(self, n, st):
        outs = []
        sl = n.slice
        for base, s0 in self.ev(n.value, st):
            if isinstance(base, Raised):
                outs.append((base, s0))
                continue
            if isinstance(sl, ast.Slice):
                parts = [x for x in (sl.lower, sl.upper) if x is not None]
                for vals, s1 in self.evs(parts, s0):
                    if isinstance(vals, Raised):
                        outs.append((vals, s1))
                        continue
                    vs = list(vals)
                    lo = vs.pop(0) if sl.lower is not None else None
                    hi = vs.pop(0) if sl.upper is not None else None
                    loa = lo[1] if lo and lo[0] == 'aff' else (TOP if lo else None)
                    hia = hi[1] if hi and hi[0] == 'aff' else (TOP if hi else None)
                    if base[0] == 'self':
                        outs += self.call_method('__getitem__', [('slice', loa, hia)], s1, n)
                    elif base[0] == 'queue':
                        outs.append((('qslice', loa, hia), s1))
                    else:
                        outs.append((('unknown', 'slice'), s1))
                continue
            for idx, s1 in self.ev(sl, s0):
                if isinstance(idx, Raised):
                    outs.append((idx, s1))
                elif base[0] == 'self':
                    outs += self.call_method('__getitem__', [idx], s1, n)
                elif base[0] == 'queue':
                    if idx[0] == 'slice':
                        outs.append((('qslice', idx[1], idx[2]), s1))
                    else:
                        a = idx[1] if idx[0] == 'aff' else TOP
                        outs.append((('elem', a), s1))
                        if not (a is not TOP and ('ltlen', a) in s1.pc):
                            outs.append((Raised('IndexError', n, 'queue index'), s1))
                elif base[0] == 'pair' and idx[0] == 'aff' and idx[1].is_const() and idx[1].c in (0, 1):
                    outs.append((('aff', base[1 + idx[1].c]), s1))
                elif base[0] == 'unknown' and idx[0] == 'aff' and idx[1].is_const():
                    outs.append((('aff', Aff.sym('%s[%d]' % (base[1], idx[1].c))), s1))
                else:
                    outs.append((('unknown', 'subscript'), s1))
        return outs

    def ev_Call(self, n, st):
        f = n.func
        if isinstance(f, ast.Name) and f.id == 'next' and n.args:
            outs = []
            for vals, s1 in self.evs(n.args, st):
                if isinstance(vals, Raised):
                    outs.append((vals, s1))
                elif vals[0][0] == 'self':
                    outs += self.call_method('__next__', [], s1, n)
                else:
                    outs.append((('item',), s1))
                    if len(vals) < 2:
                        outs.append((Raised('StopIteration', n, 'iterator exhausted'), s1))
            return outs
        if isinstance(f, ast.Name) and f.id == 'isinstance' and len(n.args) == 2:
            outs = []
            for v, s1 in self.ev(n.args[0], st):
                ty = norm(n.args[1])
                if isinstance(v, Raised):
                    outs.append((v, s1))
                elif ty == 'int' and v[0] == 'aff':
                    outs.append((('const', True), s1))
                elif ty == 'int' and v[0] in ('slice', 'pair', 'tuple'):
                    outs.append((('const', False), s1))
                else:
                    outs.append((('const', True), s1))
                    outs.append((('const', False), s1))
            return outs
        if isinstance(f, ast.Name) and f.id == 'range' and len(n.args) == 1:
            outs = []
            for v, s1 in self.ev(n.args[0], st):
                if isinstance(v, Raised):
                    outs.append((v, s1))
                elif v[0] == 'aff':
                    outs.append((('rangeof', v[1]), s1))
                else:
                    outs.append((('rangeof', None), s1))
            return outs
        if isinstance(f, ast.Name) and f.id in ('len', 'bool', 'hasattr', 'iter', 'str', 'repr'):
            outs = []
            for vals, s1 in self.evs(n.args, st):
                if isinstance(vals, Raised):
                    outs.append((vals, s1))
                elif f.id == 'len':
                    v = vals[0]
                    outs.append((('aff', Aff.sym('len(%s)' % (v[1] if v[0] in ('unknown', 'global') else v[0]))), s1))
                elif f.id == 'bool':
                    outs.append((('boolof', vals[0]), s1))
                else:
                    outs.append((('unknown', f.id), s1))
            return outs
        outs = []
        for fv, s0 in self.ev(f, st):
            if isinstance(fv, Raised):
                outs.append((fv, s0))
                continue
            for vals, s1 in self.evs(list(n.args) + [k.value for k in n.keywords], s0):
                if isinstance(vals, Raised):
                    outs.append((vals, s1))
                    continue
                if fv[0] == 'bound':
                    if n.keywords:
                        raise AnalysisError('keyword call of Buffer.%s inside Buffer' % fv[1])
                    outs += self.call_method(fv[1], list(vals), s1, n)
                elif fv[0] == 'field':
                    if any(v[0] == 'self' for v in vals):
                        raise AnalysisError('Buffer passes itself to a callable field at %s' % self.where(n))
                    if fv[1].strip('_').startswith('join') and vals and vals[0][0] == 'qslice':
                        outs.append((('joined', vals[0][1], vals[0][2]), s1))
                    else:
                        outs.append((('made',), s1))
                elif fv[0] == 'attr' and fv[1] == 'append' and fv[2][0] == 'queue':
                    outs.append((('const', None), s1))
                elif fv[0] == 'attr':
                    # method of a returned value, e.g. peek(range).startswith(s)
                    if fv[2][0] == 'maybe_none':
                        self.m.deref_findings.append((self.fd, n, 'method %r of a single-item peek that may be None' % fv[1]))
                    outs.append((('unknown', 'method result'), s1))
                elif fv[0] in ('unknown', 'global'):
                    if any(v[0] == 'self' for v in vals):
                        # condition(self): callable parameter given the buffer -- unknown movement
                        s2 = s1.copy()
                        s2.cur = TOP if fv[0] == 'global' else s2.cur
                        self.m.notes.append('callable parameter %s receives the buffer in %s' % (norm(f), self.fd.qual))
                        outs.append((('unknown', 'callable result'), s2))
                    else:
                        outs.append((('unknown', 'call'), s1))
                else:
                    outs.append((('unknown', 'call'), s1))
        return outs

    def call_method(self, name, args, st, n):
        kinds = []
        env = {}
        fd = self.m.method(name)
        if fd is None:
            raise AnalysisError('Buffer.%s vanished' % name)
        params = fd.params()[1:]
        for p, a in zip(params, args):
            if a[0] == 'aff':
                kinds.append('int')
                env['p:' + p] = a[1]
            elif a[0] == 'slice':
                kinds.append('slice')
                env['p:%s.start' % p] = a[1] if a[1] is not None else TOP
                env['p:%s.stop' % p] = a[2] if a[2] is not None else TOP
            elif a[0] == 'pair':
                kinds.append('range')
                env['p:%s[0]' % p] = a[1]
                env['p:%s[1]' % p] = a[2]
            elif a[0] == 'const':
                kinds.append(a)
            else:
                kinds.append('other')
        exits, raises = self.m.summary(name, tuple(kinds))
        outs = []
        env['I0'] = st.cur
        for ex in exits:
            s = st.copy()
            s.cur = self.apply_delta(st.cur, ex.delta, env)
            facts = set(st.pc)
            for f in ex.pc:
                if f[0] in ('neg', 'nonneg') and isinstance(f[1], Aff):
                    a = f[1].subst(env)
                    if a is not TOP:
                        facts.add((f[0], a))
            s.pc = tuple(sorted(facts, key=repr))
            if contradictory(s.pc):
                continue
            outs.append((self.subst_val(ex.ret, env), s))
        for exc, d in raises:
            s = st.copy()
            s.cur = self.apply_delta(st.cur, d, env)
            outs.append((Raised(exc, n, 'from Buffer.%s' % name), s))
        return outs

    @staticmethod
    def apply_delta(cur, delta, env):
        if cur is TOP or delta is TOP:
            return TOP
        d = delta.subst(env)
        if d is TOP:
            return TOP
        return cur + d

    def subst_val(self, v, env):
        def sub(a):
            if a is None or a is TOP:
                return a
            return a.subst(env)
        t = v[0]
        if t == 'aff':
            r = sub(v[1])
            return ('aff', r) if r is not TOP else ('unknown', 'int')
        if t in ('joined', 'qslice', 'slice'):
            return (t, sub(v[1]), sub(v[2]))
        if t == 'elem':
            return ('elem', sub(v[1]))
        if t == 'boolof':
            return ('boolof', self.subst_val(v[1], env))
        return v

    # ---- conditions
    def truth(self, v, st):
        if v[0] == 'const':
            return [(bool(v[1]), st)]
        if v[0] == 'boolof':
            return self.truth(v[1], st)
        return [(True, st), (False, st)]

    def atom(self, n, st):
        if isinstance(n, ast.Compare) and len(n.ops) == 1:
            outs = []
            for vals, s1 in self.evs([n.left, n.comparators[0]], st):
                if isinstance(vals, Raised):
                    outs.append((vals, s1))
                    continue
                l, r = vals
                op = n.ops[0]
                if l[0] == 'aff' and r[0] == 'aff':
                    d = l[1] - r[1]
                    if d.is_const():
                        res = {ast.Lt: d.c < 0, ast.LtE: d.c <= 0, ast.Gt: d.c > 0, ast.GtE: d.c >= 0,
                               ast.Eq: d.c == 0, ast.NotEq: d.c != 0}.get(type(op))
                        if res is not None:
                            outs.append((res, s1))
                            continue
                    # undetermined: remember what each outcome implies (sign facts, length facts)
                    for b in (True, False):
                        s2 = s1.copy()
                        facts = self.facts_of(op, l[1], r[1], b)
                        s2.pc = tuple(sorted(set(s2.pc) | set(facts), key=repr))
                        if not contradictory(s2.pc):
                            outs.append((b, s2))
                    continue
                if isinstance(op, (ast.Is, ast.IsNot)) and r == ('const', None):
                    if l[0] == 'aff' or l[0] in ('joined', 'elem', 'queue', 'self'):
                        outs.append((isinstance(op, ast.IsNot), s1))
                        continue
                    if l[0] == 'const':
                        outs.append(((l[1] is None) == isinstance(op, ast.Is), s1))
                        continue
                outs += [(True, s1), (False, s1.copy())]
            return outs
        return super().atom(n, st)

    @staticmethod
    def facts_of(op, l, r, truth):
        """facts implied by (l op r) == truth:  ('neg', A): A < 0 ; ('nonneg', A): A >= 0 ;
        ('ltlen', A): A < len(queue)"""
        qlen = Aff.sym('len(queue)')
        t = type(op)
        if not truth:
            t = {ast.Lt: ast.GtE, ast.GtE: ast.Lt, ast.Gt: ast.LtE, ast.LtE: ast.Gt, ast.Eq: ast.NotEq,
                 ast.NotEq: ast.Eq}.get(t)
        out = []
        if t is ast.Lt:
            out.append(('neg', l - r))
            if r == qlen:
                out.append(('ltlen', l))
        elif t is ast.GtE:
            out.append(('nonneg', l - r))
            if l == qlen:
                out.append(('ltlen', r - Aff(1)))
        elif t is ast.Gt:
            out.append(('neg', r - l))
            if l == qlen:
                out.append(('ltlen', r))
        elif t is ast.LtE:
            out.append(('nonneg', r - l))
            if r == qlen:
                out.append(('ltlen', l - Aff(1)))
        return out

    # ---- statements
    def assign(self, target, val, st):
        if isinstance(target, ast.Name):
            s = st.copy()
            s.vars[target.id] = val
            return [s]
        if isinstance(target, (ast.Tuple, ast.List)):
            vals = None
            if val[0] == 'tuple' and len(val[1]) == len(target.elts):
                vals = list(val[1])
            elif val[0] == 'pair' and len(target.elts) == 2:
                vals = [('aff', val[1]), ('aff', val[2])]
            states = [st]
            for i, e in enumerate(target.elts):
                v = vals[i] if vals else ('unknown', 'unpack')
                states = [s2 for s1 in states for s2 in self.assign(e, v, s1)]
            return states
        if isinstance(target, ast.Attribute) and isinstance(target.value, ast.Name) and target.value.id == 'self':
            s = st.copy()
            if target.attr == self.m.cursor_field:
                s.cur = val[1] if val[0] == 'aff' else TOP
            elif target.attr == self.m.queue_field:
                self.m.findings.append(('queue-write', self.fd, target, 'the item queue is rebound'))
            return [s]
        if isinstance(target, ast.Subscript):
            return [st]
        raise AnalysisError('assignment target %s in Buffer.%s' % (norm(target), self.fd.name))

    def aug_assign(self, n, st):
        outs = []
        for v, s1 in self.ev(n.value, st):
            if isinstance(v, Raised):
                outs.append((v, s1))
                continue
            s = s1.copy()
            t = n.target
            if isinstance(t, ast.Attribute) and isinstance(t.value, ast.Name) and t.value.id == 'self' \
                    and t.attr == self.m.cursor_field:
                if v[0] == 'aff' and isinstance(n.op, (ast.Add, ast.Sub)) and s.cur is not TOP:
                    s.cur = s.cur + v[1] if isinstance(n.op, ast.Add) else s.cur - v[1]
                else:
                    s.cur = TOP
            elif isinstance(t, ast.Name):
                old = s.vars.get(t.id, ('unknown', t.id))
                if old[0] == 'aff' and v[0] == 'aff' and isinstance(n.op, (ast.Add, ast.Sub)):
                    s.vars[t.id] = ('aff', old[1] + v[1] if isinstance(n.op, ast.Add) else old[1] - v[1])
                elif isinstance(n.op, ast.Add) and v[0] in ('joined', 'acc', 'unknown', 'made'):
                    s.vars[t.id] = ('acc',)
                else:
                    s.vars[t.id] = ('unknown', t.id)
            outs.append((('const', None), s))
        return outs

    def st_While(self, n, st):
        """Karr-style loop summary: if every path through the body changes the cursor and the
        integer locals by constants, the loop head invariant is head + k*delta for a fresh k."""
        probe = self.block(n.body, self._assume(n.test, st))
        deltas = set()
        ok = True
        for out, s1 in probe:
            if out in (NEXT, CONTINUE):
                if s1.cur is TOP or st.cur is TOP:
                    ok = False
                    break
                dc = s1.cur - st.cur
                dv = []
                for k, v in s1.vars.items():
                    v0 = st.vars.get(k)
                    if v != v0:
                        if v[0] == 'aff' and v0 is not None and v0[0] == 'aff' and (v[1] - v0[1]).is_const():
                            dv.append((k, (v[1] - v0[1]).c))
                        elif v[0] in ('acc', 'unknown', 'made', 'item', 'joined', 'elem', 'const'):
                            dv.append((k, None))
                        else:
                            dv.append((k, None))
                if not dc.is_const():
                    ok = False
                    break
                deltas.add((dc.c, tuple(sorted(dv, key=str))))
        if not ok or len(deltas) > 1:
            # no affine invariant: cursor and modified locals unknown at the head
            head = st.copy()
            head.cur = TOP
            for out, s1 in probe:
                for k, v in s1.vars.items():
                    if st.vars.get(k) != v:
                        head.vars[k] = ('unknown', k)
        elif not deltas:
            head = st
        else:
            dc, dv = next(iter(deltas))
            ksym = Aff.sym('k@%d' % n.lineno)
            head = st.copy()
            head.cur = st.cur + ksym.scale(dc)
            for k, d in dv:
                if d is None:
                    head.vars[k] = ('acc',) if st.vars.get(k, ('x',))[0] in ('acc', 'const') else ('unknown', k)
                else:
                    head.vars[k] = ('aff', st.vars[k][1] + ksym.scale(d))
        outs = []
        # exit by test false (from the head invariant), body outcomes from the head invariant
        for b, s1 in self.cond(n.test, head):
            if isinstance(b, Raised):
                outs.append((('raise', b.exc, b), s1))
            elif not b:
                outs.append((NEXT, s1))
            else:
                for out, s2 in self.block(n.body, s1):
                    if out in (NEXT, CONTINUE):
                        continue        # back to the head: covered by the invariant
                    if out == BREAK:
                        outs.append((NEXT, s2))
                    else:
                        outs.append((out, s2))
        return outs

    def _assume(self, test, st):
        return st

    def on_for(self, n, st):
        """for _ in range(E): <body>  -- the body runs E times; if each run moves the cursor by a constant d the loop
        moves it by d*E, and a raise of one run can occur after an unknown number of runs (same summary as the
        comprehension form)"""
        if n.orelse or not (isinstance(n.iter, ast.Call) and isinstance(n.iter.func, ast.Name) and n.iter.func.id == 'range'
                            and len(n.iter.args) == 1) or any(isinstance(x, (ast.Break, ast.Continue, ast.Return)) for x in ast.walk(n)):
            raise AnalysisError('for loop in Buffer.%s' % self.fd.name)
        if not isinstance(n.target, ast.Name) or any(isinstance(x, ast.Name) and x.id == n.target.id and x is not n.target
                                                     for s_ in n.body for x in ast.walk(s_)):
            raise AnalysisError('for loop in Buffer.%s uses its counter' % self.fd.name)
        outs = []
        for it, s0 in self.ev(n.iter, st):
            if isinstance(it, Raised):
                outs.append((('raise', it.exc, it), s0))
                continue
            count = it[1] if it[0] == 'rangeof' else None
            deltas = set()
            for out, s1 in self.block(n.body, s0.copy()):
                if out == NEXT:
                    if s1.cur is TOP or s0.cur is TOP:
                        deltas.add(None)
                    else:
                        d = s1.cur - s0.cur
                        deltas.add(d.c if d.is_const() else None)
                elif isinstance(out, tuple) and out and out[0] == 'raise':
                    s2 = s1.copy()
                    s2.cur = TOP if s1.cur is TOP or s0.cur is TOP else s0.cur + Aff.sym('k@%d' % n.lineno)
                    outs.append((out, s2))
                else:
                    raise AnalysisError('for loop in Buffer.%s leaves with %s' % (self.fd.name, out))
            for d in deltas or {0}:
                s3 = s0.copy()
                if d is None or count is None:
                    s3.cur = TOP
                else:
                    s3.cur = s0.cur + count.scale(d)
                outs.append((NEXT, s3))
        return outs

    def on_nested_def(self, n, st):
        return [(NEXT, st)]


def contradictory(pc):
    facts = set(pc)
    for f in facts:
        if f[0] == 'neg':
            if ('nonneg', f[1]) in facts or ('neg', -f[1]) in facts:
                return True
            if f[1].is_const() and f[1].c >= 0:
                return True
        if f[0] == 'nonneg' and f[1].is_const() and f[1].c < 0:
            return True
    return False


def analyse(repo):
    m = BufferModel(repo)
    return m
