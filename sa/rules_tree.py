"""Data-model rules (data.py): views (R04.*), search (R03.*), edits (R05.*, R15.*), renaming
(R14.*).  Class-lattice predicates are evaluated over the folded class hierarchy."""
import ast

from .model import AnalysisError, Unfoldable, Folder, ClassRef, norm, resolve_locals
from .core import RuleResult, Finding
from .interp import strip_doc
from .symexpr import SymEval
from .bufmodel import Aff


def _m(cls, name, kind=None):
    fds = cls.methods.get(name)
    if not fds:
        raise AnalysisError('%s.%s vanished' % (cls.name, name))
    if kind == 'getter':
        for fd in fds:
            if 'property' in fd.decorators:
                return fd
    if kind == 'setter':
        for fd in fds:
            if any(d.endswith('.setter') for d in fd.decorators):
                return fd
        raise AnalysisError('%s.%s has no setter' % (cls.name, name))
    return fds[-1] if kind is None else fds[0]


def _private(cls, name):
    """name-mangled private method (e.g. __descendants)"""
    for k, v in cls.methods.items():
        if k.startswith('__') and not k.endswith('__') and k.lstrip('_') == name.lstrip('_'):
            return v[-1]
    raise AnalysisError('%s.%s vanished' % (cls.name, name))


def _isinstance_classes(repo, module, node):
    """classes named in isinstance(x, C) / isinstance(x, (C1, C2)) calls inside node -> list of (var text, [names])"""
    out = []
    for n in ast.walk(node):
        if isinstance(n, ast.Call) and isinstance(n.func, ast.Name) and n.func.id == 'isinstance' and len(n.args) == 2:
            t = n.args[1]
            names = [norm(e) for e in t.elts] if isinstance(t, ast.Tuple) else [norm(t)]
            out.append((norm(n.args[0]), names, n))
    return out


def _parents(n):
    p = getattr(n, '_parent', None)
    while p is not None:
        yield p
        p = getattr(p, '_parent', None)


def _enclosing_name(n):
    names = [p.name for p in _parents(n) if isinstance(p, (ast.FunctionDef, ast.ClassDef))]
    return '.'.join(reversed(names)) or '<module>'


def _expr_classes(repo):
    texexpr = repo.need_cls('data.TexExpr')
    return texexpr, [c for c in repo.modules['data'].classes.values() if c.is_subclass_of(texexpr)]


def _admits(repo, module, names, cinfo):
    for nm in names:
        r = repo.resolve(module, nm)
        if r and r[0] == 'class' and cinfo.is_subclass_of(r[1]):
            return True
    return False


# =========================================================================== views (C04 / C03)

def r04_a(ctx):
    repo = ctx.repo
    data = repo.modules['data']
    texexpr, classes = _expr_classes(repo)
    node = repo.need_cls('data.TexNode')
    rr = RuleResult('R04.a', 'view predicates over the class lattice: `contents` drops only whitespace-only text, '
                    '`children` admits exactly the non-text expression classes, `all` admits everything, none reorders',
                    floor=8)
    text_cls = repo.need_cls('data.TexText')
    containers = [c for c in classes if c is not text_cls and c is not texexpr]
    # --- expression-level children: filter over self.contents with an isinstance predicate
    fd = _m(texexpr, 'children', 'getter')
    iss = _isinstance_classes(repo, data, fd.node)
    src_ok = any(norm(x) in ('self.contents', 'self.all') for x in ast.walk(fd.node))
    if len(iss) != 1:
        rr.ob(False)
        rr.fail(Finding('R04.a', 'data', fd.qual, 'children predicate', 'the children view is not a single class '
                        'predicate over the contents view', line=fd.node.lineno))
    else:
        var, names, call = iss[0]
        for c in containers:
            ok = _admits(repo, data, names, c)
            rr.ob(ok, {'view': 'children', 'class': c.name, 'admitted': ok})
            if not ok:
                rr.fail(Finding('R04.a', 'data', fd.qual, call, 'the children view does not admit %s: nodes of that class '
                                'are not recursed into, so their descendants are invisible to search and navigation'
                                % c.name, line=call.lineno))
        okt = not _admits(repo, data, names, text_cls)
        rr.ob(okt, {'view': 'children', 'class': 'TexText', 'admitted': not okt})
        if not okt:
            rr.fail(Finding('R04.a', 'data', fd.qual, call, 'the children view admits text', line=call.lineno))
        rr.ob(src_ok, {'view': 'children', 'derived_from': 'self.contents'})
        if not src_ok:
            rr.fail(Finding('R04.a', 'data', fd.qual, 'children source', 'children is not derived from contents',
                            line=fd.node.lineno))
    # --- expression-level contents: loop over self.all, unwrap text, drop whitespace-only strings
    fd = _m(texexpr, 'contents', 'getter')
    loops = [n for n in ast.walk(fd.node) if isinstance(n, ast.For)]
    ok_loop = len(loops) == 1 and norm(loops[0].iter) == 'self.all'
    rr.ob(ok_loop, {'view': 'contents', 'iterates': norm(loops[0].iter) if loops else None})
    if not ok_loop:
        rr.fail(Finding('R04.a', 'data', fd.qual, loops[0].iter if loops else 'contents loop', 'the contents view does '
                        'not enumerate the complete content list', line=fd.node.lineno))
    else:
        lp = loops[0]
        var = lp.target.id if isinstance(lp.target, ast.Name) else None
        # decided by truth table over the atoms of the loop body (however the condition is spelled): an element is
        # yielded, once and as itself, exactly when  not (isinstance(x, str) and x.isspace()) or self.preserve_whitespace
        from . import boolpath
        problem = None
        try:
            atoms, table = boolpath.yield_table(lp.body)
        except boolpath.NotStructured as e:
            raise AnalysisError('TexExpr.contents: loop body not decidable (%s)' % e)
        # the yielded element: the loop variable itself (possibly rebound to its text), or a local computed from it
        ynames = {norm(y) for ys in table.values() for y in ys}
        elem = var
        if len(ynames) == 1 and next(iter(ynames)) != var:
            cand = next(iter(ynames))
            defs = [n for n in ast.walk(lp) if isinstance(n, ast.Assign) and len(n.targets) == 1 and norm(n.targets[0]) == cand]
            if len(defs) == 1 and all(x.id == var or (repo.resolve(data, x.id) or ('',))[0] == 'class' or x.id == 'isinstance'
                                      for x in ast.walk(defs[0].value) if isinstance(x, ast.Name)) \
                    and any(isinstance(x, ast.Name) and x.id == var for x in ast.walk(defs[0].value)):
                elem = cand
        P, Q, R = 'isinstance(%s, str)' % elem, '%s.isspace()' % elem, 'self.preserve_whitespace'
        var = elem
        if P not in atoms or Q not in atoms:
            problem = 'no whitespace-only test on the element'
        else:
            for bits, ys in table.items():
                val = dict(zip(atoms, bits))
                want = (not (val[P] and val[Q])) or val.get(R, False)
                got = len(ys)
                if got != (1 if want else 0):
                    problem = 'with %s the element is %s' % (
                        ', '.join('%s=%s' % (a, val[a]) for a in (P, Q, R) if a in val),
                        'dropped' if got == 0 else 'yielded %d times' % got)
                    break
                if ys and norm(ys[0]) != var:
                    problem = 'yields %s instead of the element' % norm(ys[0])
                    break
        rr.ob(problem is None, {'view': 'contents', 'atoms': atoms, 'yield_condition': 'not (%s and %s) or %s' % (P, Q, R)})
        if problem is not None:
            rr.fail(Finding('R04.a', 'data', fd.qual, 'contents filter: %s' % problem,
                            'the contents view drops something other than whitespace-only text (or keeps it): it is no '
                            'longer the complete content list without blank text (%s)' % problem, line=fd.node.lineno))
    # --- the views are defined once for the whole expression lattice: an override in a subclass is held to the same rule
    for c in classes:
        if c is texexpr:
            continue
        for view in ('all', 'contents', 'children'):
            for ofd in c.methods.get(view, []):
                if 'property' not in ofd.decorators:
                    continue
                body = [x for x in ofd.node.body if not (isinstance(x, ast.Expr) and isinstance(x.value, ast.Constant))]
                if len(body) == 1 and isinstance(body[0], ast.Return) and body[0].value is not None \
                        and norm(body[0].value) in ('super().%s' % view, 'super(%s, self).%s' % (c.name, view)):
                    rr.ob(True, {'view': '%s.%s' % (c.name, view), 'override': 'delegates to the base view'})
                    continue
                if view != 'children':
                    raise AnalysisError('%s.%s: an override of the %s view is not a recognised shape' % (c.name, view, view))
                srcs = {norm(x) for x in ast.walk(ofd.node) if isinstance(x, ast.Attribute) and isinstance(x.value, ast.Name)
                        and x.value.id == 'self' and x.attr in ('contents', 'all', '_contents', 'args')}
                srcs |= {norm(x) for x in ast.walk(ofd.node) if isinstance(x, ast.Attribute) and norm(x) == 'super().children'}
                whole = srcs and srcs <= {'self.contents', 'self.all', 'super().children'}
                partial = srcs & {'self._contents', 'self.args'}
                if not whole and not partial:
                    raise AnalysisError('%s.children: the source of the overriding view is not recognised' % c.name)
                rr.ob(bool(whole), {'view': '%s.children' % c.name, 'override_derived_from': sorted(srcs)})
                if not whole:
                    rr.fail(Finding('R04.a', 'data', ofd.qual, 'children of %s derived from %s' % (c.name, ', '.join(sorted(srcs))),
                                    'the children view of %s is derived from %s instead of the contents view: children is no '
                                    'longer contents without text, and what sits in the argument groups (or the body) is not '
                                    'recursed into by descendants and search' % (c.name, ', '.join(sorted(partial))),
                                    line=ofd.node.lineno))
                    continue
                oiss = _isinstance_classes(repo, data, ofd.node)
                if len(oiss) != 1:
                    raise AnalysisError('%s.children: the overriding view is not a single class predicate' % c.name)
                ovar, onames, ocall = oiss[0]
                for k in containers:
                    okk = _admits(repo, data, onames, k)
                    rr.ob(okk, {'view': '%s.children' % c.name, 'class': k.name, 'admitted': okk})
                    if not okk:
                        rr.fail(Finding('R04.a', 'data', ofd.qual, ocall, 'the children view of %s does not admit %s'
                                        % (c.name, k.name), line=ocall.lineno))
                if _admits(repo, data, onames, text_cls):
                    rr.fail(Finding('R04.a', 'data', ofd.qual, ocall, 'the children view of %s admits text' % c.name,
                                    line=ocall.lineno))
    # whitespace is dropped for every node the parser builds: the keep-whitespace flag is set only by the
    # constructor from its (default False) parameter, and no parser call turns it on
    flag_writes = []
    for m in repo.modules.values():
        for n in ast.walk(m.tree):
            if isinstance(n, (ast.Assign, ast.AugAssign)):
                for t in (n.targets if isinstance(n, ast.Assign) else [n.target]):
                    if isinstance(t, ast.Attribute) and t.attr == 'preserve_whitespace':
                        flag_writes.append((m, n))
            if isinstance(n, ast.Call) and m.name in ('reader', 'tex', '__init__', 'tokens'):
                for k in n.keywords:
                    if k.arg == 'preserve_whitespace' and not (isinstance(k.value, ast.Constant) and k.value.value is False):
                        flag_writes.append((m, n))
    for m, n in flag_writes:
        in_ctor = any(isinstance(p_, ast.FunctionDef) and p_.name == '__init__' for p_ in _parents(n))
        ok = m.name == 'data' and in_ctor and isinstance(n, ast.Assign) and norm(n.value) == 'preserve_whitespace'
        rr.ob(ok, {'keep_whitespace_flag_set_by': '%s:%s' % (m.name, norm(n)[:60])})
        if not ok:
            rr.fail(Finding('R04.a', m.name, _enclosing_name(n), n, 'the keep-whitespace flag of a node is set outside the '
                            'constructor default: for such nodes the contents view keeps whitespace-only text, so '
                            'contents/children/text are no longer the complete list without blank text', line=n.lineno))
    # no view sorts / reverses / dedups
    for cls, names in ((texexpr, ('all', 'children', 'contents')), (node, ('all', 'children', 'contents', 'text'))):
        for nm in names:
            fd = _m(cls, nm, 'getter')
            bad = [n for n in ast.walk(fd.node) if isinstance(n, ast.Call) and norm(n.func) in ('sorted', 'reversed', 'set', 'frozenset')
                   or (isinstance(n, ast.Call) and isinstance(n.func, ast.Attribute) and n.func.attr in ('sort', 'reverse'))]
            rr.ob(not bad, {'view': '%s.%s' % (cls.name, nm), 'keeps_order': not bad})
            for b in bad:
                rr.fail(Finding('R04.a', 'data', fd.qual, b, 'the view %s reorders or deduplicates its elements' % nm,
                                line=b.lineno))
    return rr


def _emission_sources(stmts):
    """ordered list of what a generator body emits: ('each', <iterable expr>, inner) for `for x in X: yield x` /
    `yield from X`; inner = the nested emission sources when the loop body itself loops"""
    out = []
    for s in stmts:
        if isinstance(s, ast.Expr) and isinstance(s.value, ast.YieldFrom):
            out.append(('each', s.value.value, None))
        elif isinstance(s, ast.For):
            tv = norm(s.target)
            direct = [x for x in s.body if isinstance(x, ast.Expr) and isinstance(x.value, ast.Yield) and norm(x.value.value) == tv]
            inner = _emission_sources(s.body)
            if direct and len(s.body) == 1:
                out.append(('each', s.iter, None))
            elif inner:
                out.append(('nested', s.iter, (tv, inner)))
            else:
                out.append(('other', s, None))
        elif isinstance(s, ast.Expr) and isinstance(s.value, ast.Constant):
            continue
        elif any(isinstance(x, (ast.Yield, ast.YieldFrom)) for x in ast.walk(s)):
            out.append(('other', s, None))
    return out


def r04_b(ctx):
    repo = ctx.repo
    texexpr, _ = _expr_classes(repo)
    rr = RuleResult('R04.b', 'the complete content list enumerates the contents of every argument group and then the '
                    'node\'s own content list', floor=2)
    fd = _m(texexpr, 'all', 'getter')
    srcs = _emission_sources(strip_doc(fd.node.body))
    if any(k == 'other' for k, _, _ in srcs):
        raise AnalysisError('TexExpr.all: emission shape not recognised')
    descr = []
    for k, it, inner in srcs:
        if k == 'each':
            descr.append(norm(it))
        else:
            tv, inn = inner
            descr.append('%s -> %s' % (norm(it), ','.join(norm(x[1]).replace(tv + '.', '<group>.') for x in inn if x[0] == 'each')))
    args_idx = [i for i, d in enumerate(descr) if d == 'self.args -> <group>.contents']
    own_idx = [i for i, d in enumerate(descr) if d.startswith('self._') and 'content' in d and '->' not in d]
    ok_args = bool(args_idx)
    rr.ob(ok_args, {'argument_groups_enumerated': ok_args, 'emits': descr})
    if not ok_args:
        rr.fail(Finding('R04.b', 'data', fd.qual, 'argument groups in TexExpr.all', 'the complete content list does not '
                        'enumerate the contents of the argument groups: commands inside arguments are invisible to '
                        'search and navigation', line=fd.node.lineno))
    ok_own = bool(own_idx)
    rr.ob(ok_own, {'own_contents_enumerated': ok_own})
    if not ok_own:
        rr.fail(Finding('R04.b', 'data', fd.qual, 'own content list in TexExpr.all', 'the complete content list does not '
                        'enumerate the node\'s own content list', line=fd.node.lineno))
    if ok_args and ok_own:
        order = args_idx[0] < own_idx[0] and len(descr) == 2
        rr.ob(order, {'arguments_then_contents_only': order})
        if not order:
            rr.fail(Finding('R04.b', 'data', fd.qual, 'order of TexExpr.all: %s' % descr, 'the complete content list is not '
                            'exactly the argument contents followed by the body: document order is lost or elements are '
                            'repeated', line=fd.node.lineno))
    return rr


def _wiring_helpers(repo):
    """module-level functions of data.py that build a node wrapper of one parameter and set its parent to
    another parameter before returning it: name -> (parent param index, expr param index)"""
    out = {}
    for fd in repo.modules['data'].functions.values():
        ps = fd.params()
        built = wired = None
        ret = None
        for s in strip_doc(fd.node.body):
            if isinstance(s, ast.Assign) and isinstance(s.value, ast.Call) and norm(s.value.func) == 'TexNode' \
                    and isinstance(s.targets[0], ast.Name) and s.value.args and isinstance(s.value.args[0], ast.Name) \
                    and s.value.args[0].id in ps:
                built = (s.targets[0].id, s.value.args[0].id)
            elif isinstance(s, ast.Assign) and isinstance(s.targets[0], ast.Attribute) and s.targets[0].attr == 'parent' \
                    and built and norm(s.targets[0].value) == built[0] and isinstance(s.value, ast.Name) and s.value.id in ps:
                wired = s.value.id
            elif isinstance(s, ast.Return) and built and isinstance(s.value, ast.Name) and s.value.id == built[0]:
                ret = True
        if built and wired and ret:
            out[fd.name] = (ps.index(wired), ps.index(built[1]))
    return out


def r04_c(ctx):
    repo = ctx.repo
    node = repo.need_cls('data.TexNode')
    rr = RuleResult('R04.c', 'every wrapper a node view hands out has its parent set to the node it was reached from, '
                    'before it is yielded', floor=3)
    helpers = _wiring_helpers(repo)
    for nm, src in (('all', 'self.expr.all'), ('children', 'self.expr.children'), ('contents', 'self.expr.contents')):
        if view_decided(ctx, rr, 'R04.c', 'TexNode', nm, 'wrappers are handed out without their parent, or the view does not '
                        'mirror the expression view'):
            continue
        fd = _m(node, nm, 'getter')
        loops = [n for n in ast.walk(fd.node) if isinstance(n, ast.For)]
        ok_src = len(loops) == 1 and norm(loops[0].iter) == src
        rr.ob(ok_src, {'view': nm, 'iterates': norm(loops[0].iter) if loops else None})
        if not ok_src:
            if len(loops) != 1:
                raise AnalysisError('TexNode.%s: view shape not recognised' % nm)
            rr.fail(Finding('R04.c', 'data', fd.qual, loops[0].iter, 'the node view %s is not derived '
                            'from the expression view %s' % (nm, src), line=fd.node.lineno))
            continue
        tv = norm(loops[0].target)
        bad = []
        stats = {'built': 0}

        def wired_call(v):
            """a call of a wiring helper with parent=self and the loop element"""
            if isinstance(v, ast.Call) and isinstance(v.func, ast.Name) and v.func.id in helpers:
                pi, ei = helpers[v.func.id]
                if len(v.args) > max(pi, ei):
                    stats['built'] += 1
                    return norm(v.args[pi]) == 'self'
            return None

        def check(stmts):
            built, wired = {}, set()
            for s in stmts:
                if isinstance(s, ast.Assign) and isinstance(s.targets[0], ast.Name) and isinstance(s.value, ast.Call):
                    if norm(s.value.func) == 'TexNode':
                        built[s.targets[0].id] = s
                        stats['built'] += 1
                        wired.discard(s.targets[0].id)
                    else:
                        w = wired_call(s.value)
                        if w is not None:
                            built[s.targets[0].id] = s
                            if w:
                                wired.add(s.targets[0].id)
                elif isinstance(s, ast.Assign) and isinstance(s.targets[0], ast.Attribute) and s.targets[0].attr == 'parent' \
                        and isinstance(s.targets[0].value, ast.Name) and norm(s.value) == 'self':
                    wired.add(s.targets[0].value.id)
                elif isinstance(s, ast.Expr) and isinstance(s.value, ast.Yield):
                    v = s.value.value
                    if isinstance(v, ast.Name) and v.id in built and v.id not in wired:
                        bad.append(s)
                    elif isinstance(v, ast.Call) and norm(v.func) == 'TexNode':
                        stats['built'] += 1
                        bad.append(s)
                    elif isinstance(v, ast.Call):
                        w = wired_call(v)
                        if w is False:
                            bad.append(s)
                        elif w is None and norm(v) != tv:
                            raise AnalysisError('TexNode.%s yields %s: not recognised' % (nm, norm(v)[:40]))
                elif isinstance(s, ast.If):
                    check(s.body)
                    check(s.orelse)
        check(loops[0].body)
        n_built = stats['built']
        rr.ob(not bad and n_built >= 1, {'view': nm, 'wrappers_built': n_built, 'unwired_yields': len(bad)})
        for b_ in bad:
            rr.fail(Finding('R04.c', 'data', fd.qual, b_, 'the view %s yields a wrapper whose parent is not set: walking '
                            'parents from it does not reach the root' % nm, line=b_.lineno))
        if n_built == 0:
            rr.fail(Finding('R04.c', 'data', fd.qual, 'no wrapper built in %s' % nm, 'the node view %s hands out bare '
                            'expressions' % nm, line=fd.node.lineno))
    return rr


def r04_d(ctx):
    repo = ctx.repo
    node = repo.need_cls('data.TexNode')
    rr = RuleResult('R04.d', 'iteration and indexing of a node follow its contents view', floor=2)
    fd = _m(node, '__iter__')
    rets = [n for n in ast.walk(fd.node) if isinstance(n, ast.Return)]
    ok = len(rets) == 1 and norm(rets[0].value) in ('iter(self.contents)', 'iter(list(self.contents))')
    rr.ob(ok, {'__iter__': norm(rets[0].value) if rets else None})
    if not ok:
        rr.fail(Finding('R04.d', 'data', fd.qual, rets[0] if rets else '__iter__', 'iterating a node does not follow its '
                        'contents view', line=fd.node.lineno))
    fd = _m(node, '__getitem__')
    rets = [n for n in ast.walk(fd.node) if isinstance(n, ast.Return)]
    ip = fd.params()[1]
    ok = len(rets) == 1 and norm(rets[0].value) in ('list(self.contents)[%s]' % ip, 'self.contents[%s]' % ip)
    rr.ob(ok, {'__getitem__': norm(rets[0].value) if rets else None})
    if not ok:
        rr.fail(Finding('R04.d', 'data', fd.qual, rets[0] if rets else '__getitem__', 'indexing a node does not follow its '
                        'contents view', line=fd.node.lineno))
    return rr


# --------------------------------------------------------------------------- views as sequences (seqalg)

VIEW_SPECS = {
    # what each view produces, written the plain way (today's semantics); compared as sequence terms, so the
    # implementation may use loops, list building, comprehensions, itertools or helpers
    ('TexNode', '__descendants'): '''
def f(self):
    yield from self.contents
    for c in self.children:
        yield from c.descendants
''',
    ('TexNode', 'find_all'): '''
def f(self, name=None, **attrs):
    for d in self.__descendants():
        if hasattr(d, '__match__') and d.__match__(name, attrs):
            yield d
''',
    ('TexNode', 'text'): '''
def f(self):
    for d in self.contents:
        if isinstance(d, (TexText, str)):
            yield d
        elif hasattr(d, 'text'):
            yield from d.text
''',
    ('TexNode', 'all'): '''
def f(self):
    for child in self.expr.all:
        assert isinstance(child, TexExpr)
        node = TexNode(child)
        node.parent = self
        yield node
''',
    ('TexNode', 'children'): '''
def f(self):
    for child in self.expr.children:
        node = TexNode(child)
        node.parent = self
        yield node
''',
    ('TexNode', 'contents'): '''
def f(self):
    for child in self.expr.contents:
        if isinstance(child, TexExpr):
            node = TexNode(child)
            node.parent = self
            yield node
        else:
            yield child
''',
}


def view_term(ctx, cname, mname):
    """(canonical sequence produced by the view, canonical sequence of its specification) or raises NotSequence"""
    from . import seqalg
    repo = ctx.repo
    cls = repo.need_cls('data.' + cname)
    fd = _private(cls, mname) if mname.startswith('__') and not mname.endswith('__') else _m(cls, mname, 'getter') \
        if 'property' in (cls.methods[mname][0].decorators if mname in cls.methods else []) else _m(cls, mname)

    def sub(a, b):
        ca, cb = repo.cls('data.' + a) or repo.cls('utils.' + a), repo.cls('data.' + b) or repo.cls('utils.' + b)
        if ca is None:
            return False
        if cb is not None:
            return ca is not cb and ca.is_subclass_of(cb)
        return any(getattr(k, 'name', k) == b for k in (ca.mro or [])[1:]) or b in [x if isinstance(x, str) else x.name for x in (ca.mro or [])]
    seqalg.LATTICE['subclass'] = sub
    try:
        got = seqalg.produced(fd.node, {k: v.node for k, v in repo.modules['data'].functions.items()})
        want = seqalg.produced_by_source(VIEW_SPECS[(cname, mname)])
    finally:
        seqalg.LATTICE['subclass'] = None
    return fd, got, want


def view_decided(ctx, rr, rule_id, cname, mname, consequence):
    """decide a view against its specification through the sequence algebra; True when decided (pass or finding),
    False when the implementation is outside the algebra (the caller falls back to its shape rule)"""
    from . import seqalg
    try:
        fd, got, want = view_term(ctx, cname, mname)
    except seqalg.NotSequence:
        return False
    ok = got == want
    rr.ob(ok, {'view': '%s.%s' % (cname, mname), 'produces': got[:160]})
    if not ok:
        rr.fail(Finding(rule_id, 'data', fd.qual, 'sequence produced by %s.%s' % (cname, mname.lstrip('_')),
                        'the view %s.%s does not produce the specified sequence: %s.  It produces  %s  -- specified is  %s'
                        % (cname, mname.lstrip('_'), consequence, got[:300], want[:300]), line=fd.node.lineno))
    return True


def r03_a(ctx):
    repo = ctx.repo
    node = repo.need_cls('data.TexNode')
    rr = RuleResult('R03.a', 'descendants = the node\'s contents followed by the descendants of every child (closure)',
                    floor=2)
    fd = _private(node, '__descendants')
    decided = view_decided(ctx, rr, 'R03.a', 'TexNode', '__descendants', 'nodes are missed or repeated by search and navigation')
    rets = [n for n in ast.walk(fd.node) if isinstance(n, ast.Return)]
    ok = decided
    if len(rets) == 1 and isinstance(rets[0].value, ast.Call) and norm(rets[0].value.func) in ('itertools.chain', 'chain'):
        a = rets[0].value.args
        ok = len(a) == 2 and norm(a[0]) == 'self.contents' and isinstance(a[1], ast.Starred)
        if ok:
            comp = a[1].value
            ok = isinstance(comp, (ast.ListComp, ast.GeneratorExp)) and norm(comp.generators[0].iter) == 'self.children' \
                and norm(comp.elt) == '%s.descendants' % norm(comp.generators[0].target) and not comp.generators[0].ifs
    if not decided and not ok:
        raise AnalysisError('TexNode.__descendants: enumeration outside the sequence algebra and of unknown shape')
    if not decided:
        rr.ob(ok, {'closure': norm(rets[0].value)[:90] if rets else None})
    if not decided and not ok:
        rr.fail(Finding('R03.a', 'data', fd.qual, rets[0] if rets else 'descendants', 'the descendant enumeration is not '
                        'the node\'s contents followed by the descendants of each child: nodes are missed or repeated',
                        line=fd.node.lineno))
    g = _m(node, 'descendants', 'getter')
    okg = any(isinstance(n, ast.Return) and 'descendants' in norm(n.value) and 'self.' in norm(n.value) for n in ast.walk(g.node))
    rr.ob(okg, {'descendants_property': okg})
    if not okg:
        rr.fail(Finding('R03.a', 'data', g.qual, 'descendants property', 'the descendants property does not return the '
                        'descendant enumeration', line=g.node.lineno))
    return rr


def r03_b(ctx):
    repo = ctx.repo
    node = repo.need_cls('data.TexNode')
    rr = RuleResult('R03.b', 'find, count and attribute access are derived from find_all with the caller\'s query passed '
                    'through; find_all filters the descendant enumeration with the match predicate', floor=4)
    decided_fa = view_decided(ctx, rr, 'R03.b', 'TexNode', 'find_all', 'matching nodes are missed, repeated or out of order')
    if not decided_fa:
        # find_all
        fd = _m(node, 'find_all')
        ps = fd.params()
        name_p = ps[1] if len(ps) > 1 else None
        kw = fd.node.args.kwarg.arg if fd.node.args.kwarg else None
        from .model import loop_form
        fa_node = loop_form(fd.node)       # `return (d for d in ... if ...)` is read as the loop it abbreviates
        loops = [n for n in ast.walk(fa_node) if isinstance(n, ast.For)]
        ok = len(loops) == 1 and 'descendants' in norm(loops[0].iter) and norm(loops[0].iter).startswith('self.')
        if ok:
            var = norm(loops[0].target)
            calls = [n for n in ast.walk(loops[0]) if isinstance(n, ast.Call) and isinstance(n.func, ast.Attribute) and n.func.attr == '__match__']
            ys = [n for n in ast.walk(loops[0]) if isinstance(n, ast.Yield)]
            ok = len(calls) == 1 and norm(calls[0].func.value) == var and [norm(a) for a in calls[0].args] == [name_p, kw] \
                and len(ys) == 1 and norm(ys[0].value) == var
            # the yield is guarded by exactly that predicate (and a hasattr test)
            if ok:
                p = getattr(ys[0], '_parent', None)
                while p is not None and not isinstance(p, ast.If):
                    p = getattr(p, '_parent', None)
                ok = p is not None and any(x is calls[0] for x in ast.walk(p.test)) and not any(
                    isinstance(x, ast.UnaryOp) and isinstance(x.op, ast.Not) for x in ast.walk(p.test))
        # nothing may cut the enumeration short: no return/raise outside the loop, no break/continue/return inside it
        if ok:
            early = [n for s_ in strip_doc(fa_node.body) if s_ is not loops[0] for n in ast.walk(s_)
                     if isinstance(n, (ast.Return, ast.Raise, ast.Yield, ast.YieldFrom))]
            early += [n for n in ast.walk(loops[0]) if isinstance(n, (ast.Break, ast.Continue, ast.Return))]
            if early:
                ok = False
                rr.fail(Finding('R03.b', 'data', fd.qual, early[0] if not isinstance(early[0], (ast.Return,)) else _stmt_with(fd.node, early[0]),
                                'find_all can stop before every descendant has been tested (%s): matching nodes are missed'
                                % norm(_stmt_with(fd.node, early[0]))[:80], line=early[0].lineno))
        rr.ob(ok, {'find_all': 'filters descendants by __match__(name, attrs)'})
        if not ok:
            rr.fail(Finding('R03.b', 'data', fd.qual, 'find_all filter', 'find_all does not yield exactly the descendants whose '
                            'match predicate accepts the query', line=fd.node.lineno))
    # find
    fd = _m(node, 'find')
    ps = fd.params()
    kw = fd.node.args.kwarg.arg if fd.node.args.kwarg else None
    from .model import resolve_locals as _rl
    import copy as _copy
    fnorm = _copy.deepcopy(fd.node)
    for n_ in ast.walk(fnorm):
        if isinstance(n_, ast.Return) and n_.value is not None:
            n_.value = _rl(fd.node, n_.value)
    t = ' '.join(norm(s) for s in strip_doc(fnorm.body))
    call = 'self.find_all(%s, **%s)' % (ps[1], kw)
    ok = (call + '[0]') in t and 'None' in t and ('IndexError' in t or 'next(' in t)
    ok = ok or ('next(iter(%s), None)' % call) in t
    rr.ob(ok, {'find': 'first element of find_all or None'})
    if not ok:
        rr.fail(Finding('R03.b', 'data', fd.qual, 'find', 'find is not the first element of find_all (or None) for the same '
                        'query', line=fd.node.lineno))
    # count
    fd = _m(node, 'count')
    ps = fd.params()
    kw = fd.node.args.kwarg.arg if fd.node.args.kwarg else None
    rets = [n for n in ast.walk(fd.node) if isinstance(n, ast.Return)]
    call = 'self.find_all(%s, **%s)' % (ps[1], kw)
    ok = len(rets) == 1 and _counted_sequence(fd.node, rets[0]) == call
    rr.ob(ok, {'count': norm(rets[0].value) if rets else None})
    if not ok:
        rr.fail(Finding('R03.b', 'data', fd.qual, rets[0] if rets else 'count', 'count is not the length of find_all for the '
                        'same query', line=fd.node.lineno))
    # attribute fallback
    fd = _m(node, '__getattr__')
    ps = fd.params()
    rets = [n for n in ast.walk(fd.node) if isinstance(n, ast.Return)]
    from .model import resolve_locals
    fcall = 'self.find(%s)' % ps[1]
    rvals = [norm(resolve_locals(fd.node, r.value)) if r.value is not None else 'None' for r in rets]
    # every result is the search result, possibly with a fallback for "not found" (the default / None)
    dflt = {norm(d) for d in fd.node.args.defaults} | {'None'} | set(ps[2:])
    ok = bool(rets) and any(v.startswith(fcall) for v in rvals) and all(v.startswith(fcall) or v in dflt for v in rvals)
    rr.ob(ok, {'__getattr__': norm(rets[0].value) if rets else None})
    if not ok:
        rr.fail(Finding('R03.b', 'data', fd.qual, rets[0] if rets else '__getattr__', 'attribute access on a node is not '
                        'find() of that name', line=fd.node.lineno))
    return rr


def _counted_sequence(fnode, ret):
    """the (normalised) expression whose number of elements the return statement returns, or None:
    len(S), len(list(S)) / tuple / a copying comprehension, sum(1 for _ in S), a counter incremented once per element"""
    def identity_comp(e):
        # [x for x in S] without a condition
        if isinstance(e, (ast.ListComp, ast.GeneratorExp)) and len(e.generators) == 1 and not e.generators[0].ifs \
                and isinstance(e.elt, ast.Name) and isinstance(e.generators[0].target, ast.Name) \
                and e.elt.id == e.generators[0].target.id:
            return e.generators[0].iter
        return None

    def unwrap(e):
        while True:
            if isinstance(e, ast.Call) and isinstance(e.func, ast.Name) and e.func.id in ('list', 'tuple') and len(e.args) == 1 \
                    and not e.keywords:
                e = e.args[0]
                continue
            inner = identity_comp(e)
            if inner is not None:
                e = inner
                continue
            return e
    v = ret.value
    if v is None:
        return None
    if isinstance(v, ast.Call) and isinstance(v.func, ast.Name) and len(v.args) == 1 and not v.keywords:
        if v.func.id == 'len':
            return norm(unwrap(v.args[0]))
        if v.func.id == 'sum':
            g = v.args[0]
            if isinstance(g, (ast.ListComp, ast.GeneratorExp)) and len(g.generators) == 1 and not g.generators[0].ifs \
                    and isinstance(g.elt, ast.Constant) and g.elt.value == 1 and type(g.elt.value) is int:
                return norm(unwrap(g.generators[0].iter))
        return None
    if isinstance(v, ast.Name):
        body = strip_doc(fnode.body)
        if len(body) == 3 and body[2] is ret and isinstance(body[0], ast.Assign) and len(body[0].targets) == 1 \
                and norm(body[0].targets[0]) == v.id and isinstance(body[0].value, ast.Constant) and body[0].value.value == 0 \
                and type(body[0].value.value) is int and isinstance(body[1], ast.For) and not body[1].orelse \
                and len(body[1].body) == 1 and isinstance(body[1].body[0], ast.AugAssign) \
                and isinstance(body[1].body[0].op, ast.Add) and norm(body[1].body[0].target) == v.id \
                and isinstance(body[1].body[0].value, ast.Constant) and body[1].body[0].value.value == 1 \
                and type(body[1].body[0].value.value) is int and v.id not in norm(body[1].target):
            return norm(unwrap(body[1].iter))
    return None


def r03_d(ctx):
    """attribute access is the search only for names that are not attributes of the node class"""
    repo = ctx.repo
    node = repo.need_cls('data.TexNode')
    rr = RuleResult('R03.d', 'attribute access on a node (soup.name) reaches the search fallback `__getattr__` only when '
                    'normal attribute look-up fails: every attribute of the node class whose name could be a command '
                    'name (letters only) answers with itself instead of find(name)', floor=1)
    if '__getattr__' not in node.methods:
        raise AnalysisError('TexNode.__getattr__ vanished')
    names = {}
    for c in node.mro if getattr(node, 'mro', None) else [node]:
        if not hasattr(c, 'methods'):
            continue
        for nm, fds in c.methods.items():
            names.setdefault(nm, fds[-1].node)
            for fd in fds:
                for n in ast.walk(fd.node):
                    if isinstance(n, ast.Attribute) and isinstance(n.ctx, ast.Store) and isinstance(n.value, ast.Name) \
                            and n.value.id == 'self':
                        names.setdefault(n.attr, n)
        for nm, v in c.attrs.items():
            names.setdefault(nm, v)
    rr.ob(True, {'attribute_fallback': 'TexNode.__getattr__', 'class_attributes': len(names)})
    for nm in sorted(names):
        if not (nm.isascii() and nm.isalpha()):
            continue
        rr.ob(False, {'attribute': nm, 'shadows_command': '\\' + nm})
        rr.fail(Finding('R03.d', 'data', 'TexNode', 'attribute %s' % nm,
                        'TexNode has an attribute named %s: for a document that uses the command \\%s, soup.%s is that '
                        'attribute, not soup.find(%r)' % (nm, nm, nm, nm), line=getattr(names[nm], 'lineno', 0)))
    return rr


def _stmt_with(fnode, node):
    """the outermost statement of the function body that contains node"""
    for s in fnode.body:
        if any(x is node for x in ast.walk(s)):
            return s
    return node


def r03_c(ctx):
    repo = ctx.repo
    texexpr, _ = _expr_classes(repo)
    env = repo.need_cls('data.TexEnv')
    rr = RuleResult('R03.c', 'the match predicate compares the query with the expression\'s live name (and, for a full '
                    'expression query, its current text / opening)', floor=3)
    fd = _m(texexpr, '__match__')
    ps = fd.params()
    name_p, attrs_p = ps[1], ps[2]
    body = fd.node
    # attrs['name'] = name ; for k, v in attrs.items(): if getattr(self, k) != v: return False ; return True
    sets_name = any(isinstance(n, ast.Assign) and norm(n.targets[0]) in ("%s['name']" % attrs_p, '%s["name"]' % attrs_p)
                    and norm(n.value) == name_p for n in ast.walk(body))
    # the attribute comparison: a loop or a comprehension over <attrs>.items() comparing getattr(self, k) with v
    cmp_ok = False
    recognised = False
    for n in ast.walk(body):
        gens = []
        if isinstance(n, ast.For) and norm(n.iter) == '%s.items()' % attrs_p and isinstance(n.target, ast.Tuple):
            gens.append((n.target, n))
        elif isinstance(n, (ast.GeneratorExp, ast.ListComp)):
            for g in n.generators:
                if norm(g.iter) == '%s.items()' % attrs_p and isinstance(g.target, ast.Tuple):
                    gens.append((g.target, n))
        for tgt, scope in gens:
            recognised = True
            k, v = [norm(e) for e in tgt.elts]
            for c in ast.walk(scope):
                if isinstance(c, ast.Compare) and isinstance(c.ops[0], (ast.NotEq, ast.Eq)):
                    sides = {norm(c.left), norm(c.comparators[0])}
                    if sides == {'getattr(self, %s)' % k, v}:
                        cmp_ok = True
    if not recognised:
        raise AnalysisError('TexExpr.__match__: attribute comparison not recognised')
    ok = sets_name and cmp_ok
    rr.ob(ok, {'expression_match': 'attribute comparison with the live object'})
    if not ok:
        rr.fail(Finding('R03.c', 'data', fd.qual, '__match__ of expressions', 'the match predicate of expressions does not '
                        'compare the queried name with the expression\'s current name attribute', line=fd.node.lineno))
    # on every path that can answer "match", the queried name has been brought to bear on the node: stored as the `name`
    # criterion, compared with something read from the node, or is the node's text.  (A path that skips all of this
    # -- `if not name: pass` -- makes an empty name or an empty list of names match every node.)
    from .model import resolve_locals as _rl3

    def _mentions(e, nm):
        return any(isinstance(x, ast.Name) and x.id == nm for x in ast.walk(e))

    def _ties_name_to_node(e):
        e = _rl3(fd.node, e)
        for c in ast.walk(e):
            if isinstance(c, ast.Compare) and _mentions(c, name_p) and _mentions(c, 'self'):
                return True
        return False

    def _paths(stmts, tied):
        """-> list of (tied, description) for paths that leave the function with a possibly-true answer, plus the
        paths that fall through: (tied, None)"""
        out = []
        live = [(tied, '')]
        for st_ in stmts:
            if not live:
                break
            nxt = []
            for tied_, desc in live:
                if isinstance(st_, ast.If):
                    t2 = tied_ or _ties_name_to_node(st_.test)
                    for branch, tag in ((st_.body, 'T'), (st_.orelse, 'F')):
                        for r in _paths(branch, t2):
                            d2 = (desc + ' ' + norm(st_.test)[:40] + '=' + tag + ' ' + (r[1] or '')).strip()
                            if r[2]:
                                out.append((r[0], d2, True))
                            else:
                                nxt.append((r[0], d2))
                elif isinstance(st_, ast.Return):
                    v = st_.value
                    falsy = v is None or (isinstance(v, ast.Constant) and not v.value)
                    if not falsy:
                        out.append((tied_ or _ties_name_to_node(v), desc, True))
                elif isinstance(st_, ast.Raise):
                    pass
                else:
                    t2 = tied_
                    for n_ in ast.walk(st_):
                        if isinstance(n_, ast.Assign) and any(
                                isinstance(t_, ast.Subscript) and norm(t_.value) == attrs_p and isinstance(t_.slice, ast.Constant)
                                and t_.slice.value == 'name' for t_ in n_.targets) and norm(n_.value) == name_p:
                            t2 = True
                    nxt.append((t2, desc))
            live = nxt
        return out + [(t_, d_, False) for t_, d_ in live]
    loose = [p_ for p_ in _paths(strip_doc(body.body), False) if p_[2] and not p_[0]]
    rr.ob(not loose, {'every_matching_path_consults_the_name': not loose})
    for p_ in loose[:1]:
        rr.fail(Finding('R03.c', 'data', fd.qual, 'match without consulting the name [%s]' % p_[1][:80],
                        'on the path [%s] the match predicate answers without having compared the queried name with the '
                        'node: such a query (an empty name, an empty list of names) matches every node' % p_[1][:160],
                        line=fd.node.lineno))
    full = any(isinstance(n, ast.Return) and norm(n.value) in ('str(self) == %s' % name_p, '%s == str(self)' % name_p) for n in ast.walk(body))
    rr.ob(full, {'full_expression_query': 'str(self) == query'})
    if not full:
        rr.fail(Finding('R03.c', 'data', fd.qual, 'full-expression query', 'a query such as \\ref{x} is not compared with '
                        'the node\'s current text', line=fd.node.lineno))
    fd = _m(env, '__match__')
    ps = fd.params()
    tests = [n for n in ast.walk(fd.node) if isinstance(n, ast.Compare) and isinstance(n.ops[0], ast.In) and norm(n.left) == ps[1]]
    ok = False
    if tests:
        from .model import resolve_locals
        coll = resolve_locals(fd.node, tests[0].comparators[0])
        elems = [norm(e) for e in coll.elts] if isinstance(coll, (ast.Tuple, ast.List)) else []
        ok = 'self.name' in elems and 'self.begin' in elems and any('self.begin' in e and 'self.args' in e for e in elems)
        sup = any(isinstance(n, ast.Return) and 'super().__match__(%s, %s)' % (ps[1], ps[2]) in norm(n.value) for n in ast.walk(fd.node))
        ok = ok and sup
    rr.ob(ok, {'environment_match': norm(tests[0]) [:80] if tests else None})
    if not ok:
        rr.fail(Finding('R03.c', 'data', fd.qual, tests[0] if tests else '__match__ of environments', 'the match predicate '
                        'of environments does not compare the query with the live name / opening', line=fd.node.lineno))
    return rr


# =========================================================================== edits (C05 / C15)

EDIT_METHODS = (('TexExpr', 'remove'), ('TexNode', 'delete'), ('TexNode', 'remove'), ('TexNode', 'replace'),
                ('TexNode', 'replace_with'))


def _is_content_list(e, _depth=0):
    t = norm(e)
    if t.endswith('._contents') or t.endswith('.contents') or t in ('self._contents',):
        return True
    # a local bound once to the content list (`contents = self._contents`) is that list
    if isinstance(e, ast.Name) and _depth == 0:
        fn = getattr(e, '_parent', None)
        while fn is not None and not isinstance(fn, ast.FunctionDef):
            fn = getattr(fn, '_parent', None)
        if fn is not None:
            defs = [n for n in ast.walk(fn) if isinstance(n, ast.Assign) and len(n.targets) == 1
                    and isinstance(n.targets[0], ast.Name) and n.targets[0].id == e.id]
            stores = sum(1 for n in ast.walk(fn) if isinstance(n, ast.Name) and n.id == e.id and isinstance(n.ctx, ast.Store))
            if len(defs) == 1 and stores == 1 and _is_content_list(defs[0].value, 1):
                return True
    return False


def _identity_search(n):
    """an expression that searches by identity: contains `<x> is <y>` inside a comprehension/generator"""
    return any(isinstance(x, ast.Compare) and isinstance(x.ops[0], ast.Is) for x in ast.walk(n))


def _edit_closure(ctx):
    """the edit methods plus the TexNode/TexExpr helper methods they reach (refactorings move the look-up into
    helpers)"""
    from . import callgraph
    repo = ctx.repo
    cg = callgraph.graph(ctx)
    base = []
    for cname, mname in EDIT_METHODS:
        cls = repo.need_cls('data.' + cname)
        base.append(_m(cls, mname))
    out = list(base)
    for fd in cg.reachable(base):
        if fd.module.name != 'data' or fd.cls is None or fd.cls.name not in ('TexNode', 'TexExpr') or fd in out:
            continue
        if fd.name.startswith('_') and not fd.name.startswith('__'):
            out.append(fd)
        elif not (fd.name.startswith('__') and fd.name.endswith('__')) and 'property' not in fd.decorators \
                and len(fd.params()) >= 2 and (_equality_sites(fd.node) or _identity_loops(fd.node)) \
                and any(isinstance(n, ast.Call) and isinstance(n.func, ast.Attribute) and n.func.attr == fd.name
                        for b in out for n in ast.walk(b.node)):
            # a public look-up helper called by an edit method (e.g. index_of)
            out.append(fd)
    return out


def _equality_sites(fnode):
    out = []
    for n in ast.walk(fnode):
        if isinstance(n, ast.Call) and isinstance(n.func, ast.Attribute) and n.func.attr in ('index', 'remove', 'count') \
                and _is_content_list(n.func.value):
            out.append((n, '%s(...)' % n.func.attr))
        elif isinstance(n, ast.Compare) and len(n.ops) == 1 and isinstance(n.ops[0], (ast.In, ast.NotIn)) \
                and _is_content_list(n.comparators[0]):
            out.append((n, 'membership test'))
    return out


def _identity_loops(fnode):
    """`for .. in [enumerate(]<content list>[)]: if <x> is <y>: return/assign/break`  and identity generators"""
    out = []
    for n in ast.walk(fnode):
        if isinstance(n, ast.For):
            it = n.iter
            if isinstance(it, ast.Call) and norm(it.func) == 'enumerate' and it.args:
                it = it.args[0]
            if _is_content_list(it) and any(isinstance(x, ast.If) and _identity_search(x.test) for x in ast.walk(n)):
                out.append(n)
        elif isinstance(n, (ast.GeneratorExp, ast.ListComp)) and _identity_search(n) and any(
                _is_content_list(g.iter) or 'enumerate' in norm(g.iter) for g in n.generators):
            out.append(n)
    return out


def r05_e(ctx):
    """a failing remove() is not a membership test"""
    repo = ctx.repo
    texexpr, _ = _expr_classes(repo)
    rr = RuleResult('R05.e', 'no edit method uses a failing remove() as the test of whether a container holds the target: '
                    'remove falls back to an equality search, so it succeeds on an identical twin', floor=1)
    rem = _m(texexpr, 'remove')
    fallback = any(isinstance(n, ast.Call) and isinstance(n.func, ast.Attribute) and n.func.attr in ('index', 'remove')
                   and _is_content_list(n.func.value) for n in ast.walk(rem.node))
    rr.ob(True, {'remove_has_equality_fallback': fallback})
    for fd in _edit_closure(ctx):
        for t in ast.walk(fd.node):
            if not isinstance(t, ast.Try):
                continue
            calls = [n for s in t.body for n in ast.walk(s) if isinstance(n, ast.Call) and isinstance(n.func, ast.Attribute)
                     and n.func.attr == 'remove']
            catches = [norm(h.type) if h.type is not None else 'all' for h in t.handlers]
            for c in calls:
                ok = not fallback
                rr.ob(ok, {'function': fd.qual, 'try_remove': norm(c)[:50], 'handlers': catches})
                if not ok:
                    rr.fail(Finding('R05.e', 'data', fd.qual, c, '%s tries %s and treats an exception as "not in this '
                                    'container"; remove() also succeeds on a different node with the same text, so the wrong '
                                    'container is edited when a look-alike sits there' % (fd.qual, norm(c)[:40]), line=c.lineno))
    # ... nor asks a look-up helper that falls back to equality whether the container holds the target
    closure = _edit_closure(ctx)
    with_eq = {f.name for f in closure if _equality_sites(f.node)}
    for fd in closure:
        for t in ast.walk(fd.node):
            if not isinstance(t, (ast.If, ast.IfExp, ast.While)):
                continue
            for c in ast.walk(t.test):
                if isinstance(c, ast.Call) and isinstance(c.func, ast.Attribute) and c.func.attr in with_eq \
                        and c.func.attr not in ('remove',) and norm(c.func.value) != 'self':
                    rr.ob(False, {'function': fd.qual, 'container_test': norm(t.test)[:60]})
                    rr.fail(Finding('R05.e', 'data', fd.qual, c, '%s decides which container holds the target with %s, a '
                                    'look-up that falls back to an equality search: a look-alike in an earlier container '
                                    'is edited instead of the target' % (fd.qual, norm(c)[:40]), line=c.lineno))
    return rr


def r05_a(ctx):
    repo = ctx.repo
    data = repo.modules['data']
    texexpr, _ = _expr_classes(repo)
    rr = RuleResult('R05.a', 'a mutator that must locate the node it was given searches the content list by identity: '
                    'expressions compare equal by text, so an equality search finds an identical twin instead', floor=2)
    eq = texexpr.methods.get('__eq__')
    eq_textual = bool(eq) and any(isinstance(n, ast.Call) and norm(n.func) == 'str' for n in ast.walk(eq[-1].node))
    if not eq_textual:
        rr.ob(True, {'expression_equality': 'identity (default)'})
    n_sites = 0
    for fd in _edit_closure(ctx):
        idloops = _identity_loops(fd.node)
        for n, what in _equality_sites(fd.node):
            site = (n, what)
            n_sites += 1
            # excused: equality fallback taken only after an identity search failed
            excused = False
            p = getattr(n, '_parent', None)
            while p is not None and p is not fd.node:
                if isinstance(p, ast.If) and isinstance(p.test, ast.Compare) and isinstance(p.test.ops[0], ast.Is) \
                        and norm(p.test.comparators[0]) == 'None' and isinstance(p.test.left, ast.Name):
                    var = p.test.left.id
                    for a in ast.walk(fd.node):
                        if isinstance(a, ast.Assign) and norm(a.targets[0]) == var and _identity_search(a.value):
                            excused = True
                p = getattr(p, '_parent', None)
            # ... or the site is the fallback arm of `<identity result> if <it> is not None else <equality search>`
            p = getattr(n, '_parent', None)
            while p is not None and p is not fd.node:
                if isinstance(p, ast.IfExp) and isinstance(p.test, ast.Compare) and isinstance(p.test.ops[0], (ast.Is, ast.IsNot)) \
                        and norm(p.test.comparators[0]) == 'None' and isinstance(p.test.left, ast.Name):
                    arm = p.body if isinstance(p.test.ops[0], ast.Is) else p.orelse
                    if any(x is n for x in ast.walk(arm)):
                        for a in ast.walk(fd.node):
                            if isinstance(a, ast.Assign) and norm(a.targets[0]) == p.test.left.id and _identity_search(a.value) \
                                    and a.lineno <= n.lineno:
                                excused = True
                p = getattr(p, '_parent', None)
            # ... or the site is the `else` of an identity loop over the list (taken only when no identity hit broke out)
            for lp in idloops:
                if isinstance(lp, ast.For) and any(x is n for s_ in lp.orelse for x in ast.walk(s_)) and any(
                        isinstance(x, ast.Break) for x in ast.walk(lp)):
                    excused = True
            # ... or an identity loop over the list that returns on a hit stands before it in the function body
            for lp in idloops:
                if isinstance(lp, ast.For) and lp in fd.node.body and lp.end_lineno < n.lineno and any(
                        isinstance(x, ast.Return) for x in ast.walk(lp)) and not lp.orelse:
                    excused = True
            ok = (not eq_textual) or excused
            rr.ob(ok, {'mutator': fd.qual, 'search': norm(site[0])[:60], 'identity_first': excused})
            if not ok:
                rr.fail(Finding('R05.a', 'data', fd.qual, site[0], '%s locates its target with an equality %s on the '
                                'content list; expressions are equal when their text is equal, so with two identical '
                                'nodes the first one is edited whichever was targeted' % (fd.qual, site[1]), line=site[0].lineno))
        # identity searches count as instances too
        for n in idloops:
            n_sites += 1
            rr.ob(True, {'mutator': fd.qual, 'search': norm(n)[:60], 'by_identity': True})
    if n_sites == 0:
        raise AnalysisError('no child look-up found in the edit methods')
    return rr


def r05_b(ctx):
    repo = ctx.repo
    node = repo.need_cls('data.TexNode')
    rr = RuleResult('R05.b', 'replace inserts the new material at the index returned by removing the child from the same '
                    'container', floor=1)
    fd = _m(node, 'replace')
    closure = {f.name for f in _edit_closure(ctx)}
    sites = [n for n in ast.walk(fd.node) if isinstance(n, ast.Call) and isinstance(n.func, ast.Attribute) and n.func.attr == 'insert']
    if not sites:
        raise AnalysisError('TexNode.replace no longer inserts')
    for c in sites:
        a0 = c.args[0] if c.args else None
        ok = isinstance(a0, ast.Call) and isinstance(a0.func, ast.Attribute) and a0.func.attr == 'remove' \
            and norm(a0.func.value) == norm(c.func.value)
        via_helper = False
        if not ok and isinstance(a0, ast.Name):
            for a in ast.walk(fd.node):
                if isinstance(a, ast.Assign) and isinstance(a.value, ast.Call) and isinstance(a.value.func, ast.Attribute):
                    tgt_names = [norm(t) for t in (a.targets[0].elts if isinstance(a.targets[0], ast.Tuple) else [a.targets[0]])]
                    if a0.id not in tgt_names:
                        continue
                    if a.value.func.attr == 'remove' and norm(a.value.func.value) == norm(c.func.value):
                        ok = True
                    elif a.value.func.attr in closure and isinstance(a.targets[0], ast.Tuple) and norm(c.func.value) in tgt_names:
                        # (container, index) returned together by a helper of the edit methods: the helper is
                        # covered by the look-up rules (R05.a/d/e)
                        ok = via_helper = True
        rr.ob(ok, {'insert': norm(c)[:70], 'index_from_helper': via_helper})
        if not ok:
            rr.fail(Finding('R05.b', 'data', fd.qual, c, 'replace does not insert at the index at which the child was '
                            'removed from the same container: the new material lands elsewhere', line=c.lineno))
    return rr


def _search_sources(fnode, var):
    """lists searched to compute the index variable `var`: enumerate(Y) in a generator with an identity/equality
    test, or Y.index(v)"""
    out = []
    for a in ast.walk(fnode):
        if isinstance(a, ast.Assign) and isinstance(a.targets[0], ast.Name) and a.targets[0].id == var:
            for n in ast.walk(a.value):
                if isinstance(n, (ast.GeneratorExp, ast.ListComp)):
                    for g in n.generators:
                        it = g.iter
                        if isinstance(it, ast.Call) and norm(it.func) == 'enumerate' and it.args:
                            out.append((it.args[0], a))
                        else:
                            out.append((it, a))
                if isinstance(n, ast.Call) and isinstance(n.func, ast.Attribute) and n.func.attr == 'index':
                    out.append((n.func.value, a))
    return out


def r05_d(ctx):
    repo = ctx.repo
    texexpr, _ = _expr_classes(repo)
    rr = RuleResult('R05.d', 'the index at which a child is removed (and which replace re-uses) is computed by searching '
                    'the very list that is edited', floor=1)
    n_sites = 0
    for cname, mname in (('TexExpr', 'remove'), ('TexExpr', 'insert')):
        fd = _m(repo.need_cls('data.' + cname), mname)
        for n in ast.walk(fd.node):
            edited = idx = None
            if isinstance(n, ast.Delete):
                for t in n.targets:
                    if isinstance(t, ast.Subscript) and isinstance(t.slice, ast.Name):
                        edited, idx = t.value, t.slice.id
            elif isinstance(n, ast.Call) and isinstance(n.func, ast.Attribute) and n.func.attr == 'pop' and n.args \
                    and isinstance(n.args[0], ast.Name):
                edited, idx = n.func.value, n.args[0].id
            if edited is None:
                continue
            srcs = _search_sources(fd.node, idx)
            if not srcs:
                continue
            n_sites += 1
            bad = [(y, a) for y, a in srcs if norm(y) != norm(edited)]
            rr.ob(not bad, {'function': fd.qual, 'edited_list': norm(edited), 'searched': sorted({norm(y) for y, a in srcs})})
            for y, a in bad:
                rr.fail(Finding('R05.d', 'data', fd.qual, a, 'the child is looked up in %s but removed from %s at the '
                                'index found: with argument groups present the index is shifted and a sibling is edited'
                                % (norm(y), norm(edited)), line=a.lineno))
        # the returned index is the same variable
    if n_sites == 0:
        rr.ob(True, {'note': 'removal does not go through a computed index'})
    return rr


def r05_f(ctx):
    """an index into the raw content list is not measured in a filtered view"""
    repo = ctx.repo
    from .model import resolve_locals
    rr = RuleResult('R05.f', 'the insert/remove methods of nodes and expressions never bound or compute an index with the '
                    'length of a filtering view (`contents`, `children`, ...): the index addresses the raw content list, in '
                    'which whitespace-only pieces count', floor=2)
    views = ('contents', 'children', 'descendants', 'text')
    node, texexpr = repo.need_cls('data.TexNode'), repo.need_cls('data.TexExpr')
    for cls, mname in ((node, 'insert'), (texexpr, 'insert'), (node, 'append'), (texexpr, 'append'), (node, 'remove'),
                       (texexpr, 'remove'), (node, 'replace'), (node, 'delete')):
        fds = cls.methods.get(mname)
        if not fds:
            continue
        fd = fds[-1]
        bad = []
        for n in ast.walk(fd.node):
            if isinstance(n, ast.Call) and isinstance(n.func, ast.Name) and n.func.id == 'len' and len(n.args) == 1:
                what = resolve_locals(fd.node, n.args[0])
                # len(list(self.contents)) / len(self.contents) / len(self.expr.children) ...
                inner = what
                while isinstance(inner, ast.Call) and isinstance(inner.func, ast.Name) and inner.func.id in ('list', 'tuple') and inner.args:
                    inner = inner.args[0]
                if isinstance(inner, ast.Attribute) and inner.attr in views:
                    # counts as an index computation when the method also writes the raw list by position
                    bad.append(n)
        writes = [x for x in ast.walk(fd.node) if isinstance(x, ast.Call) and isinstance(x.func, ast.Attribute)
                  and x.func.attr in ('insert', 'pop') or isinstance(x, ast.Delete)]
        ok = not (bad and writes)
        rr.ob(ok, {'method': fd.qual, 'view_lengths_used': [norm(b)[:40] for b in bad]})
        if not ok:
            rr.fail(Finding('R05.f', 'data', fd.qual, bad[0], '%s measures its index with %s, the length of a filtered view, but '
                            'the index addresses the raw content list: with whitespace-only pieces in the body a valid index '
                            'is clamped or shifted and the material lands in the wrong place' % (fd.qual, norm(bad[0])),
                            line=bad[0].lineno))
    return rr


def r05_c(ctx):
    repo = ctx.repo
    texexpr, _ = _expr_classes(repo)
    rr = RuleResult('R05.c', 'several inserted items keep their order: the j-th item goes to index base + j; append '
                    'extends in argument order', floor=2)
    fd = _m(texexpr, 'insert')
    se = SymEval(fd.node)
    ip = fd.params()[1]
    var = fd.node.args.vararg.arg if fd.node.args.vararg else None
    ok = False
    site = fd.node
    for lp in [n for n in ast.walk(fd.node) if isinstance(n, ast.For)]:
        counter = None
        if isinstance(lp.iter, ast.Name) and lp.iter.id == var:
            # an explicit counter: k = 0 before the loop, `k += 1` as the last top-level statement of the body
            last = lp.body[-1] if lp.body else None
            if isinstance(last, ast.AugAssign) and isinstance(last.op, ast.Add) and isinstance(last.target, ast.Name) \
                    and isinstance(last.value, ast.Constant) and last.value.value == 1:
                k_ = last.target.id
                inits = [a for a in ast.walk(fd.node) if isinstance(a, ast.Assign) and len(a.targets) == 1
                         and isinstance(a.targets[0], ast.Name) and a.targets[0].id == k_]
                stores = sum(1 for x in ast.walk(fd.node) if isinstance(x, ast.Name) and x.id == k_ and isinstance(x.ctx, ast.Store))
                if len(inits) == 1 and isinstance(inits[0].value, ast.Constant) and inits[0].value.value == 0 and stores == 2 \
                        and inits[0].lineno < lp.lineno:
                    counter = k_
        if counter is not None or (isinstance(lp.iter, ast.Call) and norm(lp.iter.func) == 'enumerate' and norm(lp.iter.args[0]) == var
                                   and len(lp.iter.args) == 1 and isinstance(lp.target, ast.Tuple)):
            j = counter if counter is not None else norm(lp.target.elts[0])
            for c in ast.walk(lp):
                if isinstance(c, ast.Call) and isinstance(c.func, ast.Attribute) and c.func.attr == 'insert' and _is_content_list(c.func.value):
                    site = c
                    ok = se.ev(c.args[0]) == Aff.sym(ip) + Aff.sym(j)
                    # ... on every iteration: an item that is skipped leaves a hole in base + j, so the later items land
                    # one slot too far
                    stmt = c
                    while getattr(stmt, '_parent', None) is not None and stmt._parent is not lp:
                        stmt = stmt._parent
                    skips = [x for x in ast.walk(lp) if isinstance(x, (ast.Continue, ast.Break, ast.Return))]
                    if ok and (stmt not in lp.body or skips):
                        ok = False
                        site = skips[0] if skips else c
                        rr.fail(Finding('R05.c', 'data', fd.qual, _stmt_with(fd.node, site) if skips else c,
                                        'the multi-item insert does not store every item (an iteration can be skipped or the '
                                        'store is conditional) while later items still go to base + position-in-the-'
                                        'arguments: they land beyond the requested index', line=site.lineno))
                        rr.ob(False, {'insert': 'conditional store in the enumerate loop'})
                        skipped_reported = True
    for n in ast.walk(fd.node):
        if isinstance(n, ast.Assign) and isinstance(n.targets[0], ast.Subscript) and isinstance(n.targets[0].slice, ast.Slice) \
                and _is_content_list(n.targets[0].value) and norm(n.targets[0].slice.lower) == ip and norm(n.targets[0].slice.upper) == ip:
            ok = True
    if not ok and site is fd.node:
        raise AnalysisError('TexExpr.insert: the multi-item placement is not recognised (no loop over the arguments that '
                            'inserts at base + position, no slice assignment)')
    rr.ob(ok, {'insert': norm(site)[:70] if site is not fd.node else None})
    if not ok and not locals().get('skipped_reported'):
        rr.fail(Finding('R05.c', 'data', fd.qual, site if site is not fd.node else 'multi-item insert', 'items inserted '
                        'together are not placed at consecutive indices in argument order', line=fd.node.lineno))
    fd = _m(texexpr, 'append')
    var = fd.node.args.vararg.arg if fd.node.args.vararg else None
    ok = any(isinstance(c, ast.Call) and isinstance(c.func, ast.Attribute) and (
        (c.func.attr == 'extend' and _is_content_list(c.func.value) and norm(c.args[0]) == var) or
        (c.func.attr == 'insert' and norm(c.func.value) == 'self' and len(c.args) == 2 and isinstance(c.args[1], ast.Starred)
         and norm(c.args[1].value) == var and norm(resolve_locals(fd.node, c.args[0])).startswith('len(self.')))
        for c in ast.walk(fd.node))
    rr.ob(ok, {'append': 'extends the content list in argument order'})
    if not ok:
        rr.fail(Finding('R05.c', 'data', fd.qual, 'append', 'append does not add its arguments at the end in argument order',
                        line=fd.node.lineno))
    return rr


def r15_a(ctx):
    repo = ctx.repo
    rr = RuleResult('R15.a', 'frame: a structural mutator writes only the content list of its receiver and the parent of '
                    'inserted material; constructors copy the lists they are given', floor=6)
    allowed_attr = {'parent'}
    for cname in ('TexNode', 'TexExpr'):
        cls = repo.need_cls('data.' + cname)
        # the mutators and the private helpers of the class they call (transitively)
        names = [m_ for m_ in ('append', 'insert', 'remove', 'delete', 'replace', 'replace_with') if m_ in cls.methods]
        work = list(names)
        while work:
            cur_ = _m(cls, work.pop())
            for n in ast.walk(cur_.node):
                if isinstance(n, ast.Call) and isinstance(n.func, ast.Attribute) and isinstance(n.func.value, ast.Name) \
                        and n.func.value.id == 'self' and n.func.attr in cls.methods and n.func.attr not in names \
                        and n.func.attr.startswith('_') and not n.func.attr.endswith('__') \
                        and 'assert' not in n.func.attr and 'supports' not in n.func.attr:
                    names.append(n.func.attr)
                    work.append(n.func.attr)
        for mname in names:
            fd = _m(cls, mname)
            bad = []
            from .model import with_self_aliases_resolved
            for n in ast.walk(with_self_aliases_resolved(fd.node)):
                if isinstance(n, (ast.Assign, ast.AugAssign)):
                    for t in (n.targets if isinstance(n, ast.Assign) else [n.target]):
                        if isinstance(t, ast.Attribute):
                            if t.attr in allowed_attr and norm(n.value) == 'self':
                                continue
                            bad.append((n, 'writes %s' % norm(t)))
                        elif isinstance(t, ast.Subscript):
                            if norm(t.value) == 'self._contents':
                                continue
                            bad.append((n, 'writes %s' % norm(t)[:40]))
                elif isinstance(n, ast.Delete):
                    for t in n.targets:
                        if isinstance(t, ast.Subscript) and norm(t.value) == 'self._contents':
                            continue
                        bad.append((n, 'deletes %s' % norm(t)[:40]))
                elif isinstance(n, ast.Call) and isinstance(n.func, ast.Attribute) and n.func.attr in (
                        'append', 'extend', 'insert', 'remove', 'pop', 'clear', 'sort', 'reverse'):
                    recv = norm(n.func.value)
                    if recv == 'self._contents':
                        continue
                    # delegation to another node/expression mutator is that mutator's business
                    if n.func.attr in ('append', 'insert', 'remove') and not (
                            recv.endswith('_contents') or recv.endswith('.all') or recv.endswith('.args')):
                        continue        # delegation to another node/expression mutator
                    bad.append((n, 'mutates %s' % recv))
            rr.ob(not bad, {'mutator': fd.qual, 'foreign_writes': len(bad)})
            for n, what in bad:
                rr.fail(Finding('R15.a', 'data', fd.qual, n, '%s %s: a structural edit changes something other than the '
                                'targeted content list / the parent of the inserted material' % (fd.qual, what), line=n.lineno))
    texexpr, _ = _expr_classes(repo)
    init = _m(texexpr, '__init__')
    for n in ast.walk(init.node):
        if isinstance(n, ast.Assign) and isinstance(n.targets[0], ast.Attribute) and n.targets[0].attr in ('_contents', 'args'):
            v = n.value
            def _copies(e):
                if isinstance(e, ast.IfExp):
                    return _copies(e.body) and _copies(e.orelse)
                if isinstance(e, ast.BoolOp):
                    return all(_copies(x) for x in e.values[:1]) and True
                return isinstance(e, (ast.List, ast.ListComp)) or (isinstance(e, ast.Call) and norm(e.func) in ('list', 'TexArgs', 'tuple', 'copy.copy'))
            copies = _copies(v)
            rr.ob(copies, {'constructor_field': n.targets[0].attr, 'value': norm(v)})
            if not copies:
                rr.fail(Finding('R15.a', 'data', init.qual, n, 'the constructor stores the caller\'s list object: two '
                                'nodes (or a node and its copy source) share one content list', line=n.lineno))
    return rr


def r15_b(ctx):
    repo = ctx.repo
    rr = RuleResult('R15.b', 'views are recomputed from the expression tree on every access: no view stores on the node, '
                    'no view is memoised', floor=10)
    ok_decos = {'property', 'to_list', 'staticmethod', 'classmethod'}
    for cname in ('TexNode', 'TexExpr', 'TexEnv', 'TexNamedEnv', 'TexCmd', 'TexText', 'TexArgs'):
        cls = repo.need_cls('data.' + cname)
        for nm, fds in cls.methods.items():
            for fd in fds:
                if 'property' not in fd.decorators and nm not in ('find_all', 'find', 'count', '__iter__', '__getitem__', '__contains__') \
                        and not (nm.startswith('__') and not nm.endswith('__')):
                    continue
                bad_deco = [d for d in fd.decorators if d not in ok_decos and not d.endswith('.setter')]
                stores = [n for n in ast.walk(fd.node) if isinstance(n, (ast.Assign, ast.AugAssign)) and any(
                    isinstance(t, ast.Attribute) and norm(t.value) == 'self' for t in (n.targets if isinstance(n, ast.Assign) else [n.target]))]
                glob = [n for n in ast.walk(fd.node) if isinstance(n, (ast.Global, ast.Nonlocal))]
                ok = not bad_deco and not stores and not glob
                rr.ob(ok, {'view': fd.qual, 'decorators': fd.decorators})
                if bad_deco:
                    rr.fail(Finding('R15.b', 'data', fd.qual, 'decorator %s' % bad_deco, 'the view %s is wrapped by %s: a '
                                    'cached result would survive an edit of the tree' % (fd.qual, bad_deco), line=fd.node.lineno))
                for n in stores:
                    rr.fail(Finding('R15.b', 'data', fd.qual, n, 'the view %s stores on the node (%s): a value computed '
                                    'before an edit can be served after it' % (fd.qual, norm(n)[:50]), line=n.lineno))
    # helpers reached from serialisers, comparisons, views and search must not memoise either
    from . import callgraph
    cg = callgraph.graph(ctx)
    roots = []
    for cname in ('TexNode', 'TexExpr', 'TexEnv', 'TexNamedEnv', 'TexCmd', 'TexText', 'TexArgs', 'TexGroup'):
        cls = repo.cls('data.' + cname)
        if cls is None:
            continue
        for nm, fds in cls.methods.items():
            for fd in fds:
                if nm in ('__str__', '__repr__', '__eq__', '__contains__', '__match__', 'find', 'find_all', 'count', '__iter__',
                          '__getitem__') or 'property' in fd.decorators:
                    if not any(d.endswith('.setter') for d in fd.decorators):
                        roots.append(fd)
    seen = set()
    for fd in cg.reachable(roots):
        if fd.module.name != 'data' or fd in seen or fd.name == '__init__' or any(d.endswith('.setter') for d in fd.decorators):
            continue
        seen.add(fd)
        if fd.name in ('append', 'insert', 'remove', 'delete', 'replace', 'replace_with', 'extend', 'pop', 'reverse', 'clear'):
            continue        # mutators reached through class-hierarchy over-approximation
        stores = [n for n in ast.walk(fd.node) if isinstance(n, (ast.Assign, ast.AugAssign)) and any(
            isinstance(t, ast.Attribute) and norm(t.value) == 'self' for t in (n.targets if isinstance(n, ast.Assign) else [n.target]))]
        if not stores:
            continue
        rr.ob(False, {'helper': fd.qual})
        for n in stores:
            rr.fail(Finding('R15.b', 'data', fd.qual, n, '%s is reached from a serialiser / view / search and stores on the '
                            'object (%s): a memoised value survives edits that do not invalidate it' % (fd.qual, norm(n)[:50]),
                            line=n.lineno))
    return rr


# --------------------------------------------------------------------------- kind flow (R15.c / R15.d)

def r15_c(ctx):
    """only expressions enter a content list: kinds of new material {TexNode, plain str, TexExpr} flow from the node
    mutators into the expression mutators; at every insertion into the content list the kind must be an expression"""
    repo = ctx.repo
    data = repo.modules['data']
    texexpr, _ = _expr_classes(repo)
    rr = RuleResult('R15.c', 'kind flow into content lists: new material given to append/insert/replace (node wrappers '
                    'and plain strings) is unwrapped / wrapped so that only expressions are stored -- every reader of '
                    'the list (children, all, search) handles exactly those', floor=2)
    K0 = frozenset({'TexNode', 'str', 'TexExpr'})
    # the node-level mutators forward their *nodes unchanged or transformed?
    node = repo.need_cls('data.TexNode')

    def sink_kinds(fd, start, depth=0):
        """kinds reaching content-list insertions in fd when its var-arg elements have kinds `start`;
        element kinds are followed one at a time, so class tests on them are decided"""
        var = fd.node.args.vararg.arg if fd.node.args.vararg else None
        results = []        # (call node, kinds, function)

        def test_value(t, env):
            """True / False / None (undecided) for a condition over singleton kinds"""
            if isinstance(t, ast.Call) and norm(t.func) == 'isinstance' and isinstance(t.args[0], ast.Name) and t.args[0].id in env \
                    and len(env[t.args[0].id]) == 1:
                names = [norm(e) for e in t.args[1].elts] if isinstance(t.args[1], ast.Tuple) else [norm(t.args[1])]
                return _kind_isinstance(repo, data, next(iter(env[t.args[0].id])), names)
            if isinstance(t, ast.UnaryOp) and isinstance(t.op, ast.Not):
                v = test_value(t.operand, env)
                return None if v is None else not v
            if isinstance(t, ast.Name) and ('#bool', t.id) in env:
                return env[('#bool', t.id)]        # a named sub-condition, decided where it was assigned
            if isinstance(t, ast.BoolOp):
                vals = [test_value(x, env) for x in t.values]
                if isinstance(t.op, ast.And):
                    if any(v is False for v in vals):
                        return False
                    return True if all(v is True for v in vals) else None
                if any(v is True for v in vals):
                    return True
                return False if all(v is False for v in vals) else None
            return None

        def calls_in(s):
            return [x for x in ast.walk(s) if isinstance(x, ast.Call)]

        def elem_kind(e, x, k):
            """kind of expression e when the element variable x has kind k"""
            if isinstance(e, ast.Name) and e.id == x:
                return k
            if isinstance(e, ast.Attribute) and isinstance(e.value, ast.Name) and e.value.id == x and e.attr == 'expr':
                return 'TexExpr' if k == 'TexNode' else 'unknown'
            if isinstance(e, ast.Call) and norm(e.func) == 'TexText':
                return 'TexExpr'
            if isinstance(e, ast.IfExp):
                tv = test_value(e.test, {x: frozenset({k})})
                if tv is True:
                    return elem_kind(e.body, x, k)
                if tv is False:
                    return elem_kind(e.orelse, x, k)
                a, b = elem_kind(e.body, x, k), elem_kind(e.orelse, x, k)
                return a if a == b else 'unknown'
            return 'unknown'

        def helper_of(call):
            hname = call.func.attr if isinstance(call.func, ast.Attribute) else (call.func.id if isinstance(call.func, ast.Name) else None)
            if hname is None:
                return None
            if isinstance(call.func, ast.Attribute):
                recv = norm(call.func.value)
                cls_ = fd.cls if recv in ('self', 'cls') else (data.classes.get(recv) if recv in data.classes else None)
                if cls_ is None:
                    return None
                o, kd, h = cls_.lookup(hname)
                return h if kd in ('method', 'staticmethod', 'classmethod') else None
            return data.functions.get(hname)

        def helper_kinds(h, k, depth_=0):
            """kinds a per-element helper returns for an argument of kind k: its body is run path by path over an
            environment of kinds (parameter and locals); conditions on kinds are decided, others fork"""
            params = [p_ for p_ in h.params() if p_ not in ('self', 'cls')]
            if len(params) != 1 or depth_ > 2:
                return {'unknown'}
            x = params[0]
            out = set()

            def kind_of(e, env):
                if isinstance(e, ast.Name) and e.id in env:
                    return env[e.id]
                if isinstance(e, ast.Attribute) and isinstance(e.value, ast.Name) and e.value.id in env and e.attr == 'expr':
                    return 'TexExpr' if env[e.value.id] == 'TexNode' else 'unknown'
                if isinstance(e, ast.Call) and norm(e.func) == 'TexText':
                    return 'TexExpr'
                if isinstance(e, ast.Call) and norm(e.func) == 'TexNode':
                    return 'TexNode'
                if isinstance(e, ast.IfExp):
                    tv = test_value(e.test, {n_: frozenset({k_}) for n_, k_ in env.items()})
                    if tv is True:
                        return kind_of(e.body, env)
                    if tv is False:
                        return kind_of(e.orelse, env)
                    a, b = kind_of(e.body, env), kind_of(e.orelse, env)
                    return a if a == b else 'unknown'
                return 'unknown'

            def go(stmts, env, conts):
                for i_, s_ in enumerate(stmts):
                    if isinstance(s_, ast.If):
                        tv = test_value(s_.test, {n_: frozenset({k_}) for n_, k_ in env.items()})
                        rest = (stmts[i_ + 1:],) + conts
                        if tv is not False:
                            go(list(s_.body), dict(env), rest)
                        if tv is not True:
                            go(list(s_.orelse), dict(env), rest)
                        return
                    if isinstance(s_, ast.Return):
                        out.add(kind_of(s_.value, env) if s_.value is not None else 'unknown')
                        return
                    if isinstance(s_, ast.Raise):
                        return
                    if isinstance(s_, ast.Assign) and len(s_.targets) == 1 and isinstance(s_.targets[0], ast.Name):
                        env[s_.targets[0].id] = kind_of(s_.value, env)
                        continue
                    if isinstance(s_, ast.Assign) and len(s_.targets) == 1 and isinstance(s_.targets[0], ast.Attribute) \
                            and s_.targets[0].attr == 'parent':
                        continue
                    if isinstance(s_, (ast.Expr, ast.Assert, ast.Pass)):
                        continue
                    out.add('unknown')
                    return
                if conts:
                    go(list(conts[0]), env, conts[1:])
                else:
                    out.add('unknown')      # falls off the end: returns None
            go(strip_doc(h.node.body), {x: k}, ())
            return out

        def mapped_kinds(call, env):
            """kinds of the elements of  helper(<var-arg>)  where helper returns  [E for x in <its parameter>]"""
            names = [a_ for a_ in call.args if isinstance(a_, ast.Name) and a_.id in env]
            if len(call.args) != 1 or not names:
                return None
            hname = call.func.attr if isinstance(call.func, ast.Attribute) else (call.func.id if isinstance(call.func, ast.Name) else None)
            helper = None
            if hname is not None:
                if isinstance(call.func, ast.Attribute) and fd.cls is not None:
                    o, kd, h = fd.cls.lookup(hname)
                    helper = h if kd in ('method', 'staticmethod', 'classmethod') else None
                elif hname in data.functions:
                    helper = data.functions[hname]
            if helper is None:
                return frozenset({'unknown'})
            body = strip_doc(helper.node.body)
            params = [p_ for p_ in helper.params() if p_ not in ('self', 'cls')]
            if len(body) == 1 and isinstance(body[0], ast.Return) and isinstance(body[0].value, (ast.ListComp, ast.GeneratorExp)) \
                    and len(params) == 1 and len(body[0].value.generators) == 1 and not body[0].value.generators[0].ifs \
                    and norm(body[0].value.generators[0].iter) == params[0] and isinstance(body[0].value.generators[0].target, ast.Name):
                x = body[0].value.generators[0].target.id
                return frozenset(elem_kind(body[0].value.elt, x, k) for k in env[names[0].id])
            return frozenset({'unknown'})

        def visit_calls(s, env):
            for c in calls_in(s):
                if isinstance(c.func, ast.Attribute) and _is_content_list(c.func.value) and c.func.attr in ('insert', 'append', 'extend'):
                    arg = c.args[-1] if c.args else None
                    if isinstance(arg, ast.Name) and arg.id in env:
                        results.append((c, env[arg.id], fd))
                if isinstance(c.func, ast.Attribute) and c.func.attr in ('insert', 'append') and not _is_content_list(c.func.value) \
                        and depth < 3:
                    # the receiver is this node's expression, or one of its argument groups: an expression either way
                    star = [a_ for a_ in c.args if isinstance(a_, ast.Starred)]
                    if star:
                        kinds = None
                        if isinstance(star[0].value, ast.Name) and star[0].value.id in env:
                            kinds = env[star[0].value.id]
                        elif isinstance(star[0].value, ast.Call):
                            kinds = mapped_kinds(star[0].value, env)
                        if kinds is not None:
                            tgt = _m(texexpr, c.func.attr)
                            results.extend(sink_kinds(tgt, kinds, depth + 1))

        def run(stmts, env):
            """-> list of environments at the end of the block (empty if every path left it)"""
            envs = [env]
            for s in stmts:
                nxt = []
                for e in envs:
                    if isinstance(s, ast.For):
                        it = s.iter
                        elem = None
                        if isinstance(it, ast.Name) and it.id == var:
                            elem = s.target.id if isinstance(s.target, ast.Name) else None
                        elif isinstance(it, ast.Call) and norm(it.func) == 'enumerate' and it.args and norm(it.args[0]) == var \
                                and isinstance(s.target, ast.Tuple):
                            elem = norm(s.target.elts[1])
                        if elem is not None:
                            for k in sorted(e.get(var, start)):
                                e2 = dict(e)
                                e2[elem] = frozenset({k})
                                run(s.body, e2)
                        else:
                            run(s.body, dict(e))
                        nxt.append(e)
                    elif isinstance(s, ast.If):
                        tv = test_value(s.test, e)
                        if tv is True:
                            nxt += run(s.body, dict(e))
                        elif tv is False:
                            nxt += run(s.orelse, dict(e))
                        else:
                            nxt += run(s.body, dict(e)) + run(s.orelse, dict(e))
                    elif isinstance(s, (ast.Continue, ast.Break, ast.Return, ast.Raise)):
                        if isinstance(s, ast.Return) and s.value is not None:
                            visit_calls(s, e)
                        continue
                    else:
                        _is_helper_asg = isinstance(s, ast.Assign) and isinstance(s.targets[0], ast.Name) and isinstance(s.value, ast.Call) \
                            and len(s.value.args) == 1 and not s.value.keywords and isinstance(s.value.args[0], ast.Name) \
                            and s.value.args[0].id in e and not isinstance(s.value.args[0].id, tuple) and helper_of(s.value) is not None
                        if _is_helper_asg and s.targets[0].id not in e:
                            e = dict(e)
                            e[s.targets[0].id] = frozenset(k2 for k in e[s.value.args[0].id] for k2 in helper_kinds(helper_of(s.value), k))
                            nxt.append(e)
                            continue
                        if isinstance(s, ast.Assign) and isinstance(s.targets[0], ast.Name) and s.targets[0].id in e:
                            v = s.targets[0].id
                            val = s.value
                            visit_calls(s, e)
                            e = dict(e)
                            if isinstance(val, ast.Attribute) and isinstance(val.value, ast.Name) and val.value.id == v and val.attr == 'expr':
                                e[v] = frozenset('TexExpr' if k == 'TexNode' else 'unknown' for k in e[v])
                            elif isinstance(val, ast.Call) and norm(val.func) == 'TexText':
                                e[v] = frozenset({'TexExpr'})
                            elif isinstance(val, ast.Call) and norm(val.func) == 'TexNode':
                                e[v] = frozenset({'TexNode'})
                            elif isinstance(val, ast.Call) and len(val.args) == 1 and not val.keywords and isinstance(val.args[0], ast.Name) \
                                    and val.args[0].id in e and helper_of(val) is not None:
                                e[v] = frozenset(k2 for k in e[val.args[0].id] for k2 in helper_kinds(helper_of(val), k))
                            elif isinstance(val, ast.IfExp) or isinstance(val, ast.Name):
                                e[v] = frozenset(elem_kind(val, v, k) for k in e[v]) if all(
                                    x.id in (v, 'isinstance') or (repo.resolve(data, x.id) or ('',))[0] == 'class'
                                    for x in ast.walk(val) if isinstance(x, ast.Name)) else frozenset({'unknown'})
                            else:
                                e[v] = frozenset({'unknown'})
                        else:
                            visit_calls(s, e)
                            if isinstance(s, ast.Assign) and len(s.targets) == 1 and isinstance(s.targets[0], ast.Name) \
                                    and isinstance(s.value, (ast.Call, ast.BoolOp, ast.UnaryOp, ast.Compare)):
                                tv_ = test_value(s.value, e)
                                e = dict(e)
                                e[('#bool', s.targets[0].id)] = tv_
                        nxt.append(e)
                envs = nxt
            return envs
        env0 = {var: start} if var else {}
        run(strip_doc(fd.node.body), env0)
        return results

    checked = 0
    for mname in ('append', 'insert', 'replace'):
        fd = _m(node, mname)
        # kinds after the node-level method's own processing are handled inside sink_kinds through delegation
        for call, kinds, where in sink_kinds(fd, K0):
            checked += 1
            bad = sorted(k for k in kinds if k != 'TexExpr')
            rr.ob(not bad, {'entry': fd.qual, 'stored_by': where.qual, 'kinds_reaching_content_list': sorted(kinds)})
            if bad:
                what = []
                if 'TexNode' in bad:
                    what.append('a node wrapper is stored as it is (it is printed, but it is not a child, is not searched '
                                'and the complete-content view rejects it)')
                if 'str' in bad:
                    what.append('a plain string is stored unwrapped (the complete-content view rejects it)')
                if 'unknown' in bad:
                    what.append('a value of unknown kind is stored')
                rr.fail(Finding('R15.c', 'data', where.qual, call, 'through %s, %s' % (fd.qual, '; '.join(what)), line=call.lineno))
    if checked == 0:
        raise AnalysisError('no insertion into a content list reached from the node mutators')
    return rr


def _kind_isinstance(repo, module, kind, names):
    for nm in names:
        if nm == kind:
            return True
        if kind == 'TexExpr':
            r = repo.resolve(module, nm)
            if r and r[0] == 'class' and r[1].name == 'TexExpr':
                return True
        if kind == 'str' and nm == 'str':
            return True
    return False


def r15_d(ctx):
    repo = ctx.repo
    data = repo.modules['data']
    node = repo.need_cls('data.TexNode')
    rr = RuleResult('R15.d', 'the text view admits every non-blank text kind the contents view can yield: parsed tokens '
                    'and plain strings alike, and recurses into everything else', floor=2)
    fd = _m(node, 'text', 'getter')
    if view_decided(ctx, rr, 'R15.d', 'TexNode', 'text', 'text leaves (parsed tokens or inserted strings) are missing from the '
                    'text view, or it does not recurse into child nodes'):
        rr.ob(True, {'text_view': 'decided as a sequence term'})
        return rr
    iss = _isinstance_classes(repo, data, fd.node)
    loops = [n for n in ast.walk(fd.node) if isinstance(n, ast.For)]
    if len(loops) != 1:
        raise AnalysisError('TexNode.text: outside the sequence algebra and of unknown shape')
    ok_src = len(loops) == 1 and norm(loops[0].iter) == 'self.contents'
    rr.ob(ok_src, {'text_view_iterates': norm(loops[0].iter) if loops else None})
    if not ok_src:
        rr.fail(Finding('R15.d', 'data', fd.qual, 'text view source', 'the text view is not derived from the contents view',
                        line=fd.node.lineno))
    if len(iss) < 1:
        rr.ob(False)
        rr.fail(Finding('R15.d', 'data', fd.qual, 'text predicate', 'the text view has no text predicate', line=fd.node.lineno))
        return rr
    var, names, call = iss[0]
    # kinds of text a contents view yields: Token (parsed) and plain str (inserted); Token is a str subclass
    tok = repo.need_cls('utils.Token')
    tok_is_str = any(b == 'str' for b in tok.bases)
    for kind in ('Token', 'str'):
        ok = ('str' in names) or (kind == 'Token' and ('Token' in names)) or (kind == 'str' and False)
        if kind == 'Token' and 'str' in names and not tok_is_str:
            ok = 'Token' in names
        rr.ob(ok, {'text_kind': kind, 'admitted': ok, 'predicate': names})
        if not ok:
            rr.fail(Finding('R15.d', 'data', fd.qual, call, 'the text view tests isinstance(%s, (%s)): a %s text leaf of the '
                            'contents view is neither listed nor recursed into, so inserted text is missing from .text'
                            % (var, ', '.join(names), 'plain-string' if kind == 'str' else 'token'), line=call.lineno))
    rec = any(isinstance(n, ast.YieldFrom) and norm(n.value).endswith('.text') for n in ast.walk(fd.node))
    rr.ob(rec, {'recurses_into_nodes': rec})
    if not rec:
        rr.fail(Finding('R15.d', 'data', fd.qual, 'text recursion', 'the text view does not recurse into child nodes',
                        line=fd.node.lineno))
    return rr


# =========================================================================== renaming (C14)

def r14_a(ctx):
    repo = ctx.repo
    rr = RuleResult('R14.a', 'the delimiters of a named environment are derived from its current name each time they are '
                    'read, and the serialiser reads them through that derivation', floor=3)
    named = repo.need_cls('data.TexNamedEnv')
    for attr in ('begin', 'end'):
        owner, kind, payload = named.lookup(attr)
        from .model import effective_method
        gnode = effective_method(named, payload['getter']).node if kind == 'property' and 'getter' in payload else None
        ok = kind == 'property' and 'getter' in payload and owner is named and any(
            norm(x) == 'self.name' for x in ast.walk(gnode)) and not any(
            isinstance(x, ast.Attribute) and x.attr in ('_begin', '_end') for x in ast.walk(gnode))
        rr.ob(ok, {'class': 'TexNamedEnv', 'delimiter': attr, 'reads_live_name': ok})
        if not ok:
            rr.fail(Finding('R14.a', 'data', 'TexNamedEnv.%s' % attr, 'TexNamedEnv.%s' % attr, 'the %s delimiter of a named '
                            'environment is not computed from its current name: renaming would leave \\%s{old}' % (attr, attr),
                            line=named.node.lineno))
    env = repo.need_cls('data.TexEnv')
    fd = _m(env, '__str__')
    reads = {n.attr for n in ast.walk(fd.node) if isinstance(n, ast.Attribute) and norm(n.value) == 'self'}
    ok = 'begin' in reads and 'end' in reads and not ({'_begin', '_end'} & reads)
    rr.ob(ok, {'serialiser_reads': sorted(reads)})
    if not ok:
        rr.fail(Finding('R14.a', 'data', fd.qual, 'TexEnv.__str__ reads %s' % sorted(reads & {'_begin', '_end', 'begin', 'end'}),
                        'the environment serialiser prints a construction-time copy of the delimiters: a renamed '
                        'environment keeps its old \\begin/\\end', line=fd.node.lineno))
    return rr


def r14_b(ctx):
    repo = ctx.repo
    node = repo.need_cls('data.TexNode')
    texexpr, _ = _expr_classes(repo)
    rr = RuleResult('R14.b', 'the node setters for name, args, string and contents write through to the underlying '
                    'expression (wrappers are rebuilt on every access, so a write to the wrapper would be lost)', floor=5)
    want = {'name': 'self.expr.name', 'args': 'self.expr.args', 'contents': 'self.expr.contents'}
    for attr, target in want.items():
        fd = _m(node, attr, 'setter')
        p = fd.params()[1]
        ok = any(isinstance(n, ast.Assign) and norm(n.targets[0]) == target and norm(n.value) == p for n in ast.walk(fd.node))
        rr.ob(ok, {'setter': 'TexNode.%s' % attr, 'writes': target})
        if not ok:
            rr.fail(Finding('R14.b', 'data', fd.qual, 'TexNode.%s setter' % attr, 'assigning node.%s does not assign %s: the '
                            'change is lost or lands elsewhere' % (attr, target), line=fd.node.lineno))
    fd = _m(node, 'args', 'setter')
    p = fd.params()[1]
    ok = any(isinstance(n, ast.Assert) and norm(n.test) == 'isinstance(%s, TexArgs)' % p for n in ast.walk(fd.node))
    rr.ob(ok, {'args_setter_admits': 'TexArgs only'})
    if not ok:
        rr.fail(Finding('R14.b', 'data', fd.qual, 'args setter type check', 'the args setter does not require an argument '
                        'list', line=fd.node.lineno))
    fd = _m(node, 'string', 'setter')
    p = fd.params()[1]
    t = [norm(s) for s in ast.walk(fd.node) if isinstance(s, ast.Assign)]
    ok = any(x == 'self.expr.args[0].string = %s' % p for x in t) and any(x == 'self.contents = [%s]' % p for x in t)
    if not ok:
        # other spellings: some assignment gives the new value to a `.string`, another puts it into `.contents`
        asg = [s_ for s_ in ast.walk(fd.node) if isinstance(s_, ast.Assign) and len(s_.targets) == 1
               and isinstance(s_.targets[0], ast.Attribute)]
        to_string = [s_ for s_ in asg if s_.targets[0].attr == 'string' and norm(s_.value) == p]
        to_contents = [s_ for s_ in asg if s_.targets[0].attr == 'contents'
                       and any(isinstance(x, ast.Name) and x.id == p for x in ast.walk(s_.value))]
        if to_string and to_contents:
            ok = True
        elif not to_string and not to_contents and not any(s_.targets[0].attr in ('string', 'contents', '_contents') for s_ in asg):
            raise AnalysisError('TexNode.string setter: no assignment to a .string / .contents attribute found (shape not '
                                'recognised)')
    rr.ob(ok, {'string_setter': t[:4]})
    if not ok:
        rr.fail(Finding('R14.b', 'data', fd.qual, 'string setter', 'assigning node.string does not replace the text of the '
                        'single argument (command) / the single text content (environment)', line=fd.node.lineno))
    # "text-only environment" is judged on the view the user sees (`contents`: whitespace-only pieces such as the line
    # break after \begin{..} do not count), in the getter and in the setter alike
    from .model import resolve_locals as _rl14
    for role in ('getter', 'setter'):
        fdv = _m(node, 'string', role)
        for n in ast.walk(fdv.node):
            if isinstance(n, ast.Call) and isinstance(n.func, ast.Name) and n.func.id == 'len' and len(n.args) == 1:
                par = getattr(n, '_parent', None)
                if not (isinstance(par, ast.Compare) and any(isinstance(c_, ast.Constant) and c_.value == 1
                                                            for c_ in [par.left] + par.comparators)):
                    continue
                what = norm(_rl14(fdv.node, n.args[0]))
                if 'args' in what:
                    continue        # the single-argument test of commands
                raw = '_contents' in what or what.endswith('.all') or '.all)' in what
                rr.ob(not raw, {'string_%s_counts' % role: what[:60]})
                if raw:
                    rr.fail(Finding('R14.b', 'data', fdv.qual, n, 'the %s of node.string counts the pieces of the raw content '
                                    'list (%s) to decide "only text content": an environment whose text is preceded by a '
                                    'whitespace-only piece (a blank line after \\begin{..}) is refused although its '
                                    'contents are one text' % (role, what[:50]), line=n.lineno))
    fd = _m(texexpr, 'contents', 'setter')
    p = fd.params()[1]
    ok = any(isinstance(n, ast.Assign) and norm(n.targets[0]) == 'self._contents' for n in ast.walk(fd.node))
    rr.ob(ok, {'expression_contents_setter': 'assigns the raw content list'})
    if not ok:
        rr.fail(Finding('R14.b', 'data', fd.qual, 'contents setter', 'assigning contents does not replace the raw content '
                        'list the serialiser prints', line=fd.node.lineno))
    fd = _m(texexpr, 'string', 'setter')
    p = fd.params()[1]
    ok = any(isinstance(n, ast.Assign) and norm(n.targets[0]) == 'self.contents' and p in norm(n.value) for n in ast.walk(fd.node))
    rr.ob(ok, {'expression_string_setter': 'replaces contents by the new text'})
    if not ok:
        rr.fail(Finding('R14.b', 'data', fd.qual, 'expression string setter', 'assigning the string of a group does not '
                        'replace its contents by the new text', line=fd.node.lineno))
    return rr
