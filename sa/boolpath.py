"""Truth-table evaluation of small statement blocks: decides *under which condition* a loop body yields / a block
reaches a statement, independent of how the condition is spelled (nested ifs, early `continue`, De Morgan, named
sub-conditions).  Atoms are the maximal non-boolean sub-expressions, identified by their normalised text after
substituting boolean-valued locals assigned in the block."""
import ast
import itertools

from .model import norm


class NotStructured(Exception):
    pass


def _atoms(e, env, out):
    if isinstance(e, ast.BoolOp):
        for v in e.values:
            _atoms(v, env, out)
    elif isinstance(e, ast.UnaryOp) and isinstance(e.op, ast.Not):
        _atoms(e.operand, env, out)
    elif isinstance(e, ast.Name) and e.id in env:
        _atoms(env[e.id], env, out)
    elif isinstance(e, ast.Constant) and isinstance(e.value, bool):
        pass
    else:
        t = norm(e)
        if t not in out:
            out.append(t)


def _ev(e, env, val):
    if isinstance(e, ast.BoolOp):
        if isinstance(e.op, ast.And):
            return all(_ev(v, env, val) for v in e.values)
        return any(_ev(v, env, val) for v in e.values)
    if isinstance(e, ast.UnaryOp) and isinstance(e.op, ast.Not):
        return not _ev(e.operand, env, val)
    if isinstance(e, ast.Name) and e.id in env:
        return _ev(env[e.id], env, val)
    if isinstance(e, ast.Constant) and isinstance(e.value, bool):
        return e.value
    return val[norm(e)]


def _bool_locals(stmts, env):
    """locals assigned once, in the block, from a boolean-structured expression"""
    counts = {}
    for s in stmts:
        for n in ast.walk(s):
            if isinstance(n, ast.Assign) and len(n.targets) == 1 and isinstance(n.targets[0], ast.Name):
                counts.setdefault(n.targets[0].id, []).append(n.value)
            elif isinstance(n, (ast.AugAssign, ast.For)) :
                t = n.target
                if isinstance(t, ast.Name):
                    counts.setdefault(t.id, []).append(None)
    for k, vs in counts.items():
        if len(vs) == 1 and vs[0] is not None and isinstance(vs[0], (ast.BoolOp, ast.Compare, ast.UnaryOp, ast.Call)) \
                and isinstance(vs[0], (ast.BoolOp, ast.UnaryOp)):
            env[k] = vs[0]
    return env


def collect_atoms(stmts, env=None):
    env = _bool_locals(stmts, dict(env or {}))
    out = []

    def walk(ss):
        for s in ss:
            if isinstance(s, ast.If):
                _atoms(s.test, env, out)
                walk(s.body)
                walk(s.orelse)
            elif isinstance(s, (ast.For, ast.While, ast.Try, ast.With)):
                raise NotStructured(type(s).__name__)
    walk(stmts)
    return out, env


def run_block(stmts, env, val, on_stmt):
    """execute the block under the atom valuation `val`; on_stmt(stmt) is called for every simple statement
    reached; returns 'next' | 'continue' | 'break' | 'return' | 'raise'"""
    for s in stmts:
        if isinstance(s, ast.If):
            r = run_block(s.body if _ev(s.test, env, val) else s.orelse, env, val, on_stmt)
            if r != 'next':
                return r
        elif isinstance(s, ast.Continue):
            return 'continue'
        elif isinstance(s, ast.Break):
            return 'break'
        elif isinstance(s, ast.Return):
            on_stmt(s)
            return 'return'
        elif isinstance(s, ast.Raise):
            return 'raise'
        else:
            on_stmt(s)
    return 'next'


def yield_table(stmts):
    """for a loop body: (atoms, {valuation tuple: [yielded expressions]})"""
    atoms, env = collect_atoms(stmts)
    if len(atoms) > 10:
        raise NotStructured('too many atoms')
    table = {}
    for bits in itertools.product((False, True), repeat=len(atoms)):
        val = dict(zip(atoms, bits))
        ys = []

        def on_stmt(s):
            for n in ast.walk(s):
                if isinstance(n, ast.Yield):
                    ys.append(n.value)
        run_block(stmts, env, val, on_stmt)
        table[bits] = ys
    return atoms, table
