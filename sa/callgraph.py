"""E2 -- resolved call graph over /repo/TexSoup.

Name calls resolve through the module symbol tables (imports, star imports with __all__);
constructor calls resolve to the MRO-resolved __init__/__new__; `self.m()` / `super().m()`
resolve through the MRO of the enclosing class; other attribute calls `x.m()` resolve by
class-hierarchy analysis to every method named m of a repo class (an over-approximation),
except for receivers that are known builtins.  Property reads `x.p` are call edges to the
getter (and stores to the setter) for names that are properties of some repo class.
"""
import ast

from .model import AnalysisError, norm


class CallGraph:
    def __init__(self, repo):
        self.repo = repo
        self.edges = {}         # FuncDef -> set(FuncDef)
        self.sites = {}         # callee FuncDef -> [(caller FuncDef, ast.Call)]
        self.unresolved = []
        self.resolved = 0
        self.methods_by_name = {}
        self.props_by_name = {}
        self.nested = {}        # FuncDef -> [FuncDef of nested defs]
        for c in repo.all_classes():
            for name, fds in c.methods.items():
                for fd in fds:
                    if 'property' in fd.decorators or any(d.endswith('.setter') for d in fd.decorators):
                        self.props_by_name.setdefault(name, []).append(fd)
                    else:
                        self.methods_by_name.setdefault(name, []).append(fd)
        self.all = list(repo.all_funcs())
        for fd in self.all:
            self.edges[fd] = set()
        for fd in self.all:
            self._scan(fd)

    def _add(self, caller, callee, call=None):
        self.edges.setdefault(caller, set()).add(callee)
        if call is not None:
            self.sites.setdefault(callee, []).append((caller, call))

    def class_entry(self, cinfo):
        out = []
        for special in ('__init__', '__new__'):
            owner, kind, payload = cinfo.lookup(special)
            if kind == 'method':
                out.append(payload)
        return out

    def _scan(self, fd):
        repo = self.repo
        mod = fd.module
        for n in ast.walk(fd.node):
            if isinstance(n, ast.Call):
                f = n.func
                if isinstance(f, ast.Name):
                    r = repo.resolve(mod, f.id)
                    if r and r[0] == 'func':
                        self._add(fd, r[1], n)
                        self.resolved += 1
                    elif r and r[0] == 'class':
                        for e in self.class_entry(r[1]):
                            self._add(fd, e, n)
                        self.resolved += 1
                    elif f.id in ('next', 'iter', 'list', 'str', 'len', 'repr', 'map', 'filter', 'any', 'all', 'sorted'):
                        # protocol calls: next(x) -> __next__, str(x) -> __str__, len -> __len__ ...
                        proto = {'next': ['__next__'], 'iter': ['__iter__'], 'list': ['__iter__', '__next__'],
                                 'str': ['__str__'], 'len': ['__len__'], 'repr': ['__repr__'],
                                 'map': ['__str__', '__repr__'], 'sorted': ['__iter__']}.get(f.id, [])
                        for p in proto:
                            for m in self.methods_by_name.get(p, []):
                                self._add(fd, m)
                    elif isinstance(f, ast.Name):
                        self.unresolved.append((fd.fq, norm(n)[:60]))
                elif isinstance(f, ast.Attribute):
                    recv = f.value
                    targets = []
                    if isinstance(recv, ast.Name) and recv.id == 'self' and fd.cls is not None:
                        owner, kind, payload = fd.cls.lookup(f.attr)
                        if kind in ('method', 'classmethod', 'staticmethod'):
                            targets = [payload]
                            # subclasses may override
                            for sub in repo.subclasses(fd.cls, strict=True):
                                if f.attr in sub.methods:
                                    targets += [x for x in sub.methods[f.attr]]
                    elif isinstance(recv, ast.Call) and isinstance(recv.func, ast.Name) and recv.func.id == 'super' \
                            and fd.cls is not None:
                        for c in fd.cls.mro[1:]:
                            if hasattr(c, 'methods') and f.attr in c.methods:
                                targets = [c.methods[f.attr][-1]]
                                break
                    elif isinstance(recv, ast.Name) and repo.resolve(mod, recv.id) and repo.resolve(mod, recv.id)[0] == 'class':
                        ci = repo.resolve(mod, recv.id)[1]
                        owner, kind, payload = ci.lookup(f.attr)
                        if kind in ('method', 'classmethod', 'staticmethod'):
                            targets = [payload]
                    if not targets:
                        targets = list(self.methods_by_name.get(f.attr, []))
                    for t in targets:
                        self._add(fd, t, n)
                    if targets:
                        self.resolved += 1
                elif isinstance(f, ast.Call):
                    # make_read_peek(read_command)(...) : edge to the wrapped function and the factory
                    for a in f.args:
                        if isinstance(a, ast.Name):
                            r = repo.resolve(mod, a.id)
                            if r and r[0] == 'func':
                                self._add(fd, r[1], n)
                                self.resolved += 1
                elif isinstance(f, ast.Subscript):
                    # TABLE[key](...) : constructor of any class stored in the table
                    try:
                        from .model import Folder, ClassRef
                        tab = Folder(repo, mod).ev(f.value)
                        for v in (tab.values() if isinstance(tab, dict) else tab):
                            if isinstance(v, ClassRef):
                                for e in self.class_entry(v.info):
                                    self._add(fd, e, n)
                        self.resolved += 1
                    except Exception:       # noqa
                        self.unresolved.append((fd.fq, norm(n)[:60]))
            elif isinstance(n, ast.Attribute):
                # property access
                for p in self.props_by_name.get(n.attr, []):
                    is_setter = any(d.endswith('.setter') for d in p.decorators)
                    if isinstance(n.ctx, ast.Store) == is_setter:
                        self._add(fd, p)
            elif isinstance(n, (ast.For, ast.comprehension)):
                for m in self.methods_by_name.get('__iter__', []) + self.methods_by_name.get('__next__', []):
                    self._add(fd, m)
            elif isinstance(n, ast.Subscript):
                for m in self.methods_by_name.get('__getitem__', []):
                    self._add(fd, m)
            elif isinstance(n, ast.Compare):
                for op in n.ops:
                    if isinstance(op, (ast.In, ast.NotIn)):
                        for m in self.methods_by_name.get('__contains__', []):
                            self._add(fd, m)
                    if isinstance(op, (ast.Eq, ast.NotEq)):
                        for m in self.methods_by_name.get('__eq__', []):
                            self._add(fd, m)
            elif isinstance(n, (ast.BinOp, ast.AugAssign)) and isinstance(n.op, ast.Add):
                for nm in ('__add__', '__radd__', '__iadd__'):
                    for m in self.methods_by_name.get(nm, []):
                        self._add(fd, m)
            elif isinstance(n, (ast.FunctionDef,)) and n is not fd.node:
                pass

    def reachable(self, roots):
        seen, work = set(), list(roots)
        while work:
            f = work.pop()
            if f in seen:
                continue
            seen.add(f)
            work.extend(self.edges.get(f, ()))
        return seen

    def call_sites_of(self, fd):
        return self.sites.get(fd, [])


def graph(ctx):
    return ctx.memo('callgraph', lambda: CallGraph(ctx.repo))
