"""E3 -- cursor-effect analysis of the reader (reader.py) and of the composite methods of
utils.Buffer.

Abstract state per path: `avail` (lower bound on the number of items known to exist at the
cursor), `eof` (the cursor is known to be exhausted), the cursor position as `sym + [lo,hi]`
(movement relative to a symbolic base; base 'E' = function entry), a progress flag per active
loop, and abstract values of locals.  Callees are analysed in the caller's actual context,
memoised on (function, constant arguments, entry avail/eof), to a fixpoint over recursion.

Reports: next() with no item known (StopIteration leak), attribute access on a peek that may be
None, loops whose back edge can be reached without progress, and exposes per-context summaries
(movement, exits, raise sets) to other rules.
"""
import ast
import collections

from .model import AnalysisError, Unfoldable, Folder, FEnumMember, ClassRef, FuncRef, norm
from .interp import Interp, Raised, Unsupported, NEXT, BREAK, CONTINUE, BROKE, strip_doc

CAP_AVAIL = 3
CAP_LO = 3
INF = 'inf'

PRIMS_NONMOVING = {'peek', 'hasNext', 'startswith', 'endswith'}


def hi_add(a, b):
    if a == INF or b == INF:
        return INF
    s = a + b
    return s if s <= 3 else INF


def lo_add(a, b):
    return min(a + b, CAP_LO) if a + b >= 0 else a + b


class CSt:
    __slots__ = ('avail', 'eof', 'sym', 'lo', 'hi', 'prog', 'vars', 'imprecise')

    def __init__(self, avail=0, eof=False, sym='E', lo=0, hi=0, prog=(), vars=None, imprecise=False):
        self.avail, self.eof, self.sym, self.lo, self.hi, self.prog = avail, eof, sym, lo, hi, prog
        self.vars = vars if vars is not None else {}
        self.imprecise = imprecise

    def copy(self):
        return CSt(self.avail, self.eof, self.sym, self.lo, self.hi, self.prog, dict(self.vars), self.imprecise)

    def key(self):
        return (self.avail, self.eof, self.sym, self.lo, self.hi, self.prog,
                frozenset(self.vars.items()), self.imprecise)


class Site:
    """an analysed dereference / next / loop site"""

    def __init__(self, kind, fd, node):
        self.kind, self.fd, self.node = kind, fd, node

    def key(self):
        return (self.kind, self.fd.fq, norm(self.node))


class CFinding:
    def __init__(self, kind, fd, node, detail, chain, entry):
        self.kind, self.fd, self.node, self.detail, self.chain, self.entry = kind, fd, node, detail, chain, entry

    def key(self):
        return (self.kind, self.fd.fq, norm(self.node))


Exit = collections.namedtuple('Exit', 'ret avail eof sym lo hi')


class Closure:
    """nested function value with the defining frame's variables it may read (by name)"""

    def __init__(self, node, fd, env):
        self.node, self.fd, self.env = node, fd, env

    def __hash__(self):
        return hash((id(self.node)))

    def __eq__(self, o):
        return isinstance(o, Closure) and o.node is self.node

    def __repr__(self):
        return '<closure %s>' % getattr(self.node, 'name', 'lambda')


class CursorEngine:
    def __init__(self, repo):
        self.repo = repo
        self.reader = repo.modules['reader']
        self.buffer_cls = repo.need_cls('utils.Buffer')
        self.memo = {}              # ctxkey -> set(Exit)
        self.raises = {}            # ctxkey -> set(exc)
        self.inprogress = set()
        self.changed = False
        self.findings = {}
        self.sites = {}             # Site.key() -> ok(bool)   (a site is ok if never reached in a bad state)
        self.contexts = set()
        self.calls_resolved = 0
        self.calls_opaque = collections.Counter()
        self.loop_sites = {}
        self.chain = []
        self.max_depth = 60
        self.peek_wrappers = {}     # FuncDef of a wrapper factory -> proven delta-0?

    # ------------------------------------------------------------------ public
    def run(self, entry_fq='reader.read_tex', avail=0, entry_consts=None):
        fd = self.repo.need_func(entry_fq)
        params = fd.params()
        # the entry point's options are unknown (both tolerance modes, any skip list) unless fixed by the caller
        bound = {p: ('unknown',) for p in params}
        bound[params[0]] = ('cursor',)
        for p, v in (entry_consts or {}).items():
            bound[p] = v
        for _ in range(12):
            self.changed = False
            self.inprogress.clear()
            self.pass_memo = set()
            self.analyse(fd, bound, avail, False, ())
            if not self.changed:
                return
        raise AnalysisError('cursor analysis did not reach a fixpoint in 12 rounds')

    def fold_default(self, node, fd):
        try:
            v = Folder(self.repo, fd.module).ev(node)
        except Unfoldable:
            return ('unknown',)
        return lift(v)

    # ------------------------------------------------------------------ contexts
    def ctxkey(self, fd, bound, avail, eof):
        consts = tuple(sorted((k, v) for k, v in bound.items()
                              if v[0] in ('const', 'func', 'cursor', 'closure', 'emptytok', 'tok')))
        return (fd.fq if not isinstance(fd, Closure) else ('closure', id(fd.node)), consts, avail, eof)

    def analyse(self, fd, bound, avail, eof, chain):
        """-> (set(Exit), set(raises))"""
        key = self.ctxkey(fd, bound, avail, eof)
        if key in self.pass_memo:
            return self.memo.get(key, set()), self.raises.get(key, set())
        if key in self.inprogress:
            return self.memo.get(key, set()), self.raises.get(key, set())
        if len(chain) > self.max_depth:
            raise AnalysisError('context chain too deep at %s' % fd.fq)
        self.inprogress.add(key)
        self.contexts.add(key)
        it = CursorInterp(self, fd, chain)
        st = CSt(avail=avail, eof=eof, vars=dict(bound))
        node = fd.node
        body = strip_doc(node.body) if not isinstance(node, ast.Lambda) else None
        exits, raises = set(), set()
        if body is None:
            outs = [(('return', v), s) for v, s in it.ev(node.body, st)]
        else:
            outs = it.block(body, st)
        for out, s1 in outs:
            if out == NEXT:
                exits.add(Exit(('const', None), s1.avail, s1.eof, s1.sym, s1.lo, s1.hi))
            elif out[0] == 'return':
                rv = out[1] if out[1] is not None else ('const', None)
                if isinstance(rv, Raised):
                    raises.add(rv.exc)
                    continue
                exits.add(Exit(summarise(rv), s1.avail, s1.eof, s1.sym, s1.lo, s1.hi))
            elif out[0] == 'raise':
                raises.add(out[1])
            else:
                raise AnalysisError('break/continue escapes %s' % fd.fq)
        exits = merge_exits(exits)
        self.inprogress.discard(key)
        self.pass_memo.add(key)
        if self.memo.get(key) != exits or self.raises.get(key) != raises:
            if key in self.memo or exits or raises:
                if self.memo.get(key, set()) != exits or self.raises.get(key, set()) != raises:
                    self.changed = True
            self.memo[key] = exits
            self.raises[key] = raises
        return exits, raises

    def note(self, kind, fd, node, detail, chain, st):
        f = CFinding(kind, fd, node, detail, list(chain), {'avail': st.avail, 'eof': st.eof})
        self.findings.setdefault(f.key(), f)

    def site(self, kind, fd, node, ok):
        k = (kind, fd.fq if not isinstance(fd, Closure) else fd.fd.fq, norm(node))
        self.sites[k] = self.sites.get(k, True) and ok


def merge_exits(exits):
    """join exits that differ only in the movement interval"""
    groups = {}
    for ex in exits:
        k = (ex.ret, ex.avail, ex.eof, ex.sym)
        if k in groups:
            g = groups[k]
            lo = min(g.lo, ex.lo)
            hi = INF if INF in (g.hi, ex.hi) else max(g.hi, ex.hi)
            groups[k] = Exit(ex.ret, ex.avail, ex.eof, ex.sym, lo, hi)
        else:
            groups[k] = ex
    return set(groups.values())


def lift(v):
    if isinstance(v, (set, frozenset)):
        return ('constset', frozenset(v))
    if isinstance(v, FuncRef):
        return ('func', v.fdef)
    if isinstance(v, ClassRef):
        return ('class', v.info)
    if isinstance(v, (dict, list)):
        return ('constobj', id(v))
    if isinstance(v, tuple):
        try:
            hash(v)
            return ('const', v)
        except TypeError:
            return ('constobj', id(v))
    return ('const', v)


def summarise(v):
    """return values crossing a call boundary: keep what callers test"""
    t = v[0]
    if t in ('const', 'truthy', 'falsy', 'tok', 'seq', 'unknown', 'int?', 'cursor', 'node', 'emptytok'):
        return v
    if t == 'tuple':
        return ('tuple', tuple(summarise(x) for x in v[1]))
    if t == 'maybe':
        return ('unknown',)
    return ('unknown',)


class CursorInterp(Interp):
    def __init__(self, eng, fd, chain):
        super().__init__()
        self.eng, self.fd, self.chain = eng, fd, chain
        self.repo = eng.repo
        self.module = fd.module if not isinstance(fd, Closure) else fd.fd.module
        self.realfd = fd if not isinstance(fd, Closure) else fd.fd

    def where(self, n):
        return '%s.py:%s' % (self.module.name, getattr(n, 'lineno', '?'))

    # ------------------------------------------------------------------ cursor primitives
    def moved(self, st, n):
        """cursor moved by exactly n (n may be negative)"""
        s = st.copy()
        if n > 0:
            s.avail = max(s.avail - n, 0)
            s.prog = tuple(True for _ in s.prog)
        elif n < 0:
            s.avail = min(s.avail - n, CAP_AVAIL)
            s.eof = False
        s.lo = lo_add(s.lo, n)
        s.hi = hi_add(s.hi, n)
        self.invalidate(s)
        return s

    def moved_unknown(self, st, lo, hi, avail_out, eof_out, sym=None):
        s = st.copy()
        s.avail = avail_out
        s.eof = eof_out
        if sym is not None and sym != 'E':
            s.sym, s.lo, s.hi = sym, 0, 0
        else:
            s.lo = lo_add(s.lo, lo)
            s.hi = hi_add(s.hi, hi)
        if lo >= 1:
            s.prog = tuple(True for _ in s.prog)
        if hi != 0:
            self.invalidate(s)
        return s

    def invalidate(self, s):
        for k, v in list(s.vars.items()):
            if v[0] in ('maybe', 'boolfact'):
                s.vars[k] = ('unknown',)

    def prim(self, meth, n, args, kw, st):
        """Buffer primitive on the cursor -> [(value, state)]"""
        eng = self.eng
        if meth == 'hasNext':
            k = 1
            if args:
                if args[0][0] == 'const' and isinstance(args[0][1], int):
                    k = args[0][1]
                else:
                    return [(('unknown',), st)]
            outs = []
            if st.avail >= k:
                return [(('const', True), st)]
            if st.eof and k >= 1:
                return [(('const', False), st)]
            s_t = st.copy()
            s_t.avail = max(s_t.avail, min(k, CAP_AVAIL))
            outs.append((('const', True), s_t))
            s_f = st.copy()
            if k == 1:
                s_f.eof = True
            outs.append((('const', False), s_f))
            return outs
        if meth == 'peek':
            if not args:
                off = 0
            elif args[0][0] == 'const' and isinstance(args[0][1], int):
                off = args[0][1]
            elif args[0][0] in ('tuple', 'const'):
                return [(('rangepeek',), st)]       # slice peek: never None for in-range bounds, may be shorter
            else:
                return [(('unknown',), st)]
            if off < 0:
                return [(('maybe', off), st)]
            if off >= CAP_AVAIL:
                # beyond what the availability counter can express: not tracked (no claim either way)
                return [(('unknown',), st)]
            if st.avail > off:
                return [(('tok',), st)]
            if st.eof and off >= 0:
                return [(('const', None), st)]
            return [(('maybe', off), st)]
        if meth == 'startswith':
            # a non-empty prefix test can only succeed if an item exists
            return [(('prefixtest',), st)]
        if meth == 'endswith':
            return [(('unknown',), st)]
        if meth == 'forward':
            k = 1
            if args:
                if args[0][0] == 'const' and isinstance(args[0][1], int):
                    k = args[0][1]
                else:
                    s = self.moved_unknown(st, 0, INF, 0, False)
                    return [(('unknown',), s)]
            return [(('tokslice', k), self.moved(st, k))]
        if meth == 'backward':
            if not args:
                return [(('unknown',), self.moved(st, -1))]
            a = args[0]
            if a[0] == 'const' and isinstance(a[1], int):
                return [(('unknown',), self.moved(st, -a[1]))]
            if a[0] == 'posdiff':
                # current position (sym, lo..hi) minus (A, a) plus (B, b)
                (A, a_lo, a_hi), (B, b_lo, b_hi) = a[1][:3], a[2][:3]
                snap_avail = a[2][3] if len(a[2]) > 3 else 0
                if A == st.sym and a_lo == st.lo and a_hi == st.hi:
                    s = st.copy()
                    s.sym, s.lo, s.hi = B, b_lo, b_hi
                    # what was consumed since the snapshot exists again at the cursor
                    back = (a_lo - b_lo) if (A == B and isinstance(a_lo, int) and isinstance(b_lo, int)) else 0
                    s.avail = min(CAP_AVAIL, max(st.avail + max(back, 0), snap_avail, 1 if (A == B and (a_lo, a_hi) != (b_lo, b_hi)) else 0))
                    s.eof = False
                    self.invalidate(s)
                    return [(('unknown',), s)]
            s = self.moved_unknown(st, -8, 0, 0, False, sym='U%d' % id(n))
            return [(('unknown',), s)]
        if meth == 'position':
            # the snapshot also remembers what was known to exist there (restored by a rollback to it)
            return [(('pos', st.sym, st.lo, st.hi, st.avail), st)]
        return None

    # ------------------------------------------------------------------ expressions
    def fold_try(self, n, st):
        for x in ast.walk(n):
            if isinstance(x, ast.Name) and x.id in st.vars:
                return None
        try:
            return Folder(self.repo, self.module).ev(n)
        except Unfoldable:
            return None

    def ev_Constant(self, n, st):
        return [(('const', n.value), st)]

    def ev_Name(self, n, st):
        if n.id in st.vars:
            return [(st.vars[n.id], st)]
        if isinstance(self.fd, Closure) and n.id in self.fd.env:
            return [(self.fd.env[n.id], st)]
        r = self.repo.resolve(self.module, n.id)
        if r is not None:
            if r[0] == 'func':
                return [(('func', r[1]), st)]
            if r[0] == 'class':
                return [(('class', r[1]), st)]
            v = self.fold_try(n, st)
            if v is not None:
                return [(lift(v), st)]
            return [(('unknown',), st)]
        if n.id in ('None', 'True', 'False'):
            return [(('const', {'None': None, 'True': True, 'False': False}[n.id]), st)]
        if n.id in __builtins__ if isinstance(__builtins__, dict) else hasattr(__builtins__, n.id):
            return [(('builtin', n.id), st)]
        # possibly-unbound local
        self.eng.note('unbound-local', self.realfd, n, 'local %r may be read before assignment on this path' % n.id,
                      self.chain, st)
        return [(Raised('UnboundLocalError', n), st)]

    def ev_Tuple(self, n, st):
        outs = []
        for vals, s1 in self.evs([e.value if isinstance(e, ast.Starred) else e for e in n.elts], st):
            outs.append((vals if isinstance(vals, Raised) else ('tuple', tuple(vals)), s1))
        return outs

    def ev_List(self, n, st):
        outs = []
        for vals, s1 in self.evs([e.value if isinstance(e, ast.Starred) else e for e in n.elts], st):
            if isinstance(vals, Raised):
                outs.append((vals, s1))
            else:
                outs.append((('seq', True if n.elts and not any(isinstance(e, ast.Starred) for e in n.elts) else (None if n.elts else False)), s1))
        return outs

    ev_Set = ev_List

    def ev_Dict(self, n, st):
        outs = []
        for vals, s1 in self.evs([x for x in list(n.keys) + list(n.values) if x is not None], st):
            outs.append((vals if isinstance(vals, Raised) else ('unknown',), s1))
        return outs

    def ev_JoinedStr(self, n, st):
        return [(('unknown',), st)]

    def ev_Starred(self, n, st):
        return self.ev(n.value, st)

    def ev_Lambda(self, n, st):
        return [(('closure', Closure(n, self.realfd, dict(st.vars))), st)]

    def ev_Attribute(self, n, st):
        outs = []
        for v, s1 in self.ev(n.value, st):
            if isinstance(v, Raised):
                outs.append((v, s1))
                continue
            outs += self.getattr_(v, n, s1)
        return outs

    def getattr_(self, v, n, st):
        t = v[0]
        attr = n.attr
        if t == 'cursor':
            if attr == 'position':
                return self.prim('position', n, [], {}, st)
            return [(('cmeth', attr), st)]
        if t in ('maybe', 'const') and (t == 'maybe' or v[1] is None):
            is_peek = isinstance(n.value, ast.Call)
            self.eng.site('deref', self.fd, n, False)
            self.eng.note('none-deref', self.realfd, n,
                          'attribute %r of a value that may be None (a peek with no item known to exist)' % attr,
                          self.chain, st)
            # continue as if present (avoid cascades); an item at that offset then exists
            s = st.copy()
            if t == 'maybe' and v[1] >= 0:
                s.avail = max(s.avail, min(v[1] + 1, CAP_AVAIL))
            return [(('unknown',), s)]
        if t == 'tok':
            if isinstance(n.value, ast.Call) or isinstance(n.value, ast.Name):
                self.eng.site('deref', self.fd, n, True)
            return [(('unknown',), st)]
        if t == 'seq' and attr in ('append', 'extend', 'insert'):
            return [(('seqmeth', attr, n.value), st)]
        if t == 'const' and isinstance(v[1], str):
            return [(('unknown',), st)]
        if t == 'class':
            try:
                val = self.repo.class_attr(v[1], attr)
                return [(lift(val), st)]
            except Unfoldable:
                return [(('unknown',), st)]
        return [(('unknown',), st)]

    def ev_Subscript(self, n, st):
        outs = []
        for vals, s1 in self.evs([n.value] + ([] if isinstance(n.slice, ast.Slice) else [n.slice]), st):
            if isinstance(vals, Raised):
                outs.append((vals, s1))
                continue
            base = vals[0]
            if isinstance(n.slice, ast.Slice):
                outs.append((('seq', None) if base[0] in ('seq', 'tuple') else ('unknown',), s1))
                continue
            idx = vals[1]
            if base[0] == 'tuple' and idx[0] == 'const' and isinstance(idx[1], int):
                try:
                    outs.append((base[1][idx[1]], s1))
                except IndexError:
                    outs.append((Raised('IndexError', n), s1))
                continue
            if base[0] in ('emptytok', 'tok') and idx[0] == 'const' and isinstance(idx[1], int):
                ok = base[0] == 'tok'
                self.eng.site('subscript', self.fd, n, ok)
                if not ok:
                    self.eng.note('unguarded-subscript', self.realfd, n,
                                  'constant subscript of a token whose text may be empty (the command name read at the '
                                  'very end of the input): IndexError', self.chain, s1)
                outs.append((('unknown',), s1))
                continue
            if base[0] == 'seq' and idx[0] == 'const' and isinstance(idx[1], int):
                ok = base[1] is True and idx[1] in (0, -1)
                if not ok and isinstance(n.value, ast.Name):
                    k_ = self.fixed_length_list(n.value.id)
                    ok = k_ is not None and -k_ <= idx[1] < k_
                self.eng.site('subscript', self.fd, n, ok)
                if not ok:
                    self.eng.note('unguarded-subscript', self.realfd, n,
                                  'constant subscript of a sequence not known to be non-empty', self.chain, s1)
                outs.append((('unknown',), s1))
                continue
            outs.append((('unknown',), s1))
        return outs

    def fixed_length_list(self, name):
        """length of the local list `name` when the enclosing function binds it exactly once, to a list display, and
        never resizes it (only `name[c]` reads and `name[c] = v` stores mention it); else None"""
        fn = self.realfd.node
        binds = [x for x in ast.walk(fn) if isinstance(x, ast.Name) and x.id == name and isinstance(x.ctx, (ast.Store, ast.Del))]
        if len(binds) != 1 or name in {a.arg for a in ast.walk(fn) if isinstance(a, ast.arg)}:
            return None
        asg = getattr(binds[0], '_parent', None)
        if not (isinstance(asg, ast.Assign) and len(asg.targets) == 1 and asg.targets[0] is binds[0]
                and isinstance(asg.value, ast.List) and not any(isinstance(e, ast.Starred) for e in asg.value.elts)):
            return None
        for x in ast.walk(fn):
            if isinstance(x, ast.Name) and x.id == name and x is not binds[0]:
                par = getattr(x, '_parent', None)
                if not (isinstance(par, ast.Subscript) and par.value is x and isinstance(par.slice, ast.Constant)
                        and isinstance(par.slice.value, int) and isinstance(par.ctx, (ast.Load, ast.Store))):
                    return None
        return len(asg.value.elts)

    def ev_BinOp(self, n, st):
        outs = []
        for vals, s1 in self.evs([n.left, n.right], st):
            if isinstance(vals, Raised):
                outs.append((vals, s1))
                continue
            l, r = vals
            if isinstance(n.op, ast.Sub) and l[0] == 'pos' and r[0] == 'pos':
                if l[1] == r[1] and l[2] == l[3] and r[2] == r[3]:
                    outs.append((('const', l[2] - r[2]), s1))
                else:
                    outs.append((('posdiff', l[1:], r[1:]), s1))
                continue
            if l[0] == 'const' and r[0] == 'const' and isinstance(l[1], int) and isinstance(r[1], int) \
                    and not isinstance(l[1], bool):
                try:
                    v = {ast.Add: l[1] + r[1], ast.Sub: l[1] - r[1]}.get(type(n.op))
                except Exception:       # noqa
                    v = None
                if v is not None:
                    outs.append((('const', v), s1))
                    continue
            if l[0] in ('const', 'int?') and r[0] in ('const', 'int?') and isinstance(n.op, (ast.Add, ast.Sub)):
                outs.append((('int?',), s1))
                continue
            outs.append((('unknown',), s1))
        return outs

    def ev_UnaryOp(self, n, st):
        if isinstance(n.op, ast.Not):
            return [((b if isinstance(b, Raised) else ('const', b)), s1) for b, s1 in self.cond(n, st)]
        outs = []
        for v, s1 in self.ev(n.operand, st):
            if isinstance(v, Raised):
                outs.append((v, s1))
            elif v[0] == 'const' and isinstance(v[1], int) and isinstance(n.op, ast.USub):
                outs.append((('const', -v[1]), s1))
            else:
                outs.append((('unknown',), s1))
        return outs

    def ev_BoolOp(self, n, st):
        # value of `a or b` / `a and b`
        outs = []
        isand = isinstance(n.op, ast.And)
        frontier = [st]
        for i, e in enumerate(n.values):
            nxt = []
            last = i == len(n.values) - 1
            for s0 in frontier:
                for v, s1 in self.ev(e, s0):
                    if isinstance(v, Raised) or last:
                        outs.append((v, s1))
                        continue
                    for b, s2 in self.truth(v, s1):
                        if b == isand:
                            nxt.append(s2)
                        else:
                            outs.append((v, s2))
            frontier = nxt
        return outs

    def ev_Compare(self, n, st):
        return [((b if isinstance(b, Raised) else ('const', b)), s1) for b, s1 in self.cond(n, st)]

    def ev_ListComp(self, n, st):
        return [(('seq', None), st)]

    ev_GeneratorExp = ev_SetComp = ev_DictComp = ev_ListComp

    def ev_Yield(self, n, st):
        if n.value is None:
            return [(('unknown',), st)]
        return [((v if isinstance(v, Raised) else ('unknown',)), s1) for v, s1 in self.ev(n.value, st)]

    # ------------------------------------------------------------------ calls
    def ev_Call(self, n, st):
        f = n.func
        # next(cursor)
        if isinstance(f, ast.Name) and f.id == 'next' and f.id not in st.vars and n.args:
            outs = []
            for vals, s1 in self.evs(n.args, st):
                if isinstance(vals, Raised):
                    outs.append((vals, s1))
                    continue
                if vals[0][0] == 'cursor':
                    ok = s1.avail >= 1
                    self.eng.site('next', self.fd, n, ok)
                    if not ok:
                        if len(vals) > 1:
                            outs.append((vals[1], s1))
                            s_ok = s1.copy()
                            s_ok.avail = 1
                            outs.append((('tok',), self.moved(s_ok, 1)))
                            continue
                        self.eng.note('next-without-item', self.realfd, n,
                                      'next() on the token cursor with no item known to exist: StopIteration '
                                      'escapes (RuntimeError inside the generator-driven parse)', self.chain, s1)
                        s1 = s1.copy()
                        s1.avail = 1
                    outs.append((('tok',), self.moved(s1, 1)))
                else:
                    outs.append((('unknown',), s1))
            return outs
        outs = []
        argnodes = [a.value if isinstance(a, ast.Starred) else a for a in n.args]
        star = any(isinstance(a, ast.Starred) for a in n.args) or any(k.arg is None for k in n.keywords)
        for fv, s0 in self.ev(f, st):
            if isinstance(fv, Raised):
                outs.append((fv, s0))
                continue
            for vals, s1 in self.evs(argnodes + [k.value for k in n.keywords], s0):
                if isinstance(vals, Raised):
                    outs.append((vals, s1))
                    continue
                args = vals[:len(argnodes)]
                kw = {k.arg: v for k, v in zip(n.keywords, vals[len(argnodes):]) if k.arg is not None}
                if fv[0] in ('func', 'closure', 'peekwrap', 'unknown'):
                    esc = [a for a in argnodes + [k.value for k in n.keywords]
                           if isinstance(a, ast.Name) and a.id in s1.vars and s1.vars[a.id][0] == 'seq']
                    if esc:
                        s1 = s1.copy()
                        for a in esc:
                            if s1.vars[a.id][1] is not True:
                                s1.vars[a.id] = ('seq', None)
                outs += self.apply(fv, n, args, kw, s1, star)
        return outs

    def apply(self, fv, n, args, kw, st, star=False):
        t = fv[0]
        eng = self.eng
        if t == 'cmeth':
            r = self.prim(fv[1], n, args, kw, st)
            if r is not None:
                return r
            # composite Buffer method analysed in context
            owner, kind, payload = eng.buffer_cls.lookup(fv[1])
            if kind == 'method':
                return self.call_fd(payload, n, [('cursor',)] + list(args), kw, st)
            if kind is None:
                # a callable stored in a field of the buffer (join/init/empty): opaque, gets no cursor
                if any(a[0] == 'cursor' for a in list(args) + list(kw.values())):
                    raise AnalysisError('cursor passed to a callable field %s at %s' % (fv[1], self.where(n)))
                eng.calls_opaque['field:' + fv[1]] += 1
                return [(('unknown',), st)]
            raise AnalysisError('unknown cursor method %s at %s' % (fv[1], self.where(n)))
        if t == 'func':
            fd = fv[1]
            eng.calls_resolved += 1
            if star:
                # wrapper(buf, *args, **kwargs): pass-through handled by the peek-wrapper summary
                pass
            return self.call_fd(fd, n, args, kw, st)
        if t == 'closure':
            eng.calls_resolved += 1
            return self.call_closure(fv[1], n, args, kw, st)
        if t == 'peekwrap':
            eng.calls_resolved += 1
            return self.call_peekwrapped(fv[1], n, args, kw, st)
        if t == 'seqmeth':
            # list.append etc: receiver becomes non-empty
            s = st.copy()
            tgt = fv[2]
            if isinstance(tgt, ast.Name) and tgt.id in s.vars and fv[1] in ('append', 'insert'):
                s.vars[tgt.id] = ('seq', True)
            return [(('const', None), s)]
        if t == 'class' and fv[1].name == 'Token' and args and args[0] == ('const', ''):
            # Token('', ...): a token with empty text (the only way the reader makes one)
            return [(('emptytok',), st)]
        if t == 'class':
            eng.calls_opaque['ctor'] += 1
            if any(b == 'list' for b in [x if isinstance(x, str) else None for c in fv[1].mro
                                         if hasattr(c, 'bases') for x in c.bases]):
                # a list subclass (argument list): empty when constructed without arguments
                return [(('seq', False if not args and not kw else None), st)]
            return [(('node',), st)]
        if t == 'builtin':
            name = fv[1]
            if name in ('str', 'repr', 'len', 'isinstance', 'print', 'hasattr', 'id', 'bool', 'int', 'type'):
                if name == 'isinstance':
                    return [(('unknown',), st)]
                return [(('unknown',), st)]
            if name == 'range':
                if len(args) == 1 and args[0][0] == 'const' and isinstance(args[0][1], int):
                    return [(('range', args[0][1]), st)]
                return [(('range', None), st)]
            if name in ('list', 'tuple', 'iter', 'sorted', 'set', 'reversed', 'sum', 'any', 'all', 'map', 'filter', 'zip', 'enumerate'):
                if any(a[0] == 'cursor' for a in args):
                    # exhausts the cursor
                    s = self.moved_unknown(st, 0, INF, 0, True)
                    return [(('seq', None), s)]
                return [(('seq', None), st)]
            if any(a[0] == 'cursor' for a in args):
                raise AnalysisError('cursor passed to builtin %s at %s' % (name, self.where(n)))
            return [(('unknown',), st)]
        # unknown callee (method of a node, table constructor, ...)
        if any(a[0] == 'cursor' for a in list(args) + list(kw.values())):
            if t == 'unknown' and self.is_param_callable(n.func, st):
                # calling a callable parameter with the cursor: unknown movement, fresh symbolic base
                s = self.moved_unknown(st, 0, INF, 0, False, sym='U%d' % n.lineno)
                return [(('unknown',), s)]
            raise AnalysisError('cursor passed to an unresolved callee %s at %s' % (norm(n.func), self.where(n)))
        eng.calls_opaque['other'] += 1
        return [(('unknown',), st)]

    def is_param_callable(self, fnode, st):
        return isinstance(fnode, ast.Name)

    def bind(self, fd_params, defaults, args, kw, n, varargs=None, kwargs=None):
        bound = {}
        for p, d in defaults.items():
            bound[p] = d
        for p, a in zip(fd_params, args):
            bound[p] = a
        for k, v in kw.items():
            if k in fd_params or k in defaults:
                bound[k] = v
        for p in fd_params:
            if p not in bound:
                bound[p] = ('unknown',)
        # string/tuple options (mode, skip list) do not influence cursor facts: forget them so
        # that contexts are specialised on integer/boolean constants only
        for p, v in list(bound.items()):
            if v[0] == 'const' and isinstance(v[1], (str, tuple, frozenset)):
                bound[p] = ('unknown',)
        return bound

    def call_fd(self, fd, n, args, kw, st):
        eng = self.eng
        # wrapper factories: make_read_peek(f) -> peek-wrapped f
        if self.is_wrapper_factory(fd):
            if args and args[0][0] == 'func':
                return [(('peekwrap', args[0][1]), st)]
            raise AnalysisError('wrapper factory %s applied to a non-function at %s' % (fd.qual, self.where(n)))
        takes_cursor = any(a[0] == 'cursor' for a in list(args) + list(kw.values()))
        if fd.module.name == 'reader' and fd.cls is None and not takes_cursor:
            # a helper of the reader without the cursor (e.g. a signature look-up): analysed in context for what it
            # does to its arguments; it cannot move the cursor
            defaults = {p: self.eng.fold_default(d, fd) for p, d in fd.defaults().items()}
            bound = self.bind(fd.params(), defaults, args, kw, n)
            chain = self.chain + ('%s:%s' % (self.realfd.qual, getattr(n, 'lineno', 0)),)
            exits, raises = eng.analyse(fd, bound, st.avail, st.eof, chain)
            outs = [(ex.ret, st) for ex in exits]
            outs += [(Raised(exc, n, 'from %s' % fd.qual), st) for exc in raises]
            return outs or [(('unknown',), st)]
        if fd.module.name not in ('reader', 'utils') or (fd.cls is not None and fd.cls.name != 'Buffer'):
            # functions of other modules (constructors handled elsewhere): opaque unless they take the cursor
            if any(a[0] == 'cursor' for a in list(args) + list(kw.values())):
                raise AnalysisError('cursor escapes to %s at %s' % (fd.fq, self.where(n)))
            eng.calls_opaque[fd.fq] += 1
            return [(('unknown',), st)]
        if not any(a[0] == 'cursor' for a in list(args) + list(kw.values())):
            # helper without the cursor (e.g. unclosed_env_handler takes it for diagnostics only)
            pass
        defaults = {p: self.eng.fold_default(d, fd) for p, d in fd.defaults().items()}
        bound = self.bind(fd.params(), defaults, args, kw, n)
        chain = self.chain + ('%s:%s' % (self.realfd.qual, getattr(n, 'lineno', 0)),)
        exits, raises = eng.analyse(fd, bound, st.avail, st.eof, chain)
        outs = []
        for ex in exits:
            s = self.after_call(st, ex)
            outs.append((ex.ret, s))
        for exc in raises:
            outs.append((Raised(exc, n, 'from %s' % fd.qual), st))
        return outs

    def after_call(self, st, ex, wrapped=False):
        s = st.copy()
        if ex.sym != 'E':
            s.sym, s.lo, s.hi = ex.sym, ex.lo, ex.hi
            s.avail, s.eof = ex.avail, ex.eof
            s.prog = s.prog
            self.invalidate(s)
            return s
        s.lo = lo_add(s.lo, ex.lo)
        s.hi = hi_add(s.hi, ex.hi)
        s.avail, s.eof = ex.avail, ex.eof
        if ex.lo >= 1:
            s.prog = tuple(True for _ in s.prog)
        if ex.hi != 0 or ex.lo != 0:
            self.invalidate(s)
        return s

    def call_closure(self, clo, n, args, kw, st):
        node = clo.node
        a = node.args
        params = [x.arg for x in a.posonlyargs + a.args]
        bound = self.bind(params, {}, args, kw, n)
        chain = self.chain + ('%s:%s' % (self.realfd.qual, getattr(n, 'lineno', 0)),)
        exits, raises = self.eng.analyse(clo, bound, st.avail, st.eof, chain)
        outs = [(ex.ret, self.after_call(st, ex)) for ex in exits]
        outs += [(Raised(exc, n), st) for exc in raises]
        return outs

    def is_wrapper_factory(self, fd):
        """def make_read_peek(f): def wrapper(buf, *a, **k): start = buf.position; ret = f(buf, ...);
        buf.backward(buf.position - start); return ret ; return wrapper  -- verified by analysis"""
        eng = self.eng
        if fd in eng.peek_wrappers:
            return eng.peek_wrappers[fd]
        res = False
        inner = [s for s in fd.node.body if isinstance(s, ast.FunctionDef)]
        rets = [s for s in fd.node.body if isinstance(s, ast.Return)]
        if len(inner) == 1 and rets and isinstance(rets[-1].value, ast.Name) and rets[-1].value.id == inner[0].name \
                and len(fd.params()) == 1:
            w = inner[0]
            wparams = [x.arg for x in w.args.args]
            if wparams:
                clo = Closure(w, fd, {fd.params()[0]: ('unknown',)})
                eng.peek_wrappers[fd] = False
                bound = {wparams[0]: ('cursor',)}
                for p in wparams[1:]:
                    bound[p] = ('unknown',)
                if w.args.vararg:
                    bound[w.args.vararg.arg] = ('unknown',)
                if w.args.kwarg:
                    bound[w.args.kwarg.arg] = ('unknown',)
                exits, raises = eng.analyse(clo, bound, 0, False, self.chain + ('%s' % fd.qual,))
                res = bool(exits) and all(ex.sym == 'E' and ex.lo == 0 and ex.hi == 0 for ex in exits)
                eng.peek_wrapper_proof = {'factory': fd.fq, 'exits': len(exits), 'delta_zero': res}
                if not res and exits:
                    # it is a wrapper factory around a cursor function but does not restore the cursor
                    eng.note('peek-wrapper-moves', fd, w, 'the look-ahead wrapper does not restore the cursor on '
                             'every exit', self.chain, CSt())
                    res = True
        eng.peek_wrappers[fd] = res
        return res

    def call_peekwrapped(self, fd, n, args, kw, st):
        defaults = {p: self.eng.fold_default(d, fd) for p, d in fd.defaults().items()}
        bound = self.bind(fd.params(), defaults, args, kw, n)
        chain = self.chain + ('%s:%s(peek)' % (self.realfd.qual, getattr(n, 'lineno', 0)),)
        exits, raises = self.eng.analyse(fd, bound, st.avail, st.eof, chain)
        outs = []
        for ex in exits:
            s = st.copy()
            # cursor restored: what was consumed plus what is known beyond still exists
            if ex.sym == 'E':
                s.avail = max(s.avail, min(ex.lo + ex.avail, CAP_AVAIL))
            outs.append((ex.ret, s))
        outs += [(Raised(exc, n, 'from %s' % fd.qual), st) for exc in raises]
        return outs

    # ------------------------------------------------------------------ conditions
    def truth(self, v, st):
        t = v[0]
        if t == 'const':
            return [(bool(v[1]), st)]
        if t in ('tok', 'truthy', 'cursor', 'func', 'closure', 'class', 'node', 'peekwrap'):
            return [(True, st)]
        if t in ('falsy', 'emptytok'):
            return [(False, st)]
        if t == 'maybe':
            s_t = st.copy()
            if v[1] >= 0:
                s_t.avail = max(s_t.avail, min(v[1] + 1, CAP_AVAIL))
            s_f = st.copy()
            if v[1] == 0:
                s_f.eof = True
            return [(True, s_t), (False, s_f)]
        if t == 'seq':
            if v[1] is True:
                return [(True, st)]
            if v[1] is False:
                return [(False, st)]
            return [(True, st), (False, st)]
        if t == 'tokslice':
            return [(True, st), (False, st)] if v[1] == 0 or True else [(True, st)]
        if t == 'prefixtest':
            if st.eof:
                return [(False, st)]
            s_t = st.copy()
            s_t.avail = max(s_t.avail, 1)
            return [(True, s_t), (False, st)]
        if t == 'boolfact':
            s_t, s_f = st.copy(), st.copy()
            s_t.avail = max(s_t.avail, v[1])
            s_f.avail = max(s_f.avail, v[2])
            s_t.eof = s_t.eof or v[3]
            s_f.eof = s_f.eof or v[4]
            return [(True, s_t), (False, s_f)]
        return [(True, st), (False, st)]

    def atom(self, n, st):
        # refine a named local through its truth test
        if isinstance(n, ast.Name) and n.id in st.vars:
            v = st.vars[n.id]
            outs = []
            for b, s1 in self.truth(v, st):
                s2 = s1.copy()
                if v[0] == 'seq' and v[1] is None:
                    s2.vars[n.id] = ('seq', True) if b else ('seq', False)
                elif v[0] == 'maybe':
                    s2.vars[n.id] = ('tok',) if b else ('const', None)
                elif v[0] in ('unknown', 'tokslice'):
                    s2.vars[n.id] = ('truthy',) if b else ('falsy',)
                outs.append((b, s2))
            return outs
        if isinstance(n, ast.Compare) and len(n.ops) == 1:
            outs = []
            for vals, s1 in self.evs([n.left, n.comparators[0]], st):
                if isinstance(vals, Raised):
                    outs.append((vals, s1))
                    continue
                l, r = vals
                op = n.ops[0]
                res = self.compare(op, l, r)
                if res is None:
                    # `x is None` / `x is not None` on a maybe value refines avail
                    if isinstance(op, (ast.Is, ast.IsNot)) and r == ('const', None) and l[0] == 'maybe':
                        s_t, s_f = s1.copy(), s1.copy()
                        if l[1] >= 0:
                            s_f.avail = max(s_f.avail, min(l[1] + 1, CAP_AVAIL))
                        pair = [(True, s_t), (False, s_f)]
                        if isinstance(op, ast.IsNot):
                            pair = [(False, s_t), (True, s_f)]
                        if isinstance(n.left, ast.Name) and n.left.id in s1.vars:
                            for b, s in pair:
                                isnone = b == isinstance(op, ast.Is)
                                s.vars[n.left.id] = ('const', None) if isnone else ('tok',)
                        outs += pair
                    else:
                        outs += [(True, s1), (False, s1.copy())]
                else:
                    outs.append((res, s1))
            return outs
        return super().atom(n, st)

    def compare(self, op, l, r):
        if l[0] == 'const' and r[0] == 'const':
            try:
                if isinstance(op, ast.Eq):
                    return l[1] == r[1]
                if isinstance(op, ast.NotEq):
                    return l[1] != r[1]
                if isinstance(op, ast.Lt):
                    return l[1] < r[1]
                if isinstance(op, ast.LtE):
                    return l[1] <= r[1]
                if isinstance(op, ast.Gt):
                    return l[1] > r[1]
                if isinstance(op, ast.GtE):
                    return l[1] >= r[1]
                if isinstance(op, ast.Is):
                    return l[1] is r[1]
                if isinstance(op, ast.IsNot):
                    return l[1] is not r[1]
                if isinstance(op, ast.In):
                    return l[1] in r[1]
                if isinstance(op, ast.NotIn):
                    return l[1] not in r[1]
            except TypeError:
                return None
        if isinstance(op, (ast.Is, ast.IsNot)) and r == ('const', None) and l[0] in ('tok', 'truthy', 'node', 'seq', 'cursor'):
            return isinstance(op, ast.IsNot)
        return None

    # ------------------------------------------------------------------ statements
    def assign(self, target, val, st):
        if isinstance(target, ast.Name):
            s = st.copy()
            s.vars[target.id] = val
            return [s]
        if isinstance(target, (ast.Tuple, ast.List)):
            if val[0] == 'tuple' and len(val[1]) == len(target.elts):
                states = [st]
                for e, v in zip(target.elts, val[1]):
                    states = [s2 for s1 in states for s2 in self.assign(e, v, s1)]
                return states
            states = [st]
            for e in target.elts:
                states = [s2 for s1 in states for s2 in self.assign(e, ('unknown',), s1)]
            return states
        if isinstance(target, (ast.Attribute, ast.Subscript)):
            return [st]
        self.unsupported('assignment target', target)

    def st_Assign(self, n, st):
        # boolean facts: `error = not src.hasNext() or ...` remembers what each truth value implies
        if len(n.targets) == 1 and isinstance(n.targets[0], ast.Name) and isinstance(n.value, (ast.BoolOp, ast.UnaryOp, ast.Compare)) \
                and not (isinstance(n.value, ast.BoolOp) and not self.is_boolean_expr(n.value)):
            outs = self.cond(n.value, st)
            if any(isinstance(b, Raised) for b, _ in outs):
                return super().st_Assign(n, st)
            # group per truth value; all outcomes share the cursor position (conditions do not move it)
            res = []
            for b, s1 in outs:
                s2 = s1.copy()
                s2.vars[n.targets[0].id] = ('const', b)
                res.append((NEXT, s2))
            return res
        return super().st_Assign(n, st)

    def is_boolean_expr(self, n):
        if isinstance(n, ast.BoolOp):
            return all(self.is_boolean_expr(v) for v in n.values)
        if isinstance(n, ast.UnaryOp) and isinstance(n.op, ast.Not):
            return True
        if isinstance(n, ast.Compare):
            return True
        if isinstance(n, ast.Call) and isinstance(n.func, ast.Attribute) and n.func.attr in ('hasNext', 'startswith', 'endswith'):
            return True
        return False

    def aug_assign(self, n, st):
        outs = []
        for v, s1 in self.ev(n.value, st):
            if isinstance(v, Raised):
                outs.append((v, s1))
                continue
            s2 = s1.copy()
            if isinstance(n.target, ast.Name):
                old = s2.vars.get(n.target.id, ('unknown',))
                if old[0] == 'const' and isinstance(old[1], int) and v[0] == 'const' and isinstance(v[1], int) \
                        and isinstance(n.op, (ast.Add, ast.Sub)) and not isinstance(old[1], bool):
                    s2.vars[n.target.id] = ('const', old[1] + v[1] if isinstance(n.op, ast.Add) else old[1] - v[1])
                elif old[0] in ('const', 'int?') and isinstance(n.op, (ast.Add, ast.Sub)) and \
                        (old[0] == 'int?' or isinstance(old[1], int)):
                    s2.vars[n.target.id] = ('int?',)
                else:
                    s2.vars[n.target.id] = ('unknown',)
            outs.append((('unknown',), s2))
        return outs

    def st_While(self, n, st):
        s0 = st.copy()
        s0.prog = s0.prog + (False,)
        depth = len(s0.prog)
        self.eng.loop_sites.setdefault((self.realfd.fq, norm(n.test)), True)
        outs = []
        for out, s1 in super().st_While(n, s0):
            s2 = s1.copy()
            s2.prog = s2.prog[:depth - 1]
            outs.append((out, s2))
        return outs

    def _bounded_by_lookahead_offset(self, loop):
        """`while cur.peek(v) ...: ...; v += c` -- the loop walks a look-ahead offset over the (finite) buffer"""
        offs = set()
        for n in ast.walk(loop.test):
            if isinstance(n, ast.Call) and isinstance(n.func, ast.Attribute) and n.func.attr in ('peek', 'hasNext') and n.args \
                    and isinstance(n.args[0], ast.Name):
                offs.add(n.args[0].id)
        if not offs:
            return False
        for s in loop.body:
            if isinstance(s, ast.AugAssign) and isinstance(s.op, ast.Add) and isinstance(s.target, ast.Name) and s.target.id in offs \
                    and isinstance(s.value, ast.Constant) and isinstance(s.value.value, int) and s.value.value > 0:
                # unconditional increment at the top level of the body; no `continue` may skip it
                before = loop.body[:loop.body.index(s)]
                if not any(isinstance(x, ast.Continue) for b in before for x in ast.walk(b)):
                    return True
        return False

    def on_backedge(self, loop, st):
        if not st.prog[-1] and self._bounded_by_lookahead_offset(loop):
            s = st.copy()
            s.prog = s.prog[:-1] + (False,)
            for k, v in list(s.vars.items()):
                if v[0] == 'const' and isinstance(v[1], int) and not isinstance(v[1], bool) and abs(v[1]) > 3:
                    s.vars[k] = ('int?',)
            return [s]
        if not st.prog[-1]:
            self.eng.loop_sites[(self.realfd.fq, norm(loop.test))] = False
            self.eng.note('loop-without-progress', self.realfd, loop.test,
                          'the loop can reach its back edge without having advanced the cursor: the parser hangs',
                          self.chain, st)
            return []
        s = st.copy()
        s.prog = s.prog[:-1] + (False,)
        # widen counters that grow with iterations
        for k, v in list(s.vars.items()):
            if v[0] == 'const' and isinstance(v[1], int) and not isinstance(v[1], bool) and abs(v[1]) > 3:
                s.vars[k] = ('int?',)
        s.lo = min(s.lo, CAP_LO)
        if s.hi != INF and s.hi > 2:
            s.hi = INF
        return [s]

    def on_for(self, n, st):
        outs = []
        for it, s0 in self.ev(n.iter, st):
            if isinstance(it, Raised):
                outs.append((('raise', it.exc, it), s0))
                continue
            if it[0] == 'range' and it[1] is not None and it[1] <= 8:
                frontier = [s0]
                for _ in range(it[1]):
                    nxt = []
                    for s1 in frontier:
                        for s2 in self.assign(n.target, ('int?',), s1):
                            for out, s3 in self.block(n.body, s2):
                                if out in (NEXT, CONTINUE):
                                    nxt.append(s3)
                                elif out == BREAK:
                                    outs.append((BROKE, s3))
                                else:
                                    outs.append((out, s3))
                    frontier = self.dedupe(nxt)
                outs += [(NEXT, f) for f in frontier]
                continue
            if it[0] == 'cursor':
                raise AnalysisError('iteration over the cursor at %s' % self.where(n))
            # finite collection of unknown size: 0, 1 or 2 iterations, cursor effects joined
            frontier = [s0]
            outs.append((NEXT, s0))
            for _ in range(2):
                nxt = []
                for s1 in frontier:
                    for s2 in self.assign(n.target, ('unknown',), s1):
                        for out, s3 in self.block(n.body, s2):
                            if out in (NEXT, CONTINUE):
                                nxt.append(s3)
                                outs.append((NEXT, s3))
                            elif out == BREAK:
                                outs.append((BROKE, s3))
                            else:
                                outs.append((out, s3))
                frontier = self.dedupe(nxt)
            for s in frontier:
                if s.lo != s0.lo or s.hi != s0.hi:
                    s.hi = INF
        return outs

    def on_nested_def(self, n, st):
        s = st.copy()
        s.vars[n.name] = ('closure', Closure(n, self.realfd, dict(st.vars)))
        return [(NEXT, s)]


# --------------------------------------------------------------------------- driver helpers

def analyse_reader(repo, entry_consts=None):
    eng = CursorEngine(repo)
    eng.run('reader.read_tex', 0, entry_consts)
    return eng
