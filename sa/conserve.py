"""E4 -- token-conservation (linear-resource) analysis of reader.py.

Every value obtained from the token cursor (next / forward / forward_until) and every value
returned by a reader call is a *resource*.  Along every path of every reader function each
resource must end stored (constructor argument, appended to a stored container, returned,
handed to a callee), regenerated (its kind or text is pinned on the path and the node class
built on the path re-emits that delimiter), rolled back, empty, or be the licensed spacer.
Paths are enumerated with loops taken 0, 1 and 2 times; callee result shapes are computed per
constant-argument context to a fixpoint.  Nothing is executed.
"""
import ast
import collections

from .model import AnalysisError, Unfoldable, Folder, FEnumMember, ClassRef, FuncRef, norm
from .interp import Interp, Raised, Unsupported, NEXT, BREAK, CONTINUE, BROKE, strip_doc

INF = 'inf'
MAX_PATHS = 4000


def wadd(a, b):
    if a == INF or b == INF:
        return INF
    return a + b


class Res:
    __slots__ = ('rid', 'kind', 'node', 'wlo', 'whi', 'status', 'pins', 'desc', 'after_arg', 'seq', 'fn')

    def __init__(self, rid, kind, node, wlo, whi, desc, seq, fn):
        self.rid, self.kind, self.node, self.wlo, self.whi, self.desc, self.seq, self.fn = rid, kind, node, wlo, whi, desc, seq, fn
        self.status = 'live'
        self.pins = frozenset()
        self.after_arg = False

    def cp(self):
        r = Res(self.rid, self.kind, self.node, self.wlo, self.whi, self.desc, self.seq, self.fn)
        r.status, r.pins, r.after_arg = self.status, self.pins, self.after_arg
        return r


class RSt:
    def __init__(self):
        self.res = {}
        self.cont = {}          # cid -> [items, status]
        self.vars = {}
        self.facts = ()         # ((text, key), truth)
        self.pending = None     # (pin, epoch)
        self.epoch = 0
        self.ver = {}
        self.built = ()         # descriptors of node classes constructed / filled on the path
        self.nid = 0
        self.trail = ()         # branch decisions (for reports)
        self.peeked = None      # (extent (lo,hi), epoch, callee) of the last peek-wrapped call
        self.consumed = 0

    def copy(self):
        s = RSt()
        s.res = {k: v.cp() for k, v in self.res.items()}
        s.cont = {k: [list(v[0]), v[1]] for k, v in self.cont.items()}
        s.vars = dict(self.vars)
        s.facts, s.pending, s.epoch, s.ver = self.facts, self.pending, self.epoch, dict(self.ver)
        s.built, s.nid, s.trail, s.peeked, s.consumed = self.built, self.nid, self.trail, self.peeked, self.consumed
        return s

    def key(self):
        return None

    def new(self, kind, node, wlo, whi, desc, fn):
        self.nid += 1
        rid = 'r%d' % self.nid
        self.res[rid] = Res(rid, kind, node, wlo, whi, desc, self.nid, fn)
        return rid

    def newc(self, items=None, status='live'):
        self.nid += 1
        cid = 'c%d' % self.nid
        self.cont[cid] = [list(items or []), status]
        return cid


class CFind:
    def __init__(self, kind, fd, node, msg, trail, extra=None, spacer_on_path=False):
        self.kind, self.fd, self.node, self.msg, self.trail, self.extra = kind, fd, node, msg, trail, extra
        self.spacer_on_path = spacer_on_path

    def construct(self):
        return norm(self.node) if isinstance(self.node, ast.AST) else str(self.node)

    def key(self):
        return (self.kind, self.fd.fq, self.construct())


Outcome = collections.namedtuple('Outcome', 'shape')
# shape: ('owned', wlo, whi, tag) | ('const', v) | ('tuple', shapes) | ('param', name) | ('none',) | ('list', wlo, whi)


class Conserve:
    def __init__(self, repo, cursor_engine=None, entry_consts=None):
        self.repo = repo
        self.entry_ctx = tuple(sorted((entry_consts or {}).items()))
        self.reader = repo.modules['reader']
        self.ce = cursor_engine
        self.summ = {}
        self.inprog = set()
        self.done = set()
        self.changed = False
        self.findings = {}
        self.obligations = 0
        self.discharged = collections.Counter()
        self.paths = 0
        self.contexts = set()
        self.samples = []
        self.TC = repo.fold_global('utils', 'TC')
        self.data = repo.modules['data']
        self.texexpr = repo.need_cls('data.TexExpr')
        self.arg_types = [c.info for c in repo.fold_global('data', 'arg_type')]
        self.final = False
        self.in_peek = False
        self.position_sites = []

    # ------------------------------------------------------------------ driver
    def run(self):
        fns = [fd for fd in self.reader.functions.values() if self.is_reader(fd)]
        if len(fns) < 8:
            raise AnalysisError('fewer than 8 reader functions take the token cursor (%d)' % len(fns))
        entry = self.repo.need_func('reader.read_tex')
        for rnd in range(12):
            self.changed = False
            self.done = set()
            self.final = False
            self.summary(entry, self.entry_ctx)
            if not self.changed:
                break
        else:
            raise AnalysisError('conservation summaries did not stabilise')
        # final pass: record findings / obligations with stable summaries
        self.final = True
        self.position_sites = []
        self.done = set()
        self.findings = {}
        self.obligations = 0
        self.discharged = collections.Counter()
        self.paths = 0
        self.summary(entry, self.entry_ctx)
        self.functions_reached = sorted({k[0] for k in self.done})
        from . import callgraph as _cg
        reach = {f.fq for f in _cg.CallGraph(self.repo).reachable([entry])}
        missing = [fd.fq for fd in fns if fd.fq not in self.functions_reached and fd.fq in reach]
        if missing:
            raise AnalysisError('reader functions not reached from read_tex: %s' % ', '.join(missing))
        return self

    def is_manual_peek(self, fd):
        """a look-ahead written out by hand: the function takes a snapshot of the cursor position first, and winds the
        cursor back to it by a top-level statement that stands before every return"""
        ps = fd.params()
        if not ps:
            return False
        cur = ps[0]
        body = strip_doc(fd.node.body)
        if not body or not (isinstance(body[0], ast.Assign) and len(body[0].targets) == 1 and isinstance(body[0].targets[0], ast.Name)
                            and norm(body[0].value) == '%s.position' % cur):
            return False
        mark = body[0].targets[0].id
        if sum(1 for n in ast.walk(fd.node) if isinstance(n, ast.Name) and n.id == mark and isinstance(n.ctx, ast.Store)) != 1:
            return False
        back = None
        for i, st_ in enumerate(body):
            if isinstance(st_, ast.Expr) and isinstance(st_.value, ast.Call) and norm(st_.value.func) == '%s.backward' % cur \
                    and st_.value.args and norm(st_.value.args[0]) == '%s.position - %s' % (cur, mark):
                back = i
                break
        if back is None:
            return False
        early = [n for st_ in body[:back] for n in ast.walk(st_) if isinstance(n, ast.Return)]
        return not early

    def is_reader(self, fd):
        """takes the token cursor: its first parameter receives .peek/.hasNext/next()..., or is handed on as the
        first argument of a function that does (transitively)"""
        cache = self.__dict__.setdefault('_reader_cache', None)
        if cache is None:
            cache = self._reader_cache = {}
            fns = list(self.reader.functions.values())
            for f in fns:
                cache[f.fq] = self._is_reader_direct(f)
            changed = True
            while changed:
                changed = False
                for f in fns:
                    if cache[f.fq] or not f.params():
                        continue
                    p = f.params()[0]
                    for n in ast.walk(f.node):
                        if isinstance(n, ast.Call) and isinstance(n.func, ast.Name) and n.args and isinstance(n.args[0], ast.Name) \
                                and n.args[0].id == p and n.func.id in self.reader.functions \
                                and cache.get(self.reader.functions[n.func.id].fq):
                            cache[f.fq] = True
                            changed = True
                            break
        if fd.fq in cache:
            return cache[fd.fq]
        return self._is_reader_direct(fd)

    def _is_reader_direct(self, fd):
        ps = fd.params()
        if not ps:
            return False
        p = ps[0]
        for n in ast.walk(fd.node):
            if isinstance(n, ast.Call):
                if isinstance(n.func, ast.Attribute) and isinstance(n.func.value, ast.Name) and n.func.value.id == p \
                        and n.func.attr in ('peek', 'hasNext', 'forward', 'backward', 'forward_until', 'startswith'):
                    return True
                if isinstance(n.func, ast.Name) and n.func.id == 'next' and n.args and isinstance(n.args[0], ast.Name) \
                        and n.args[0].id == p:
                    return True
        return False

    def default_ctx(self, fd):
        return ()

    def summary(self, fd, ctx):
        key = (fd.fq, ctx)
        if key in self.inprog or key in self.done:
            return self.summ.get(key, frozenset())
        self.inprog.add(key)
        self.contexts.add(key)
        it = ConsInterp(self, fd, ctx)
        it.peekmode = ('#peek', ('const', True)) in ctx or self.is_manual_peek(fd)
        st = RSt()
        params = fd.params()
        cdict = dict(ctx)
        for i, p in enumerate(params):
            if i == 0:
                st.vars[p] = ('cursor',)
            elif p in cdict:
                st.vars[p] = cdict[p]
            else:
                st.vars[p] = ('param', p)
        for p, d in fd.defaults().items():
            if p not in cdict and p != params[0]:
                # defaults are only used when the caller omits the argument; callers bind explicitly
                pass
        # parameters that receive an owned token at some call site are owned inside the callee
        for p in self.owned_params(fd):
            if p not in cdict:
                rid = st.new('tok', fd.node, 1, 1, 'parameter %s (token handed over by the caller)' % p, fd)
                st.vars[p] = ('res', rid)
        saved_peek = self.in_peek
        self.in_peek = it.peekmode
        try:
            outs = it.block(strip_doc(fd.node.body), st)
        finally:
            self.in_peek = saved_peek
        shapes = set()
        for out, s1 in outs:
            if out == NEXT:
                it.justify(s1, fd.node, 'end of function')
                shapes.add(('none',))
            elif out[0] == 'return':
                rv = out[1]
                if isinstance(rv, Raised):
                    continue
                if rv is None:
                    it.justify(s1, fd.node, 'return')
                    shapes.add(('none',))
                else:
                    shapes.add(it.return_value(rv, s1, out))
            elif out[0] == 'raise':
                pass
        if it.npaths > MAX_PATHS:
            raise AnalysisError('too many paths in %s (%d)' % (fd.fq, it.npaths))
        self.inprog.discard(key)
        self.done.add(key)
        shapes = frozenset(shapes)
        if self.summ.get(key) != shapes:
            self.changed = True
            self.summ[key] = shapes
        return shapes

    def owned_params(self, fd):
        """parameters bound to `next(cursor)` (or another owned token) at a call site in reader.py"""
        cache = getattr(self, '_owned_cache', None)
        if cache is None:
            cache = self._owned_cache = {}
            for caller in self.reader.functions.values():
                for n in ast.walk(caller.node):
                    if isinstance(n, ast.Call) and isinstance(n.func, ast.Name):
                        r = self.repo.resolve(self.reader, n.func.id)
                        if r and r[0] == 'func' and r[1].module is self.reader:
                            callee = r[1]
                            ps = callee.params()
                            for i, a in enumerate(n.args):
                                if i < len(ps) and self._is_owned_expr(caller, a):
                                    cache.setdefault(callee.fq, set()).add(ps[i])
                            for kw in n.keywords:
                                if kw.arg and self._is_owned_expr(caller, kw.value):
                                    cache.setdefault(callee.fq, set()).add(kw.arg)
        return sorted(cache.get(fd.fq, ()))

    def _is_owned_expr(self, caller, a):
        if isinstance(a, ast.Call) and isinstance(a.func, ast.Name) and a.func.id == 'next':
            return True
        if isinstance(a, ast.Name):
            # a local assigned from next(cursor)
            for n in ast.walk(caller.node):
                if isinstance(n, ast.Assign) and len(n.targets) == 1 and isinstance(n.targets[0], ast.Name) \
                        and n.targets[0].id == a.id and isinstance(n.value, ast.Call) and isinstance(n.value.func, ast.Name) \
                        and n.value.func.id == 'next':
                    return True
        return False

    def note(self, f, st=None):
        if self.final and not self.in_peek:
            if st is not None:
                f.spacer_on_path = any(r.kind == 'spacer' and r.whi != 0 for r in st.res.values())
            old = self.findings.get(f.key())
            # keep the witness path that needs the least (no whitespace token consumed) if there is one
            if old is None or (old.spacer_on_path and not f.spacer_on_path):
                self.findings[f.key()] = f

    # ------------------------------------------------------------------ class facts
    def delimiter_kinds(self, cinfo):
        out = {}
        for a in ('token_begin', 'token_end'):
            try:
                out[a] = self.repo.class_attr(cinfo, a)
            except Unfoldable:
                pass
        return out

    def is_node_class(self, cinfo):
        return cinfo.is_subclass_of(self.texexpr) or cinfo.name == 'TexArgs'

    def peek_extent(self, callee_fd, consts):
        """movement interval of a peek-wrapped call, from the cursor engine's context summaries"""
        if self.ce is None:
            return (0, INF)
        lo, hi = None, None
        for key, exits in self.ce.memo.items():
            if key[0] != callee_fd.fq:
                continue
            kc = dict((k, v) for k, v in key[1])
            ok = True
            for p, v in consts.items():
                if p in kc and kc[p][0] == 'const' and v[0] == 'const' and kc[p][1] != v[1]:
                    ok = False
                if p in kc and kc[p][0] != 'const' and v[0] == 'const':
                    pass
            if not ok:
                continue
            for ex in exits:
                lo = ex.lo if lo is None else min(lo, ex.lo)
                hi = ex.hi if hi is None else (INF if INF in (hi, ex.hi) else max(hi, ex.hi))
        if lo is None:
            return (0, INF)
        return (lo, hi)


class ConsInterp(Interp):
    def __init__(self, eng, fd, ctx):
        super().__init__()
        self.eng, self.fd, self.ctx = eng, fd, ctx
        self.repo = eng.repo
        self.module = fd.module
        self.npaths = 0
        self.loop_depth = 0
        self.try_stack = []     # exception types caught by the enclosing try statements

    def st_Try(self, n, st):
        """inside a try body a reader call may also end by raising (TypeError / EOFError are the parser's errors): the
        handler then runs with whatever the callee had consumed still unaccounted"""
        from .interp import exc_matches
        caught = set()
        for exc in ('TypeError', 'EOFError', 'AssertionError'):
            if any(exc_matches(exc, self.handler_types(h)) for h in n.handlers):
                caught.add(exc)
        self.try_stack.append(caught)
        try:
            return super().st_Try(n, st)
        finally:
            self.try_stack.pop()

    def where(self, n):
        return 'reader.py:%s' % getattr(n, 'lineno', '?')

    def state_key(self, st):
        return None

    def dedupe(self, states):
        if len(states) > MAX_PATHS:
            raise AnalysisError('path explosion in %s' % self.fd.fq)
        return states

    # ------------------------------------------------------------------ resource helpers
    def rids_of(self, v, st, seen=None):
        t = v[0]
        if t in ('res',):
            return [v[1]]
        if t == 'list':
            out = []
            for x in st.cont[v[1]][0]:
                out += self.rids_of(x, st)
            return out
        if t == 'tuple':
            out = []
            for x in v[1]:
                out += self.rids_of(x, st)
            return out
        if t == 'fmt':
            return self.rids_of(v[1], st)
        if t == 'part':
            return [v[1]]
        return []

    def store(self, v, st, how, node):
        """value flows into the tree (constructor argument / stored container / return)"""
        t = v[0]
        if t == 'fmt':
            self.check_invention(v, st, node)
        if t == 'const' and isinstance(v[1], str) and v[1] != '' and how != 'borrow':
            self.eng.note(CFind('invention', self.fd, node, 'the literal %r flows into the parse tree: text that is '
                                'not in the input would be serialised' % v[1], st.trail), st)
        if t == 'proj':
            # a projection of an owned resource is stored: only part of it reaches the tree
            r = st.res.get(v[1])
            if r is not None and v[2].split('.')[-1] not in ('position', 'category'):
                r.pins = r.pins | {('projected', v[2])}
            return
        if t == 'part':
            r = st.res.get(v[1])
            if r is not None:
                r.pins = r.pins | {('part-stored', v[2])}
            return
        for rid in self.rids_of(v, st):
            st.res[rid].status = how
        if t == 'list':
            st.cont[v[1]][1] = how

    def weight_of(self, v, st):
        lo, hi = 0, 0
        t = v[0]
        if t in ('part', 'proj'):
            return (0, INF)
        for rid in self.rids_of(v, st):
            r = st.res[rid]
            lo, hi = wadd(lo, r.wlo), wadd(hi, r.whi)
        if t == 'const' and isinstance(v[1], str) and v[1]:
            hi = wadd(hi, 1)
        return (lo, hi)

    def check_invention(self, v, st, node):
        tmpl = v[2]
        lit = tmpl.replace('%s', '')
        if not lit:
            return
        ok = False
        for c in self.eng.arg_types:
            try:
                b, e = self.repo.class_attr(c, 'begin'), self.repo.class_attr(c, 'end')
            except Unfoldable:
                continue
            if tmpl == '%s%%s%s' % (b, e) and v[1][0] == 'res' and st.res[v[1][1]].kind == 'tok':
                ok = True
        self.eng.obligations += 1
        if ok:
            self.eng.discharged['licensed-invention'] += 1
        else:
            self.eng.note(CFind('invention', self.fd, node, 'the literal text %r is added around parsed material and '
                                'flows into the tree: characters that are not in the input would be serialised' % lit,
                                st.trail), st)

    def acquire(self, st, kind, node, wlo, whi, desc):
        rid = st.new(kind, node, wlo, whi, desc, self.fd)
        if st.pending is not None and st.pending[1] == st.epoch:
            st.res[rid].pins = st.res[rid].pins | {st.pending[0]}
        st.pending = None
        st.epoch += 1
        st.consumed = wadd(st.consumed, wlo)
        return rid

    # ------------------------------------------------------------------ expressions
    def ev_Constant(self, n, st):
        return [(('const', n.value), st)]

    def ev_Name(self, n, st):
        if n.id in st.vars:
            return [(st.vars[n.id], st)]
        r = self.repo.resolve(self.module, n.id)
        if r is not None:
            if r[0] == 'func':
                return [(('func', r[1]), st)]
            if r[0] == 'class':
                return [(('class', r[1]), st)]
            try:
                v = self.repo.fold_global(self.module, n.id)
                return [(('global', n.id, v if not isinstance(v, (dict, list, set)) else None), st)]
            except Unfoldable:
                # a module-level object the folder cannot evaluate: still not something read from the cursor
                return [(('global', n.id, None), st)]
        if n.id in ('None', 'True', 'False'):
            return [(('const', {'None': None, 'True': True, 'False': False}[n.id]), st)]
        return [(('builtin', n.id), st)]

    def ev_Tuple(self, n, st):
        outs = []
        for vals, s1 in self.evs([e.value if isinstance(e, ast.Starred) else e for e in n.elts], st):
            outs.append((vals if isinstance(vals, Raised) else ('tuple', tuple(vals)), s1))
        return outs

    def ev_List(self, n, st):
        outs = []
        for vals, s1 in self.evs([e.value if isinstance(e, ast.Starred) else e for e in n.elts], st):
            if isinstance(vals, Raised):
                outs.append((vals, s1))
                continue
            s2 = s1.copy()
            items = []
            for e, v in zip(n.elts, vals):
                if isinstance(e, ast.Starred) and v[0] == 'list':
                    items += s2.cont[v[1]][0]
                else:
                    items.append(v)
            cid = s2.newc(items)
            outs.append((('list', cid), s2))
        return outs

    def ev_Dict(self, n, st):
        return [(('other',), st)]

    ev_Set = ev_Dict

    def ev_Starred(self, n, st):
        return self.ev(n.value, st)

    def ev_Lambda(self, n, st):
        return [(('closure', n), st)]

    def ev_JoinedStr(self, n, st):
        self.unsupported('f-string in the reader', n)

    def ev_Attribute(self, n, st):
        outs = []
        for v, s1 in self.ev(n.value, st):
            if isinstance(v, Raised):
                outs.append((v, s1))
                continue
            t = v[0]
            if t == 'cursor' and n.attr == 'position':
                outs.append((('pos', s1.nid), s1))        # a snapshot of the cursor (property read)
            elif t == 'cursor':
                outs.append((('cmeth', n.attr), s1))
            elif t == 'res':
                outs.append((('proj', v[1], '.' + n.attr), s1))
            elif t == 'proj':
                outs.append((('proj', v[1], v[2] + '.' + n.attr), s1))
            elif t == 'part':
                outs.append((('proj', v[1], '[%s].%s' % (v[2], n.attr)), s1))
            elif t == 'peekval':
                outs.append((('peekval', v[1] + '.' + n.attr), s1))
            elif t == 'peekitem':
                outs.append((('peekattr', n.attr), s1))
            elif t in ('param', 'classval', 'class'):
                outs.append((('attrof', v, n.attr), s1))
            elif t == 'list' and n.attr in ('append', 'extend', 'insert'):
                outs.append((('contmeth', v, n.attr), s1))
            elif t == 'global':
                outs.append((('attrof', v, n.attr), s1))
            else:
                outs.append((('attrof', v, n.attr), s1))
        return outs

    def ev_Subscript(self, n, st):
        outs = []
        sl = n.slice
        for base, s0 in self.ev(n.value, st):
            if isinstance(base, Raised):
                outs.append((base, s0))
                continue
            if isinstance(sl, ast.Slice):
                lo = sl.lower.value if isinstance(sl.lower, ast.Constant) else (0 if sl.lower is None else None)
                if base[0] == 'list' and lo is not None and sl.upper is None and sl.step is None:
                    s1 = s0.copy()
                    cid = s1.newc(s1.cont[base[1]][0][lo:], 'view')
                    outs.append((('list', cid), s1))
                elif base[0] == 'res':
                    outs.append((('part', base[1], 'rest' if lo == 1 and sl.upper is None else 'slice'), s0))
                elif base[0] == 'peekval':
                    outs.append((('peekval', base[1] + '[slice]'), s0))
                else:
                    outs.append((('other',), s0))
                continue
            for idx, s1 in self.ev(sl, s0):
                if isinstance(idx, Raised):
                    outs.append((idx, s1))
                elif base[0] == 'global' and idx[0] == 'proj' and idx[2] == '.category':
                    # TABLE[tok.category]: class selected by the token's kind
                    outs.append((('classval', base[1], idx[1]), s1))
                elif base[0] == 'res' and idx[0] == 'const' and idx[1] == 0:
                    outs.append((('part', base[1], '0'), s1))
                elif base[0] == 'res':
                    outs.append((('part', base[1], 'item'), s1))
                elif base[0] == 'list' and idx[0] == 'const' and isinstance(idx[1], int):
                    items = s1.cont[base[1]][0]
                    outs.append((items[idx[1]] if -len(items) <= idx[1] < len(items) else ('other',), s1))
                elif base[0] == 'peekval':
                    outs.append((('peekval', base[1] + '[%s]' % norm(sl)), s1))
                elif base[0] == 'tuple' and idx[0] == 'const' and isinstance(idx[1], int) and idx[1] < len(base[1]):
                    outs.append((base[1][idx[1]], s1))
                else:
                    outs.append((('other',), s1))
        return outs

    def ev_BinOp(self, n, st):
        outs = []
        for vals, s1 in self.evs([n.left, n.right], st):
            if isinstance(vals, Raised):
                outs.append((vals, s1))
                continue
            l, r = vals
            if isinstance(n.op, ast.Mod) and l[0] == 'const' and isinstance(l[1], str):
                outs.append((('fmt', r, l[1]), s1))
            elif isinstance(n.op, ast.Add) and (l[0] == 'const' and isinstance(l[1], str) or r[0] == 'const' and isinstance(r[1], str)) \
                    and (l[0] in ('res', 'fmt') or r[0] in ('res', 'fmt')):
                inner = l if l[0] in ('res', 'fmt') else r
                lit = l[1] if l[0] == 'const' else r[1]
                tm = ('%s' + lit) if l[0] != 'const' else (lit + '%s')
                if inner[0] == 'fmt':
                    tm = tm.replace('%s', inner[2])
                    inner = inner[1]
                outs.append((('fmt', inner, tm), s1))
            elif isinstance(n.op, ast.Add) and l[0] == 'global' and r[0] in ('param', 'other', 'const', 'global'):
                outs.append((('other',), s1))
            elif isinstance(n.op, ast.Sub) and l[0] == 'pos' and r[0] == 'pos':
                outs.append((('posdiff', l[1], r[1]), s1))
            elif l[0] == 'const' and r[0] == 'const':
                try:
                    v = {ast.Add: lambda: l[1] + r[1], ast.Sub: lambda: l[1] - r[1]}[type(n.op)]()
                    outs.append((('const', v), s1))
                except Exception:       # noqa
                    outs.append((('other',), s1))
            else:
                outs.append((('other',), s1))
        return outs

    def ev_UnaryOp(self, n, st):
        if isinstance(n.op, ast.Not):
            return [((b if isinstance(b, Raised) else ('const', b)), s1) for b, s1 in self.cond(n, st)]
        outs = []
        for v, s1 in self.ev(n.operand, st):
            if not isinstance(v, Raised) and v[0] == 'const' and isinstance(v[1], int) and isinstance(n.op, ast.USub):
                outs.append((('const', -v[1]), s1))
            else:
                outs.append((v if isinstance(v, Raised) else ('other',), s1))
        return outs

    def ev_BoolOp(self, n, st):
        # value semantics of `a or b` (e.g. args = args or TexArgs())
        outs = []
        isand = isinstance(n.op, ast.And)
        frontier = [st]
        for i, e in enumerate(n.values):
            nxt = []
            last = i == len(n.values) - 1
            for s0 in frontier:
                for v, s1 in self.ev(e, s0):
                    if isinstance(v, Raised) or last:
                        outs.append((v, s1))
                        continue
                    for b, s2 in self.truth_of(v, s1, e):
                        if b == isand:
                            nxt.append(s2)
                        else:
                            outs.append((v, s2))
            frontier = nxt
        return outs

    def ev_Compare(self, n, st):
        return [((b if isinstance(b, Raised) else ('const', b)), s1) for b, s1 in self.cond(n, st)]

    def ev_ListComp(self, n, st):
        return [(('other',), st)]

    ev_GeneratorExp = ev_ListComp

    def ev_Yield(self, n, st):
        outs = []
        for v, s1 in (self.ev(n.value, st) if n.value is not None else [(('const', None), st)]):
            if isinstance(v, Raised):
                outs.append((v, s1))
                continue
            s2 = s1.copy()
            self.store(v, s2, 'returned', n)
            outs.append((('other',), s2))
        return outs

    # ------------------------------------------------------------------ calls
    def ev_Call(self, n, st):
        f = n.func
        if isinstance(f, ast.Name) and f.id == 'next' and 'next' not in st.vars and n.args:
            outs = []
            for vals, s1 in self.evs(n.args, st):
                if isinstance(vals, Raised):
                    outs.append((vals, s1))
                elif vals[0][0] == 'cursor':
                    s2 = s1.copy()
                    rid = self.acquire(s2, 'tok', n, 1, 1, norm(n))
                    outs.append((('res', rid), s2))
                else:
                    outs.append((('other',), s1))
            return outs
        # TABLE.get(tok.category): the class selected by the token's kind (which pins that kind), or None
        if isinstance(f, ast.Attribute) and f.attr == 'get' and isinstance(f.value, ast.Name) and len(n.args) == 1 and not n.keywords:
            outs = []
            for base, s0 in self.ev(f.value, st):
                if isinstance(base, Raised) or base[0] != 'global':
                    outs = None
                    break
                for idx, s1 in self.ev(n.args[0], s0):
                    if isinstance(idx, Raised):
                        outs.append((idx, s1))
                    elif idx[0] == 'proj' and idx[2] == '.category':
                        s2 = s1.copy()
                        s2.res[idx[1]].pins = s2.res[idx[1]].pins | {('kind', norm(f.value))}
                        outs.append((('classval', base[1], idx[1]), s2))
                        outs.append((('const', None), s1.copy()))
                    else:
                        outs = None
                        break
                if outs is None:
                    break
            if outs is not None:
                return outs
        outs = []
        argnodes = [a.value if isinstance(a, ast.Starred) else a for a in n.args]
        for fv, s0 in self.ev(f, st):
            if isinstance(fv, Raised):
                outs.append((fv, s0))
                continue
            for vals, s1 in self.evs(argnodes + [k.value for k in n.keywords], s0):
                if isinstance(vals, Raised):
                    outs.append((vals, s1))
                    continue
                args = vals[:len(argnodes)]
                kw = {k.arg: v for k, v in zip(n.keywords, vals[len(argnodes):]) if k.arg is not None}
                outs += self.apply(fv, n, args, kw, s1.copy(), argnodes)
        return outs

    def const_ctx(self, fd, args, kw, peek=False):
        """constant integer arguments -> context"""
        ps = fd.params()
        out = {}
        boundp = set()
        for p, a in list(zip(ps, args)) + list(kw.items()):
            boundp.add(p)
            if a[0] == 'const' and isinstance(a[1], int) and not isinstance(a[1], bool):
                out[p] = a
        # parameters the call omits take their (constant) defaults
        for p, d in fd.defaults().items():
            if p not in boundp and isinstance(d, ast.Constant) and (d.value is None or isinstance(d.value, (int, str))):
                if isinstance(d.value, str):
                    continue
                out[p] = ('const', d.value)
        if peek:
            out['#peek'] = ('const', True)
        return tuple(sorted(out.items()))

    def apply(self, fv, n, args, kw, st, argnodes):
        t = fv[0]
        eng = self.eng
        if t == 'cmeth':
            m = fv[1]
            if m == 'forward':
                k = 1
                if args:
                    if args[0][0] == 'const' and isinstance(args[0][1], int):
                        k = args[0][1]
                    else:
                        k = None
                rid = self.acquire(st, 'tok', n, k if k is not None else 0, k if k is not None else INF, norm(n))
                if k is not None:
                    st.res[rid].pins = st.res[rid].pins | {('extent-literal', k)}
                    if st.peeked is not None and st.peeked[1] == st.epoch - 1:
                        st.res[rid].pins = st.res[rid].pins | {('after-peek', st.peeked[0], st.peeked[2])}
                return [(('res', rid), st)]
            if m == 'forward_until':
                rid = self.acquire(st, 'tok', n, 0, INF, norm(n)[:50])
                st.res[rid].pins = st.res[rid].pins | {('raw-scan',)}
                return [(('res', rid), st)]
            if m == 'backward':
                return self.rollback(args[0] if args else ('const', 1), n, st)
            if m in ('peek',):
                if args and args[0][0] in ('tuple',):
                    return [(('peekval', 'range'), st)]
                return [(('peekitem',), st)]
            if m in ('hasNext', 'startswith', 'endswith'):
                return [(('cquery', m, norm(n)), st)]
            if m == 'position':
                return [(('pos', st.nid), st)]
            raise AnalysisError('cursor method %s not modelled in conservation analysis (%s)' % (m, self.where(n)))
        if t == 'func':
            return self.call_reader(fv[1], n, args, kw, st, peek=self.eng.is_manual_peek(fv[1]))
        if t == 'peekwrap':
            return self.call_reader(fv[1], n, args, kw, st, peek=True)
        if t in ('class', 'classval'):
            return self.construct(fv, n, args, kw, st)
        if t == 'contmeth':
            cont = fv[1]
            for a in (args[1:] if fv[2] == 'insert' else args):
                if fv[2] == 'extend' and a[0] == 'list':
                    st.cont[cont[1]][0] += st.cont[a[1]][0]
                else:
                    st.cont[cont[1]][0].append(a)
            return [(('const', None), st)]
        if t == 'attrof':
            base, attr = fv[1], fv[2]
            if attr in ('append', 'extend', 'insert') and base[0] in ('param', 'res', 'other'):
                # out-parameter / constructed node absorbs the arguments
                for a in args:
                    if base[0] == 'res' and base[1] in st.res:
                        lo_, hi_ = self.weight_of(a, st)
                        rr_ = st.res[base[1]]
                        rr_.wlo, rr_.whi = wadd(rr_.wlo, lo_), wadd(rr_.whi, hi_)
                        if a[0] in ('other', 'peekval'):
                            rr_.whi = INF
                    self.store(a, st, 'stored', n)
                if base[0] == 'param':
                    st.built = st.built + (('param', base[1]),)
                    self.mark_arg_attached(st, base)
                return [(('const', None), st)]
            return [(('other',), st)]
        if t == 'proj' or (t == 'attrof'):
            return [(('other',), st)]
        if t == 'builtin':
            return [(('other',), st)]
        if t == 'closure':
            return [(('other',), st)]
        if t == 'global':
            return [(('other',), st)]
        return [(('other',), st)]

    def mark_arg_attached(self, st, base):
        for r in st.res.values():
            if r.kind == 'spacer' and r.status == 'live':
                r.after_arg = True

    def rollback(self, amount, n, st):
        eng = self.eng
        if amount[0] == 'posdiff':
            # everything acquired since the snapshot goes back
            mark = amount[2]
            for r in st.res.values():
                if r.seq > mark and r.kind in ('tok', 'spacer', 'call'):
                    if r.status not in ('live', 'rolledback', 'reported') and r.whi != 0 and not getattr(self, 'peekmode', False):
                        eng.note(CFind('rollback-of-stored', self.fd, n, 'the cursor is wound back to a saved position although '
                                       'tokens consumed since then (%s) are already part of the tree: they would be read a second '
                                       'time and appear twice in the output' % r.desc, st.trail), st)
                        continue
                    r.status = 'rolledback'
            st.epoch += 1
            return [(('other',), st)]
        if amount[0] == 'const' and isinstance(amount[1], int) and amount[1] >= 0:
            k = amount[1]
            # moving the cursor back by k un-reads the k tokens consumed LAST on this path, whoever holds
            # them: they must be exactly resources that are still unaccounted (live), of known size
            cands = sorted([r for r in st.res.values() if r.kind in ('tok', 'spacer', 'call') and r.whi != 0
                            and r.status != 'rolledback'], key=lambda r: -r.seq)
            left = k
            for r in cands:
                if left == 0:
                    break
                if r.status == 'live' and r.wlo == r.whi and r.wlo != INF and r.wlo <= left:
                    r.status = 'rolledback'
                    left -= r.wlo
                elif r.status != 'live':
                    eng.note(CFind('rollback-of-stored', self.fd, n, 'the cursor is moved back by %d token(s) although the '
                                   'token(s) consumed last on this path (%s) are already part of the tree: they would be read '
                                   'a second time and appear twice in the output' % (k, r.desc), st.trail), st)
                    left = 0
                    break
                else:
                    break
            st.epoch += 1
            if left != 0:
                eng.note(CFind('unmatched-rollback', self.fd, n, 'the cursor is moved back by %d tokens but the tokens '
                               'consumed and still unaccounted on this path do not add up to that: tokens would be '
                               'read twice' % k, st.trail), st)
            return [(('other',), st)]
        eng.note(CFind('unmatched-rollback', self.fd, n, 'rollback by an amount that is not tied to what was '
                       'consumed', st.trail), st)
        st.epoch += 1
        return [(('other',), st)]

    def call_reader(self, fd, n, args, kw, st, peek):
        eng = self.eng
        # factory: make_read_peek(f)
        if self.is_peek_factory(fd):
            if args and args[0][0] == 'func':
                return [(('peekwrap', args[0][1]), st)]
            raise AnalysisError('look-ahead wrapper applied to a non-function (%s)' % self.where(n))
        if fd.module is not eng.reader or not eng.is_reader(fd) or not (args and args[0][0] == 'cursor'):
            if any(a[0] == 'cursor' for a in args) and fd.module is eng.reader and not self.is_noreturn(fd):
                # helper taking the cursor for diagnostics only
                pass
            if self.is_noreturn(fd):
                return []
            return [(('other',), st)]
        ps = fd.params()
        owned = set(eng.owned_params(fd))
        # hand over owned arguments
        bound = list(zip(ps, args)) + list(kw.items())
        outparams = {}
        for p, a in bound:
            if a[0] in ('res', 'list', 'tuple', 'fmt') and not peek:
                if p in owned or a[0] != 'res':
                    self.store(a, st, 'handed', n)
                else:
                    self.store(a, st, 'handed', n)
            if a[0] == 'param' or (a[0] == 'res' and st.res[a[1]].kind in ('ctor', 'call')):
                outparams[p] = a
                if a[0] == 'res' and not peek:
                    st.res[a[1]].whi = INF
                    st.res[a[1]].status = 'live'
        ctx = self.const_ctx(fd, args, kw, peek or getattr(self, 'peekmode', False))
        shapes = eng.summary(fd, ctx)
        mark = st.nid
        outs = []
        if not shapes and (fd.fq, ctx) not in eng.inprog and (fd.fq, ctx) in eng.done:
            return []       # callee never returns (all paths raise)
        for shp in sorted(shapes, key=repr):
            s = st.copy()
            if peek:
                ext = eng.peek_extent(fd, dict(ctx))
                s.peeked = (ext, s.epoch, fd.qual)
                outs.append((self.shape_to_peek(shp, fd.qual), s))
                continue
            s.epoch += 1
            s.pending = None
            v = self.shape_to_value(shp, s, n, fd, outparams)
            # a spacer consumed before this call is followed by an argument read
            if fd.qual.startswith('read_arg'):
                for r in s.res.values():
                    if r.kind == 'spacer' and r.status == 'live' and r.seq <= mark:
                        r.after_arg = True
            outs.append((v, s))
        caught = set().union(*self.try_stack) if self.try_stack else set()
        if caught and not peek:
            for exc in sorted(caught & {'TypeError', 'EOFError'}):
                s = st.copy()
                s.epoch += 1
                s.pending = None
                s.new('call', n, 0, INF, 'tokens %s had consumed when it raised %s' % (fd.qual, exc), self.fd)
                s.trail = s.trail + ('%s raises %s' % (fd.qual, exc),)
                s.consumed = wadd(s.consumed, 0)
                outs.append((Raised(exc, n, 'raised by %s' % fd.qual), s))
        return outs

    def is_noreturn(self, fd):
        def blk(stmts):
            for st_ in stmts:
                if isinstance(st_, ast.Raise):
                    return True
                if isinstance(st_, ast.If) and st_.orelse and blk(st_.body) and blk(st_.orelse):
                    return True
            return False
        return blk(fd.node.body)

    def is_peek_factory(self, fd):
        if self.eng.ce is not None and fd in self.eng.ce.peek_wrappers:
            return bool(self.eng.ce.peek_wrappers[fd])
        inner = [s for s in fd.node.body if isinstance(s, ast.FunctionDef)]
        return len(inner) == 1 and any(isinstance(x, ast.Call) and isinstance(x.func, ast.Attribute) and x.func.attr == 'backward'
                                       for x in ast.walk(inner[0]))

    def shape_to_value(self, shp, st, n, fd, outparams):
        t = shp[0]
        if t == 'owned':
            kind = 'spacer' if shp[3] == 'spacer' else 'call'
            rid = st.new(kind, n, shp[1], shp[2], '%s(...)%s' % (fd.qual, '' if shp[3] in (None, 'spacer') else ' ' + str(shp[3])), self.fd)
            st.consumed = wadd(st.consumed, shp[1])
            return ('res', rid)
        if t == 'tuple':
            return ('tuple', tuple(self.shape_to_value(x, st, n, fd, outparams) for x in shp[1]))
        if t == 'const':
            return ('const', shp[1])
        if t == 'param':
            return outparams.get(shp[1], ('other',))
        if t == 'none':
            return ('const', None)
        return ('other',)

    def shape_to_peek(self, shp, callee, path=''):
        t = shp[0]
        if t == 'tuple':
            return ('tuple', tuple(self.shape_to_peek(x, callee, '%s#%d' % (path, i)) for i, x in enumerate(shp[1])))
        if t == 'const':
            return ('const', shp[1])
        return ('peekval', 'peek(%s)%s' % (callee, path))

    def construct(self, fv, n, args, kw, st):
        eng = self.eng
        classes = []
        if fv[0] == 'class':
            classes = [fv[1]]
        else:
            try:
                tab = self.repo.fold_global(self.module, fv[1])
                classes = [v.info for v in tab.values() if isinstance(v, ClassRef)]
            except Unfoldable:
                classes = []
        if classes and not all(eng.is_node_class(c) for c in classes):
            # not a tree class (CharToLineOffset, Token, ...): borrows its arguments
            if fv[0] == 'class' and fv[1].name == 'Token':
                # Token('', pos): an empty token value
                if args and args[0][0] == 'const' and args[0][1] == '':
                    rid = st.new('tok', n, 0, 0, 'empty token', self.fd)
                    return [(('res', rid), st)]
                if args and args[0][0] == 'const' and isinstance(args[0][1], str):
                    return [(('const', args[0][1]), st)]
            return [(('other',), st)]
        self.record_position(classes, n, kw, st)
        w_lo, w_hi = 0, 0
        for a in list(args) + list(kw.values()):
            if a[0] in ('res', 'list', 'tuple', 'fmt', 'part', 'proj') or (a[0] == 'const' and isinstance(a[1], str)):
                lo_, hi_ = self.weight_of(a, st)
                w_lo, w_hi = wadd(w_lo, lo_), wadd(w_hi, hi_)
                self.store(a, st, 'stored', n)
            elif a[0] not in ('const', 'pos', 'global', 'class', 'classval', 'cquery', 'int'):
                w_hi = INF
        rid = st.new('ctor', n, w_lo, w_hi, 'node %s' % (norm(n.func)[:40]), self.fd)
        st.built = st.built + (('classes', tuple(c.fq for c in classes), fv[2] if fv[0] == 'classval' else None, rid),)
        if any(c.name in ('TexArgs',) for c in classes):
            pass
        if n.args and classes and any(c.is_subclass_of(eng.repo.need_cls('data.TexGroup')) for c in classes):
            self.mark_arg_attached(st, None)
        return [(('res', rid), st)]

    def record_position(self, classes, n, kw, st):
        """R13.c: a node built from consumed tokens records the position of the earliest token still
        unaccounted on the path (the first token consumed for the construct)"""
        eng = self.eng
        if not eng.final or eng.in_peek:
            return
        if not classes or any(c.name in ('TexText', 'TexArgs') for c in classes):
            return
        last_ctor = max([r.seq for r in st.res.values() if r.kind == 'ctor' and r.whi != 0] or [0])
        cands = sorted([r for r in st.res.values() if r.kind == 'tok' and r.status == 'live' and r.wlo == 1 and r.whi == 1
                        and r.seq > last_ctor], key=lambda r: r.seq)
        pos = kw.get('position')
        if not cands:
            return
        first = cands[0]
        if pos is None:
            ok, desc = False, 'no position'
        elif pos[0] == 'proj' and pos[2] == '.position':
            ok = pos[1] == first.rid
            desc = 'the position of %s' % st.res[pos[1]].desc if pos[1] in st.res else 'a position'
        else:
            ok, desc = False, 'a value that is not a token position (%s)' % pos[0]
        eng.position_sites.append(((self.fd.fq, n.lineno), ok, desc, n, self.fd))

    # ------------------------------------------------------------------ conditions
    def truth_of(self, v, st, node):
        t = v[0]
        if t == 'const':
            return [(bool(v[1]), st)]
        if t == 'res':
            r = st.res[v[1]]
            if r.kind in ('tok', 'spacer', 'ctor') and r.wlo != 0 or r.kind == 'ctor':
                return [(True, st)]
            if r.whi == 0 and r.kind == 'tok':
                return [(False, st)]
            return self.fork(node, st)
        if t in ('class', 'classval', 'func', 'cursor'):
            return [(True, st)]
        return self.fork(node, st)

    def atom_key(self, n, st):
        text = norm(n)
        names = sorted({x.id for x in ast.walk(n) if isinstance(x, ast.Name)})
        cursorish = any(isinstance(x, ast.Name) and st.vars.get(x.id, ('x',))[0] == 'cursor' for x in ast.walk(n))
        vers = tuple((nm, st.ver.get(nm, 0)) for nm in names)
        return (text, vers, st.epoch if cursorish else None)

    def fork(self, n, st):
        key = self.atom_key(n, st)
        prior = [t for (k, t) in st.facts if k == key]
        outs = []
        for truth in (True, False):
            if prior and prior[-1] != truth:
                continue
            s = st.copy()
            s.facts = s.facts + ((key, truth),)
            s.trail = s.trail + ('%s=%s' % (key[0][:50], 'T' if truth else 'F'),)
            self.apply_pins(n, truth, s)
            outs.append((truth, s))
        return outs

    def atom(self, n, st):
        # constant-foldable conditions first (context constants)
        if isinstance(n, ast.Compare) and len(n.ops) == 1:
            res = []
            decided = True
            for vals, s1 in self.evs([n.left, n.comparators[0]], st):
                if isinstance(vals, Raised):
                    res.append((vals, s1))
                    continue
                l, r = vals
                if l[0] == 'const' and r[0] == 'const':
                    try:
                        op = n.ops[0]
                        b = {ast.Eq: lambda: l[1] == r[1], ast.NotEq: lambda: l[1] != r[1], ast.Lt: lambda: l[1] < r[1],
                             ast.Gt: lambda: l[1] > r[1], ast.LtE: lambda: l[1] <= r[1], ast.GtE: lambda: l[1] >= r[1],
                             ast.Is: lambda: l[1] is r[1], ast.IsNot: lambda: l[1] is not r[1]}[type(op)]()
                        res.append((b, s1))
                        continue
                    except (KeyError, TypeError):
                        pass
                decided = False
                break
            if decided:
                return res
            return self.fork(n, st)
        if isinstance(n, ast.Name) and n.id in st.vars:
            v = st.vars[n.id]
            if v[0] in ('const', 'res'):
                return self.truth_of(v, st, n)
            return self.fork(n, st)
        if isinstance(n, ast.Constant):
            return [(bool(n.value), st)]
        # calls used as conditions (src.hasNext(), isinstance(...)): evaluate for effects, then fork
        if isinstance(n, ast.Call):
            outs = []
            for v, s1 in self.ev(n, st):
                if isinstance(v, Raised):
                    outs.append((v, s1))
                elif v[0] == 'const':
                    outs.append((bool(v[1]), s1))
                else:
                    outs += self.fork(n, s1)
            return outs
        return self.fork(n, st)

    def apply_pins(self, n, truth, st):
        """facts that pin a token's kind/text, or the next token to be acquired"""
        if isinstance(n, ast.Compare) and len(n.ops) == 1:
            l, op, r = n.left, n.ops[0], n.comparators[0]
            pos = truth == isinstance(op, (ast.Eq, ast.In, ast.Is))
            if not pos:
                return
            # X.category ==/in ...
            if isinstance(l, ast.Attribute) and l.attr == 'category':
                base = l.value
                if isinstance(base, ast.Name) and base.id in st.vars and st.vars[base.id][0] == 'res':
                    rid = st.vars[base.id][1]
                    st.res[rid].pins = st.res[rid].pins | {('kind', norm(r))}
                elif isinstance(base, ast.Call) and isinstance(base.func, ast.Attribute) and base.func.attr == 'peek' \
                        and isinstance(base.func.value, ast.Name) and st.vars.get(base.func.value.id, ('x',))[0] == 'cursor' \
                        and not base.args:
                    st.pending = (('kind', norm(r)), st.epoch)
            # name == 'literal'
            elif isinstance(l, ast.Name) and l.id in st.vars and isinstance(r, ast.Constant) and isinstance(r.value, str):
                v = st.vars[l.id]
                if v[0] == 'res':
                    st.res[v[1]].pins = st.res[v[1]].pins | {('text', r.value)}
        elif isinstance(n, ast.Call) and isinstance(n.func, ast.Attribute) and n.func.attr == 'startswith' and truth:
            if isinstance(n.func.value, ast.Name) and st.vars.get(n.func.value.id, ('x',))[0] == 'cursor' and n.args:
                st.pending = (('prefix', norm(n.args[0])), st.epoch)
        elif isinstance(n, ast.Call) and isinstance(n.func, ast.Name) and n.func.id == 'isinstance' and truth and len(n.args) == 2:
            a0 = n.args[0]
            if isinstance(a0, ast.Subscript) and isinstance(a0.value, ast.Name) and a0.value.id in st.vars \
                    and st.vars[a0.value.id][0] == 'res':
                rid = st.vars[a0.value.id][1]
                st.res[rid].pins = st.res[rid].pins | {('isinstance', norm(a0.slice), norm(n.args[1]))}

    def truth(self, v, st):
        if v[0] == 'const':
            return [(bool(v[1]), st)]
        return [(True, st), (False, st)]

    # ------------------------------------------------------------------ statements
    def bump(self, st, name):
        st.ver[name] = st.ver.get(name, 0) + 1

    def assign(self, target, val, st):
        s = st.copy()
        if isinstance(target, ast.Name):
            s.vars[target.id] = val
            self.bump(s, target.id)
            return [s]
        if isinstance(target, (ast.Tuple, ast.List)):
            if val[0] == 'tuple' and len(val[1]) == len(target.elts):
                states = [s]
                for e, v in zip(target.elts, val[1]):
                    states = [s2 for s1 in states for s2 in self.assign(e, v, s1)]
                return states
            states = [s]
            for e in target.elts:
                states = [s2 for s1 in states for s2 in self.assign(e, ('other',), s1)]
            return states
        if isinstance(target, ast.Attribute):
            # storing into an attribute of a param/node: sink
            self.store(val, s, 'stored', target)
            return [s]
        if isinstance(target, ast.Subscript):
            self.store(val, s, 'stored', target)
            return [s]
        self.unsupported('assignment target', target)

    def st_Assign(self, n, st):
        # `error = <boolean expression>`: fork on the expression, remember the value
        if len(n.targets) == 1 and isinstance(n.targets[0], ast.Name) and isinstance(n.value, (ast.BoolOp, ast.Compare, ast.UnaryOp)) \
                and self.is_boolean(n.value):
            outs = []
            for b, s1 in self.cond(n.value, st):
                if isinstance(b, Raised):
                    outs.append((('raise', b.exc, b), s1))
                    continue
                s2 = s1.copy()
                s2.vars[n.targets[0].id] = ('const', b)
                self.bump(s2, n.targets[0].id)
                outs.append((NEXT, s2))
            return outs
        return super().st_Assign(n, st)

    def is_boolean(self, n):
        if isinstance(n, ast.BoolOp):
            return all(self.is_boolean(v) for v in n.values)
        if isinstance(n, ast.UnaryOp):
            return isinstance(n.op, ast.Not)
        if isinstance(n, ast.Compare):
            return True
        if isinstance(n, ast.Call) and isinstance(n.func, ast.Attribute) and n.func.attr in ('hasNext', 'startswith', 'endswith'):
            return True
        return False

    def aug_assign(self, n, st):
        outs = []
        for v, s1 in self.ev(n.value, st):
            if isinstance(v, Raised):
                outs.append((v, s1))
                continue
            s2 = s1.copy()
            if isinstance(n.target, ast.Name):
                old = s2.vars.get(n.target.id, ('other',))
                if old[0] == 'const' and v[0] == 'const' and isinstance(old[1], int) and isinstance(v[1], int) \
                        and isinstance(n.op, (ast.Add, ast.Sub)):
                    s2.vars[n.target.id] = ('const', old[1] + v[1] if isinstance(n.op, ast.Add) else old[1] - v[1])
                elif old[0] in ('param', 'int') and v[0] in ('const', 'int') and isinstance(n.op, (ast.Add, ast.Sub)) \
                        and (v[0] == 'int' or isinstance(v[1], int)):
                    s2.vars[n.target.id] = ('int',)
                elif old[0] == 'list' and isinstance(n.op, ast.Add) and v[0] == 'list':
                    s2.cont[old[1]][0] += s2.cont[v[1]][0]
                elif old[0] == 'res' and isinstance(n.op, ast.Add) and v[0] == 'res':
                    # token concatenation keeps both
                    s2.res[v[1]].status = 'stored' if s2.res[old[1]].status != 'live' else s2.res[v[1]].status
                    s2.nid += 0
                    cid = None
                    s2.vars[n.target.id] = ('tuple', (old, v))
                else:
                    s2.vars[n.target.id] = ('other',)
                self.bump(s2, n.target.id)
            outs.append((('other',), s2))
        return outs

    def st_Expr(self, n, st):
        if isinstance(n.value, ast.Constant):
            return [(NEXT, st)]
        outs = []
        for v, s1 in self.ev(n.value, st):
            if isinstance(v, Raised):
                outs.append((('raise', v.exc, v), s1))
                continue
            if v[0] == 'res' and s1.res[v[1]].status == 'live' and s1.res[v[1]].kind in ('tok', 'call', 'spacer'):
                s1.res[v[1]].pins = s1.res[v[1]].pins | {('discard-statement',)}
            outs.append((NEXT, s1))
        return outs

    def st_While(self, n, st):
        """loops taken 0, 1 and 2 times"""
        outs = []
        frontier = [st]
        for it in range(3):
            nxt = []
            for s0 in frontier:
                for b, s1 in self.cond(n.test, s0):
                    if isinstance(b, Raised):
                        outs.append((('raise', b.exc, b), s1))
                    elif not b:
                        outs += self.block(n.orelse, s1) if n.orelse else [(NEXT, s1)]
                    elif it < 2:
                        for out, s2 in self.block(n.body, s1):
                            if out in (NEXT, CONTINUE):
                                self.end_iteration(s2, n)
                                nxt.append(s2)
                            elif out == BREAK:
                                outs.append((NEXT, s2))
                            else:
                                outs.append((out, s2))
            frontier = nxt
            if len(frontier) + len(outs) > MAX_PATHS:
                raise AnalysisError('path explosion in loop of %s' % self.fd.fq)
        return outs

    def end_iteration(self, st, loop):
        """per-iteration obligation: a spacer read in this iteration must be settled by its end"""
        for r in st.res.values():
            if r.kind == 'spacer' and r.status == 'live' and not r.after_arg and r.whi != 0:
                self.eng.obligations += 1
                self.eng.note(CFind('spacer-dropped', self.fd, r.node, 'a whitespace token read before an argument '
                                    'position is neither followed by an argument nor rolled back at the end of the '
                                    'loop iteration', st.trail), st)
                r.status = 'reported'

    def on_for(self, n, st):
        outs = []
        for it, s0 in self.ev(n.iter, st):
            if isinstance(it, Raised):
                outs.append((('raise', it.exc, it), s0))
                continue
            k = None
            if isinstance(n.iter, ast.Call) and isinstance(n.iter.func, ast.Name) and n.iter.func.id == 'range' and n.iter.args:
                for v, _ in self.ev(n.iter.args[0], s0):
                    if not isinstance(v, Raised) and v[0] == 'const' and isinstance(v[1], int):
                        k = v[1]
            counts = [k] if k is not None else [0, 1, 2]
            for cnt in counts:
                frontier = [s0.copy()]
                for _ in range(cnt):
                    nxt = []
                    for s1 in frontier:
                        for s2 in self.assign(n.target, ('other',), s1):
                            for out, s3 in self.block(n.body, s2):
                                if out in (NEXT, CONTINUE):
                                    nxt.append(s3)
                                elif out == BREAK:
                                    outs.append((BROKE, s3))
                                else:
                                    outs.append((out, s3))
                    frontier = nxt
                outs += [(NEXT, f) for f in frontier]
        return outs

    def on_nested_def(self, n, st):
        s = st.copy()
        s.vars[n.name] = ('closure', n)
        return [(NEXT, s)]

    # ------------------------------------------------------------------ path end
    def return_value(self, rv, st, out):
        """mark what the return value carries as returned; -> result shape"""
        self.store(rv, st, 'returned', self.fd.node)
        self.justify(st, self.fd.node, 'return')
        return self.shape_of(rv, st)

    def shape_of(self, v, st):
        t = v[0]
        if t == 'res':
            r = st.res[v[1]]
            tag = None
            if r.kind == 'spacer' or any(p[0] == 'kind' and p[1].endswith('MergedSpacer') for p in r.pins):
                tag = 'spacer'
            if r.kind == 'param-owned':
                return ('param', r.desc)
            return ('owned', min(r.wlo, 1) if r.wlo != INF else 1, r.whi if r.whi in (0, 1) else INF, tag)
        if t == 'tuple':
            return ('tuple', tuple(self.shape_of(x, st) for x in v[1]))
        if t == 'list':
            items = st.cont[v[1]][0]
            return ('owned', 0, INF, None)
        if t == 'const':
            if isinstance(v[1], (int, str, bool, type(None))):
                return ('const', v[1])
            return ('const', None)
        if t == 'param':
            return ('param', v[1])
        if t in ('int', 'global', 'class', 'classval', 'closure', 'builtin', 'pos', 'cquery'):
            return ('const', None)
        return ('owned', 0, INF, None) if t in ('other',) else ('const', None)

    def justify(self, st, node, where):
        eng = self.eng
        self.npaths += 1
        if not eng.final or getattr(self, 'peekmode', False):
            return
        eng.paths += 1
        built_params = {b[1] for b in st.built if b[0] == 'param'}
        returned_params = set()
        for rid, r in sorted(st.res.items(), key=lambda kv: kv[1].seq):
            if r.kind in ('ctor',) and r.status == 'live':
                # a node constructed and then dropped
                if r.whi == 0:
                    continue
                eng.obligations += 1
                eng.note(CFind('node-dropped', self.fd, r.node, 'a node built from consumed tokens is neither stored '
                               'nor returned on this path', st.trail), st)
                continue
            if r.kind == 'ctor':
                continue
            eng.obligations += 1
            if r.status in ('stored', 'returned', 'handed', 'rolledback', 'reported'):
                eng.discharged[r.status] += 1
                continue
            held = any(c[1] in ('stored', 'returned', 'handed') and rid in sum((self.rids_of(x, st) for x in c[0]), [])
                       for c in st.cont.values())
            if held:
                eng.discharged['stored'] += 1
                continue
            if r.whi == 0:
                eng.discharged['empty'] += 1
                continue
            if any(p[0] == 'projected' for p in r.pins):
                ok, why = self.projection_ok(r, st)
                if ok:
                    eng.discharged['regenerated'] += 1
                else:
                    eng.note(CFind('projection-unpinned', self.fd, r.node, why, st.trail), st)
                continue
            ok, why = self.regenerated(r, st)
            if ok:
                eng.discharged['regenerated'] += 1
                smp = {'function': self.fd.qual, 'resource': r.desc, 'discharged_as': why}
                if len(eng.samples) < 16 and smp not in eng.samples:
                    eng.samples.append(smp)
                self.check_extent(r, st)
                continue
            if r.kind == 'spacer':
                if r.after_arg:
                    eng.discharged['licensed-spacer'] += 1
                    continue
                eng.note(CFind('spacer-dropped', self.fd, r.node, 'a whitespace token is consumed and neither attached, '
                               'rolled back nor followed by an argument', st.trail), st)
                continue
            pins = sorted(map(str, r.pins))
            if ('discard-statement',) in r.pins and any(p[0] == 'extent-literal' for p in r.pins):
                eng.note(CFind('unguarded-discard', self.fd, r.node, 'tokens are discarded (%s) on a path where nothing '
                               'pins them to a delimiter the node re-emits: input characters vanish from the serialised '
                               'output' % r.desc, st.trail, {'pins': pins}), st)
            else:
                eng.note(CFind('dropped', self.fd, r.node, 'the value of %s is consumed from the token stream but is '
                               'neither stored in the tree, returned, rolled back nor regenerated by the node built on '
                               'this path' % r.desc, st.trail, {'pins': pins, 'path_end': where}), st)
        for cid, c in st.cont.items():
            pass

    def ctor_has_content(self, r, st):
        return True

    def regenerated(self, r, st):
        """is the dropped resource re-emitted by a node class built (or filled) on this path?"""
        eng = self.eng
        pins = r.pins
        built = st.built
        kinds = [p[1] for p in pins if p[0] == 'kind']
        texts = [p[1] for p in pins if p[0] == 'text']
        prefixes = [p[1] for p in pins if p[0] == 'prefix']
        # (1) class selected from a table by this token's category
        for b in built:
            if b[0] == 'classes' and b[2] == r.rid:
                return True, 'class selected by the token kind (table look-up) re-emits the opener'
        # (2) kind pinned to the delimiter of a class built on the path / of the node being filled
        for k in kinds:
            for b in built:
                if b[0] == 'classes':
                    for fq in b[1]:
                        ci = self.repo.cls(fq)
                        if ci is None:
                            continue
                        dk = eng.delimiter_kinds(ci)
                        if any(self.kind_text_matches(k, v) for v in dk.values()):
                            return True, 'kind %s is a delimiter of %s' % (k, ci.name)
                        if k.endswith('.Escape') and (ci.name in ('TexCmd',) or ci.name == 'TexNamedEnv'):
                            return True, 'escape token re-emitted as the backslash of %s' % ci.name
            # `X.token_end` of a parameter / class value that is returned or filled
            if k.endswith('.token_end') or k.endswith('.token_begin'):
                base = k.rsplit('.', 1)[0]
                v = st.vars.get(base)
                if v is not None and (v[0] == 'param' or v[0] == 'classval' or v[0] == 'class'):
                    if v[0] == 'param' and (base in {b[1] for b in built if b[0] == 'param'}):
                        return True, 'closer of the node %s being filled' % base
                    if v[0] in ('classval', 'class') and any(b[0] == 'classes' for b in built):
                        return True, 'closer of the class constructed on this path'
        # (3) text pinned to a literal the class built on the path re-emits
        for t in texts:
            for b in built:
                if b[0] == 'classes':
                    for fq in b[1]:
                        ci = self.repo.cls(fq)
                        if ci is not None and self.class_emits_text(ci, t):
                            return True, 'text %r re-emitted by %s' % (t, ci.name)
        # (4) multi-token discard after a prefix test / a peeked command, closing the node being filled
        if prefixes and built:
            for b in built:
                if b[0] == 'param':
                    return True, 'closer text %s of the node %s being filled' % (prefixes[0], b[1])
        if any(p[0] == 'after-peek' for p in pins) and any(b[0] == 'param' for b in built):
            # guarded by the facts on the path: peeked name == 'end' and its argument equals the node name
            pos_facts = [k[0] for (k, t) in st.facts if t]
            neg_facts = [k[0] for (k, t) in st.facts if not t]
            name_end = any(f.replace('"', "'").endswith("== 'end'") for f in pos_facts)
            same = any('.string != ' in f and f.endswith('.name') for f in neg_facts) or \
                any('.string == ' in f and f.endswith('.name') for f in pos_facts)
            if name_end and same:
                return True, 'peeked \\end{name} matches the node being filled'
        return False, ''

    def projection_ok(self, r, st):
        """X[0].string stored + X[1:] stored: everything of X reaches the tree except the delimiters
        of X[0]; they are regenerated only if X[0] is pinned to the group class whose delimiters the
        built class writes around the stored string"""
        projs = [p[1] for p in r.pins if p[0] == 'projected']
        rest = any(p == ('part-stored', 'rest') for p in r.pins)
        if not (projs == ['[0].string'] and rest):
            return False, 'only %s of the value %s reaches the tree' % (', '.join(projs), r.desc)
        pinned = [p[2] for p in r.pins if p[0] == 'isinstance' and p[1] == '0']
        for b in st.built:
            if b[0] != 'classes':
                continue
            for fq in b[1]:
                ci = self.repo.cls(fq)
                if ci is None:
                    continue
                for cname in pinned:
                    rr_ = self.repo.resolve(self.module, cname)
                    if rr_ and rr_[0] == 'class':
                        try:
                            bg, en = self.repo.class_attr(rr_[1], 'begin'), self.repo.class_attr(rr_[1], 'end')
                        except Unfoldable:
                            continue
                        if self.class_emits_text(ci, bg + '%s' + en, raw=True):
                            return True, 'first group pinned to %s, whose delimiters %s re-emits' % (cname, ci.name)
        return False, ('only the text inside the first group of %s is stored (plus the remaining groups); the '
                       'delimiters of that group are written back as braces, but nothing on the path pins the group '
                       'to a brace group: a bracket group would come back with different delimiters' % r.desc)

    def kind_text_matches(self, kind_text, value):
        """`TC.GroupEnd` (text of the guard) against a folded token kind value"""
        if isinstance(value, FEnumMember):
            return kind_text.split('.')[-1] == value.mname
        return False

    def class_emits_text(self, ci, text, raw=False):
        for a in ('begin', 'end'):
            owner, kind, payload = ci.lookup(a)
            if kind == 'property' and 'getter' in payload:
                for n in ast.walk(payload['getter'].node):
                    if isinstance(n, ast.Constant) and isinstance(n.value, str) and \
                            ((text if raw else ('\\' + text)) in n.value):
                        return True
            elif kind == 'classattr':
                try:
                    v = self.repo.class_attr(ci, a)
                    if isinstance(v, str) and text in v:
                        return True
                except Unfoldable:
                    pass
        return False

    def check_extent(self, r, st):
        """a discard of a literal number of tokens must follow a recogniser of exactly that extent"""
        eng = self.eng
        lits = [p[1] for p in r.pins if p[0] == 'extent-literal']
        if not lits or lits[0] <= 1:
            return
        n = lits[0]
        eng.obligations += 1
        peeks = [p for p in r.pins if p[0] == 'after-peek']
        if peeks:
            ext = peeks[0][1]
            if ext == (n, n):
                eng.discharged['extent'] += 1
                return
            eng.note(CFind('literal-extent', self.fd, r.node, 'exactly %d tokens are discarded after a look-ahead by %s '
                           'whose extent is %s..%s tokens: when the recognised closer is written with a different '
                           'number of tokens, too few or too many are removed' % (n, peeks[0][2], ext[0], ext[1]), st.trail), st)
            return
        eng.note(CFind('literal-extent', self.fd, r.node, 'exactly %d tokens are discarded after a text-prefix test whose '
                       'extent in tokens is not fixed' % n, st.trail), st)


def analyse(repo, cursor_engine=None, entry_consts=None):
    return Conserve(repo, cursor_engine, entry_consts).run()
