"""Option roles (tolerance / skip list / mode): inference by data flow from the public entry
point, threading (no-drop) and must-flow rules, and tolerance non-interference.
Rules R07.a-c, R11.a-d, R02.a-b."""
import ast
import itertools

from .model import AnalysisError, Unfoldable, Folder, norm
from .core import RuleResult, Finding
from . import callgraph, rules_conserve
from .interp import strip_doc


class Roles:
    def __init__(self, ctx):
        self.repo = ctx.repo
        self.cg = callgraph.graph(ctx)
        repo = self.repo
        entry = repo.need_func('__init__.TexSoup')
        ps = entry.params()
        if len(ps) < 3:
            raise AnalysisError('TexSoup() lost its option parameters')
        self.entry = entry
        self.roles = {'skip': {(entry.fq, ps[1])}, 'tolerance': {(entry.fq, ps[2])}, 'mode': set()}
        self.modes = {}
        for name in ('MODE_MATH', 'MODE_NON_MATH', 'MODE_SPECIAL'):
            try:
                self.modes[name] = repo.fold_global('reader', name)
            except Unfoldable:
                raise AnalysisError('reader.%s vanished' % name)
        # mode seeds: parameters whose default is a MODE_* constant
        for fd in repo.all_funcs():
            for p, d in fd.defaults().items():
                if isinstance(d, ast.Name) and d.id in self.modes:
                    self.roles['mode'].add((fd.fq, p))
        self.fds = {fd.fq: fd for fd in repo.all_funcs()}
        self.edges = []      # (caller, call, callee, {param: arg expr or None})
        for callee, sites in self.cg.sites.items():
            for caller, call in sites:
                if not isinstance(call, ast.Call):
                    continue
                self.edges.append((caller, call, callee, self.bind(callee, call)))
        # roles are typed by their seeds (skip list: tuple, tolerance: int, mode: one of the MODE_* strings);
        # a parameter whose default has another type cannot carry the role: a flow into it is a mis-directed
        # argument (reported by the threading rule at that call site), not a new member of the role
        domain = {'skip': (tuple, list), 'tolerance': (int,), 'mode': (str,)}
        self.conflicts = []

        def compatible(fq, p, role):
            fd = self.fds.get(fq)
            if fd is None:
                return True
            d = fd.defaults().get(p)
            if d is None:
                return True
            try:
                v = Folder(repo, fd.module).ev(d)
            except Unfoldable:
                return True
            if v is None:
                return True
            return isinstance(v, domain[role]) and not (role == 'tolerance' and isinstance(v, bool))
        changed = True
        while changed:
            changed = False
            for caller, call, callee, bound in self.edges:
                for role, members in self.roles.items():
                    for p, a in bound.items():
                        if a is None or (callee.fq, p) in members:
                            continue
                        if self.mentions(caller, a, role):
                            if compatible(callee.fq, p, role):
                                members.add((callee.fq, p))
                                changed = True
                            elif ((callee.fq, p), role) not in self.conflicts:
                                self.conflicts.append(((callee.fq, p), role))

    def bind(self, callee, call):
        ps = callee.params()
        if callee.cls is not None and ps and ps[0] in ('self', 'cls'):
            ps = ps[1:]
        out = {p: None for p in ps}
        for p, a in zip(ps, call.args):
            if isinstance(a, ast.Starred):
                break
            out[p] = a
        for kw in call.keywords:
            if kw.arg in out:
                out[kw.arg] = kw.value
        return out

    COPIERS = ('set', 'list', 'tuple', 'frozenset', 'sorted')

    def _carries(self, e, names):
        """the expression is (built from) a role value; results of calls do not carry the role, except those of
        the collection copiers set()/list()/tuple()/frozenset()/sorted() (same elements)"""
        if isinstance(e, ast.Call):
            if isinstance(e.func, ast.Name) and e.func.id in self.COPIERS and len(e.args) == 1 and not e.keywords:
                return self._carries(e.args[0], names)
            return False
        if isinstance(e, ast.Name):
            return e.id in names
        return any(self._carries(c, names) for c in ast.iter_child_nodes(e))

    def local_taint(self, fd, role):
        """names of fd carrying the role: role parameters plus locals copied from / joined with them"""
        key = (fd.fq, role, len(self.roles[role]))
        cache = self.__dict__.setdefault('_taint_cache', {})
        if key in cache:
            return cache[key]
        names = {p for (fq, p) in self.roles[role] if fq == fd.fq}
        changed = True
        while changed:
            changed = False
            for n in ast.walk(fd.node):
                tgt = None
                if isinstance(n, ast.Assign) and len(n.targets) == 1 and isinstance(n.targets[0], ast.Name):
                    tgt, val = n.targets[0].id, n.value
                elif isinstance(n, ast.AugAssign) and isinstance(n.target, ast.Name) and isinstance(n.op, (ast.Add, ast.BitOr)):
                    tgt, val = n.target.id, n.value
                elif isinstance(n, ast.Call) and isinstance(n.func, ast.Attribute) and n.func.attr in ('update', 'extend') \
                        and isinstance(n.func.value, ast.Name) and len(n.args) == 1:
                    tgt, val = n.func.value.id, n.args[0]
                if tgt is not None and tgt not in names and self._carries(val, names):
                    names.add(tgt)
                    changed = True
        cache[key] = names
        return names

    def mentions(self, fd, expr, role):
        """the expression is (built from) a role value"""
        return self._carries(expr, self.local_taint(fd, role))

    def has_role(self, fd, role):
        return any(fq == fd.fq for (fq, p) in self.roles[role])

    def role_params(self, fd, role):
        return [p for (fq, p) in self.roles[role] if fq == fd.fq]


def roles(ctx):
    return ctx.memo('roles', lambda: Roles(ctx))


# tabled exceptions of the threading rule, each with its reason (from the property texts)
THREADING_EXCEPTIONS = {
    ('tolerance', 'reader.read_expr', 'reader.read_item'):
        'C07 is stated for documents "without math, verbatim or list regions": item bodies are read strictly today',
    ('mode', 'reader.read_expr', 'reader.read_arg'):
        'a bare brace group in the text restarts in non-math mode; C02 only requires the definition mode to reach the '
        'arguments of the defining command',
}


def threading(ctx, role, rule_id, title, floor):
    R = roles(ctx)
    rr = RuleResult(rule_id, title, floor)
    for caller, call, callee, bound in R.edges:
        if not R.has_role(caller, role):
            continue
        # the repository threads its options by keyword of the same name: the obligation is on the callee
        # parameter named like the caller's option (whether or not some caller forwards it today); a parameter
        # of another name that happens to receive the role somewhere is not an obligation for every caller
        mine = R.local_taint(caller, role)
        cps = sorted({p for p in callee.params() if p in mine and (p in callee.defaults() or (callee.fq, p) in R.roles[role])})
        if not cps:
            continue
        if caller.module.name not in ('reader', 'tex', '__init__') or callee.module.name not in ('reader', 'tex', '__init__'):
            continue
        shallow = _shallow_call(ctx, callee, call)
        for p in cps:
            a = bound.get(p)
            ok = a is not None and (R.mentions(caller, a, role) or (role == 'mode' and _is_mode_const(R, caller, a)))
            if not ok and shallow:
                rr.ob(True, {'edge': '%s -> %s' % (caller.qual, callee.qual), 'parameter': p, 'forwarded': False,
                             'exempt': 'constant arguments make the callee read nothing nested (it never uses the option)'})
                continue
            exc = THREADING_EXCEPTIONS.get((role, caller.fq, callee.fq))
            sample = {'edge': '%s -> %s' % (caller.qual, callee.qual), 'parameter': p,
                      'argument': norm(a) if a is not None else '<default>', 'forwarded': ok}
            if not ok and exc:
                sample['tabled_exception'] = exc
                rr.ob(True, sample)
                continue
            rr.ob(ok, sample)
            if not ok:
                rr.fail(Finding(rule_id, caller.module.name, caller.qual, call,
                                'the call %s -> %s does not forward the %s option (parameter %s gets %s): the callee '
                                'falls back to its default' % (caller.qual, callee.qual, role, p,
                                                               norm(a) if a is not None else 'its default'),
                                line=call.lineno))
    return rr


def _shallow_call(ctx, callee, call):
    """constant count arguments make the callee read nothing nested (so it never uses an option): decided from
    the conservation engine's result shapes for that constant context -- every returned component other than
    single tokens is empty"""
    consts = [a.value for a in call.args[1:3] if isinstance(a, ast.Constant) and isinstance(a.value, int)]
    if consts != [0, 0]:
        return False
    from . import rules_conserve
    e = rules_conserve.engine(ctx, 'any')
    found = False
    for (fq, cx), shapes in e.summ.items():
        if fq != callee.fq:
            continue
        vals = [v[1] for k, v in cx if isinstance(v, tuple) and v[0] == 'const' and isinstance(v[1], int) and k.startswith('n_')]
        if vals != [0, 0]:
            continue
        for shp in shapes:
            found = True
            comps = shp[1] if shp[0] == 'tuple' else (shp,)
            for c in comps:
                if c[0] == 'owned' and c[2] not in (0, 1):
                    return False
    return found


def _is_mode_const(R, fd, a):
    try:
        v = Folder(R.repo, fd.module).ev(a)
        return v in R.modes.values()
    except Unfoldable:
        return False


def must_flow(ctx, role, src_fq, sinks, vias, rule_id, rr):
    """the role flows from src to each sink function along role-forwarding call edges, through each via chain"""
    R = roles(ctx)
    g = {}
    for caller, call, callee, bound in R.edges:
        for p in R.role_params(callee, role):
            a = bound.get(p)
            if a is not None and (R.mentions(caller, a, role)):
                g.setdefault(caller.fq, set()).add(callee.fq)

    def reach(a, b, seen=None):
        seen = seen or set()
        if a == b:
            return True
        seen.add(a)
        return any(reach(n, b, seen) for n in g.get(a, ()) if n not in seen)
    for chain in vias:
        path = [src_fq] + list(chain)
        ok = all(reach(x, y) for x, y in zip(path, path[1:]))
        rr.ob(ok, {'must_flow': ' -> '.join(p.split('.')[-1] for p in path), 'holds': ok})
        if not ok:
            broken = [(x, y) for x, y in zip(path, path[1:]) if not reach(x, y)][0]
            fd = R.fds.get(broken[0])
            rr.fail(Finding(rule_id, fd.module.name if fd else 'reader', fd.qual if fd else broken[0],
                            'no %s-forwarding path %s -> %s' % (role, broken[0], broken[1]),
                            'the %s option given to TexSoup() no longer reaches %s through %s: nested constructs are '
                            'read with the default' % (role, broken[1].split('.')[-1], ' -> '.join(p.split('.')[-1] for p in path)),
                            line=fd.node.lineno if fd else 0))


# --------------------------------------------------------------------------- C07

def _noreturn_funcs(repo):
    out = set()
    for fd in repo.modules['reader'].functions.values():
        if _always_raises(strip_doc(fd.node.body), set()):
            out.add(fd.name)
    return out


def _always_raises(stmts, noreturn):
    for s in stmts:
        if isinstance(s, ast.Raise):
            return True
        if isinstance(s, ast.Expr) and isinstance(s.value, ast.Call) and isinstance(s.value.func, ast.Name) \
                and s.value.func.id in noreturn:
            return True
        if isinstance(s, ast.If) and s.orelse and _always_raises(s.body, noreturn) and _always_raises(s.orelse, noreturn):
            return True
        if isinstance(s, ast.Assert) and isinstance(s.test, ast.Constant) and not s.test.value:
            return True
    return False


def _atoms(test, tol_names):
    """atoms of a boolean expression; tolerance atoms are evaluated, others enumerated"""
    if isinstance(test, ast.BoolOp):
        out = []
        for v in test.values:
            out += _atoms(v, tol_names)
        return out
    if isinstance(test, ast.UnaryOp) and isinstance(test.op, ast.Not):
        return _atoms(test.operand, tol_names)
    return [test]


def _eval_bool(test, env, tol_names, tolval):
    if isinstance(test, ast.BoolOp):
        vals = [_eval_bool(v, env, tol_names, tolval) for v in test.values]
        return all(vals) if isinstance(test.op, ast.And) else any(vals)
    if isinstance(test, ast.UnaryOp) and isinstance(test.op, ast.Not):
        return not _eval_bool(test.operand, env, tol_names, tolval)
    if _mentions(test, tol_names):
        return _eval_tol_atom(test, tol_names, tolval)
    return env[norm(test)]


def _mentions(e, names):
    return any(isinstance(x, ast.Name) and x.id in names for x in ast.walk(e))


def _eval_tol_atom(a, names, v):
    if isinstance(a, ast.Name):
        return bool(v)
    if isinstance(a, ast.Compare) and len(a.ops) == 1:
        l, r = a.left, a.comparators[0]
        if isinstance(l, ast.Name) and l.id in names and isinstance(r, ast.Constant):
            x, y = v, r.value
        elif isinstance(r, ast.Name) and r.id in names and isinstance(l, ast.Constant):
            x, y = l.value, v
        else:
            raise ValueError
        op = a.ops[0]
        return {ast.Eq: x == y, ast.NotEq: x != y, ast.Lt: x < y, ast.LtE: x <= y, ast.Gt: x > y,
                ast.GtE: x >= y}[type(op)]
    raise ValueError


def _cursor_calls(stmts, cursor_names):
    out = []
    for s in stmts:
        for n in ast.walk(s):
            if isinstance(n, ast.Call):
                if isinstance(n.func, ast.Attribute) and isinstance(n.func.value, ast.Name) and n.func.value.id in cursor_names \
                        and n.func.attr in ('forward', 'backward', 'forward_until'):
                    out.append(n)
                elif isinstance(n.func, ast.Name) and n.func.id == 'next' and n.args and isinstance(n.args[0], ast.Name) \
                        and n.args[0].id in cursor_names:
                    out.append(n)
                elif isinstance(n.func, ast.Name) and n.func.id.startswith('read_') and any(
                        isinstance(a, ast.Name) and a.id in cursor_names for a in n.args):
                    out.append(n)
    return out


def r07_a(ctx):
    repo = ctx.repo
    R = roles(ctx)
    rr = RuleResult('R07.a', 'tolerance non-interference: the tolerance option is used only as a call argument and in '
                    'branch conditions whose strict side ends in a raise; wherever strict parsing does not raise, '
                    'tolerant parsing follows the identical path', floor=2)
    rc = RuleResult('R07.c', 'the tolerant continuation of such a branch consumes nothing: tolerant mode only omits '
                    'the raise', floor=1)
    noreturn = _noreturn_funcs(repo)
    n_conds = 0
    for fd in sorted(repo.all_funcs(), key=lambda f: f.fq):
        if fd.module.name not in ('reader', 'tex', '__init__'):
            continue
        names = R.local_taint(fd, 'tolerance')
        if not names:
            continue
        cursor_names = {fd.params()[0]} if fd.params() else set()
        for n in ast.walk(fd.node):
            if not (isinstance(n, ast.Name) and n.id in names and isinstance(n.ctx, ast.Load)):
                continue
            # classify the use
            p = getattr(n, '_parent', None)
            node = n
            use = None
            while p is not None:
                if isinstance(p, ast.Call) and (node in p.args or any(k.value is node or k is node for k in p.keywords)):
                    tgt = p.func
                    if isinstance(tgt, ast.Call):
                        tgt = tgt.args[0] if tgt.args else tgt
                    r = repo.resolve(fd.module, tgt.id) if isinstance(tgt, ast.Name) else None
                    forwards = (r is not None and r[0] in ('func', 'class')) or isinstance(tgt, ast.Attribute)
                    use = ('arg', p) if forwards else ('other', _stmt_of(p))
                    break
                if isinstance(p, ast.keyword):
                    node, p = p, getattr(p, '_parent', None)
                    continue
                if isinstance(p, (ast.If, ast.While, ast.IfExp, ast.Assert)) and _within(node, p.test):
                    use = ('cond', p)
                    break
                if isinstance(p, ast.stmt):
                    use = ('other', p)
                    break
                node, p = p, getattr(p, '_parent', None)
            if use is None:
                continue
            if use[0] == 'arg':
                rr.ob(True, {'function': fd.qual, 'use': 'argument of %s' % norm(use[1].func)[:40]})
                continue
            if use[0] == 'other':
                if isinstance(use[1], ast.Assign) and not any(isinstance(x, ast.Call) for x in ast.walk(use[1].value)):
                    continue        # plain copy: the copy is tracked as a tolerance name
                rr.ob(False)
                rr.fail(Finding('R07.a', fd.module.name, fd.qual, use[1], 'the tolerance option flows into a value or '
                                'statement other than a call argument or a branch condition: tolerant and strict '
                                'parsing can differ where strict parsing succeeds', line=use[1].lineno))
                continue
            stmt = use[1]
            n_conds += 1
            if isinstance(stmt, (ast.While, ast.IfExp)):
                rr.ob(False)
                rr.fail(Finding('R07.a', fd.module.name, fd.qual, stmt.test, 'the tolerance option controls a %s: '
                                'tolerant and strict parsing take different paths without strict parsing raising'
                                % ('loop' if isinstance(stmt, ast.While) else 'conditional expression'), line=stmt.lineno))
                continue
            test = stmt.test
            others = sorted({norm(a) for a in _atoms(test, names) if not _mentions(a, names)})
            if len(others) > 6:
                raise AnalysisError('condition with too many atoms in %s' % fd.fq)
            try:
                differing = []
                for vals in itertools.product([False, True], repeat=len(others)):
                    env = dict(zip(others, vals))
                    b0 = _eval_bool(test, env, names, 0)
                    b1 = _eval_bool(test, env, names, 1)
                    if b0 != b1:
                        differing.append((env, b0, b1))
            except (ValueError, KeyError):
                rr.ob(False)
                rr.fail(Finding('R07.a', fd.module.name, fd.qual, test, 'the tolerance option is used in a condition of '
                                'a form the analysis cannot evaluate for tolerance 0 and 1', line=stmt.lineno))
                continue
            ok = True
            for env, b0, b1 in differing:
                if isinstance(stmt, ast.Assert):
                    strict_branch_raises = not b0
                    tolerant_stmts = []
                else:
                    strict = stmt.body if b0 else stmt.orelse
                    strict_branch_raises = _always_raises(strict, noreturn)
                    tolerant_stmts = _select(stmt.body if b1 else stmt.orelse, env, names)
                if not strict_branch_raises:
                    ok = False
                    rr.fail(Finding('R07.a', fd.module.name, fd.qual, test,
                                    'with %s the condition %s selects different branches for tolerance 0 and 1, and the '
                                    'branch taken in strict mode does not end in a raise: tolerant parsing differs from '
                                    'strict parsing on inputs that strict parsing accepts' % (
                                        ', '.join('%s=%s' % kv for kv in env.items()) or 'any input', norm(test)),
                                    line=stmt.lineno))
                else:
                    cc = _cursor_calls(tolerant_stmts, cursor_names)
                    rc.ob(not cc, {'function': fd.qual, 'condition': norm(test)[:60], 'tolerant_only_statements': len(tolerant_stmts)})
                    for c in cc:
                        rc.fail(Finding('R07.c', fd.module.name, fd.qual, c, 'the branch taken only in tolerant mode '
                                        'consumes tokens (%s): tolerant parsing does more than omit the raise' % norm(c)[:50],
                                        line=c.lineno))
            rr.ob(ok, {'function': fd.qual, 'condition': norm(test)[:70], 'differing_assignments': len(differing)})
    if n_conds < 2:
        raise AnalysisError('fewer than two tolerance tests found (%d)' % n_conds)
    return [rr, rc]


def _stmt_of(n):
    while n is not None and not isinstance(n, ast.stmt):
        n = getattr(n, '_parent', None)
    return n


def _within(node, root):
    return any(x is node for x in ast.walk(root))


def _select(stmts, env, names):
    """statements executed in the selected branch; descend through `elif` whose test is decided by env"""
    if len(stmts) == 1 and isinstance(stmts[0], ast.If):
        s = stmts[0]
        try:
            others = {norm(a) for a in _atoms(s.test, names)}
            if others <= set(env) | {norm(a) for a in _atoms(s.test, names) if _mentions(a, names)}:
                b = _eval_bool(s.test, env, names, 1)
                return _select(s.body if b else s.orelse, env, names)
        except (ValueError, KeyError):
            pass
    return stmts


def r07_b(ctx):
    rr = threading(ctx, 'tolerance', 'R07.b', 'the tolerance option is forwarded on every call edge between functions '
                   'that carry it, and reaches both error tests through environments, brace and bracket arguments',
                   floor=15)
    must_flow(ctx, 'tolerance', '__init__.TexSoup', None, [
        ('tex.read', 'reader.read_tex', 'reader.read_expr', 'reader.read_env', 'reader.read_expr'),
        ('reader.read_expr', 'reader.read_command', 'reader.read_args', 'reader.read_arg_required', 'reader.read_arg', 'reader.read_expr'),
        ('reader.read_expr', 'reader.read_command', 'reader.read_args', 'reader.read_arg_optional', 'reader.read_arg'),
        ('reader.read_expr', 'reader.read_math_env', 'reader.read_expr'),
    ], 'R07.b', rr)
    return rr


# --------------------------------------------------------------------------- C11

def r11_a(ctx):
    repo = ctx.repo
    cg = callgraph.graph(ctx)
    rr = RuleResult('R11.a', 'the raw reader of skipped environments reaches no parsing function', floor=1)
    fd = repo.need_func('reader.read_skip_env')
    noreturn = _noreturn_funcs(repo)
    reach = cg.reachable([fd])
    def moves_cursor(f):
        # a parsing function advances the cursor itself (helpers that only build a message or test a prefix do not)
        for n in ast.walk(f.node):
            if isinstance(n, ast.Call):
                if isinstance(n.func, ast.Attribute) and n.func.attr in ('forward', 'forward_until', 'backward', '__next__'):
                    return True
                if isinstance(n.func, ast.Name) and n.func.id == 'next':
                    return True
        return False
    readers = [f for f in reach if f.module.name == 'reader' and f is not fd and f.name not in noreturn and moves_cursor(f)]
    tok = [f for f in reach if f.module.name in ('tokens', 'category') and f.name not in ('token',)]
    rr.ob(not readers and not tok, {'reachable_functions': len(reach), 'reader_functions_reached': [f.qual for f in readers]})
    for f in readers + tok:
        rr.fail(Finding('R11.a', 'reader', fd.qual, 'read_skip_env reaches %s' % f.fq, 'the raw reader of verbatim-like '
                        'environments can reach the parsing function %s: the body would be interpreted' % f.fq,
                        line=fd.node.lineno))
    return rr


def r11_b(ctx):
    repo = ctx.repo
    R = roles(ctx)
    rr = RuleResult('R11.b', 'built-in and user-supplied skip names form one set; the decision to read raw is a single '
                    'membership test of the environment name in that set, the other branch parses normally', floor=2)
    # references to the built-in names (tokens.SKIP_ENV_NAMES or a module-level constant derived from it)
    builtin_names = {'SKIP_ENV_NAMES'}
    for _ in range(3):
        for m in repo.modules.values():
            for name, vals in m.assigns.items():
                if name not in builtin_names and any(isinstance(x, ast.Name) and x.id in builtin_names
                                                     for v in vals for x in ast.walk(v)):
                    builtin_names.add(name)
    refs = []
    for m in repo.modules.values():
        for fd in list(m.functions.values()) + [f for c in m.classes.values() for fs in c.methods.values() for f in fs]:
            for n in ast.walk(fd.node):
                if isinstance(n, ast.Name) and n.id in builtin_names and isinstance(n.ctx, ast.Load):
                    refs.append((fd, n))
    if not refs:
        raise AnalysisError('SKIP_ENV_NAMES is no longer referenced by the parser')
    COPIERS = ('set', 'list', 'tuple', 'frozenset', 'sorted')
    for fd, n in refs:
        p = getattr(n, '_parent', None)
        fresh = False
        while isinstance(p, ast.Call) and isinstance(p.func, ast.Name) and p.func.id in COPIERS and len(p.args) == 1:
            fresh = True
            p = getattr(p, '_parent', None)
        while isinstance(p, ast.BinOp) and isinstance(p.op, (ast.Add, ast.BitOr)) and not R.mentions(fd, p, 'skip') \
                and isinstance(getattr(p, '_parent', None), ast.BinOp):
            p = p._parent
        ok = isinstance(p, ast.BinOp) and isinstance(p.op, (ast.Add, ast.BitOr)) and R.mentions(fd, p, 'skip')
        if not ok and fresh and isinstance(p, ast.Assign) and len(p.targets) == 1 and isinstance(p.targets[0], ast.Name):
            # v = set(BUILTIN) ; v.update(user) / v |= user / v += user / v.extend(user)
            v = p.targets[0].id
            for x in ast.walk(fd.node):
                if isinstance(x, ast.Call) and isinstance(x.func, ast.Attribute) and x.func.attr in ('update', 'extend') \
                        and isinstance(x.func.value, ast.Name) and x.func.value.id == v and x.args and R.mentions(fd, x.args[0], 'skip'):
                    ok = True
                if isinstance(x, ast.AugAssign) and isinstance(x.target, ast.Name) and x.target.id == v \
                        and isinstance(x.op, (ast.Add, ast.BitOr)) and R.mentions(fd, x.value, 'skip'):
                    ok = True
        # and the joined value is passed as the skip option
        rr.ob(ok, {'reference': '%s: %s' % (fd.qual, norm(p)[:60] if p is not None else n.id)})
        if not ok:
            rr.fail(Finding('R11.b', fd.module.name, fd.qual, p if isinstance(p, ast.AST) else n,
                            'the built-in skip names are not joined with the caller-supplied names into a fresh '
                            'collection: a user-supplied name would not behave like the built-in ones (or would stay '
                            'registered after the call)', line=n.lineno))
    # call sites of the raw reader
    cg = callgraph.graph(ctx)
    raw = repo.need_func('reader.read_skip_env')
    sites = cg.call_sites_of(raw)
    if not sites:
        raise AnalysisError('read_skip_env is never called')
    for caller, call in sites:
        # enclosing If with test `<x>.name in <skip-role name>`; orelse calls read_env
        p = getattr(call, '_parent', None)
        while p is not None and not isinstance(p, ast.If):
            p = getattr(p, '_parent', None)
        ok = False
        why = 'not under a membership test'
        if p is not None and isinstance(p.test, ast.Compare) and len(p.test.ops) == 1 and isinstance(p.test.ops[0], ast.In):
            l, r = p.test.left, p.test.comparators[0]
            in_body = any(call is x for s in p.body for x in ast.walk(s))
            name_ok = isinstance(l, ast.Attribute) and l.attr == 'name'
            role_ok = isinstance(r, ast.Name) and r.id in R.local_taint(caller, 'skip')
            else_parses = any(isinstance(x, ast.Call) and isinstance(x.func, ast.Name) and x.func.id == 'read_env'
                              for s in p.orelse for x in ast.walk(s))
            ok = in_body and name_ok and role_ok and else_parses
            why = 'name test=%s, skip-role set=%s, else-branch parses=%s' % (name_ok, role_ok, else_parses)
            # no other test on the environment name may stand between \\begin{name} and this decision
            if ok:
                from . import rules_reader
                others = [t for t, tr in rules_reader._guards_dominating(caller, call)
                          if t is not p.test and any(isinstance(x, ast.Attribute) and x.attr == 'name' and norm(x.value) == norm(l.value)
                                                     for x in ast.walk(t))]
                if others:
                    ok = False
                    why = 'the decision also depends on %s' % norm(others[0])[:60]
        rr.ob(ok, {'call_site': '%s:%d' % (caller.qual, call.lineno), 'decision': norm(p.test) if p is not None else None})
        if not ok:
            rr.fail(Finding('R11.b', 'reader', caller.qual, p.test if p is not None else call,
                            'the switch to raw reading is not a single membership test of the environment name in the '
                            'joined skip set with a normally-parsing else branch (%s)' % why, line=call.lineno))
    return rr


def r11_c(ctx):
    rr = threading(ctx, 'skip', 'R11.c', 'the skip list is forwarded on every call edge between functions that carry '
                   'it and reaches the dispatcher inside nested environments', floor=4)
    must_flow(ctx, 'skip', '__init__.TexSoup', None, [
        ('tex.read', 'reader.read_tex', 'reader.read_expr', 'reader.read_env', 'reader.read_expr'),
    ], 'R11.c', rr)
    # default of the public option is empty
    fd = ctx.repo.need_func('__init__.TexSoup')
    d = fd.defaults().get(fd.params()[1])
    ok = d is not None and isinstance(d, (ast.Tuple, ast.List)) and not d.elts
    rr.ob(ok, {'public_default': norm(d) if d is not None else None})
    if not ok:
        rr.fail(Finding('R11.c', '__init__', fd.qual, 'default of %s' % fd.params()[1], 'the public skip list does not '
                        'default to empty: without the option a body would not be parsed normally', line=fd.node.lineno))
    return rr


def r11_d(ctx):
    repo = ctx.repo
    rr = RuleResult('R11.d', 'the raw scan stops at the first position where the upcoming text starts with the '
                    'environment\'s own \\end{name}, scanning left to right one item at a time', floor=1)
    fu = repo.need_cls('utils.Buffer').methods.get('forward_until', [None])[-1]
    if fu is None:
        raise AnalysisError('Buffer.forward_until vanished')
    loops = [n for n in ast.walk(fu.node) if isinstance(n, ast.While)]
    ok = False
    if len(loops) == 1:
        w = loops[0]
        t = w.test
        cond_p = fu.params()[1] if len(fu.params()) > 1 else None
        ok_test = isinstance(t, ast.BoolOp) and isinstance(t.op, ast.And) and len(t.values) == 2 \
            and norm(t.values[0]) == 'self.hasNext()' and isinstance(t.values[1], ast.UnaryOp) and isinstance(t.values[1].op, ast.Not) \
            and isinstance(t.values[1].operand, ast.Call) and isinstance(t.values[1].operand.func, ast.Name) \
            and t.values[1].operand.func.id == cond_p
        ok_body = len(w.body) == 1 and isinstance(w.body[0], ast.AugAssign) and isinstance(w.body[0].op, ast.Add) \
            and norm(w.body[0].value) in ('self.forward(1)', 'self.forward()', 'next(self)')
        ok = ok_test and ok_body
    rr.ob(ok, {'scan_loop': norm(loops[0].test) if loops else None})
    if not ok:
        rr.fail(Finding('R11.d', 'utils', fu.qual, loops[0].test if loops else 'no scan loop',
                        'the conditional scan is not a left-to-right, one-item-at-a-time loop that stops at the first '
                        'position satisfying the condition', line=fu.node.lineno))
    # the condition and the closer test use the serialised closer of the node
    fd = repo.need_func('reader.read_skip_env')
    named = repo.need_cls('data.TexNamedEnv')
    owner, kind, payload = named.lookup('end')
    fmts = [n.value for n in ast.walk(payload['getter'].node) if isinstance(n, ast.Constant) and isinstance(n.value, str)] \
        if kind == 'property' else []
    tests = [n for n in ast.walk(fd.node) if isinstance(n, ast.Call) and isinstance(n.func, ast.Attribute) and n.func.attr == 'startswith']
    # the scan condition itself (the callable given to forward_until) must be that prefix test
    scans = [n for n in ast.walk(fd.node) if isinstance(n, ast.Call) and isinstance(n.func, ast.Attribute) and n.func.attr == 'forward_until']
    for sc in scans:
        cond = sc.args[0] if sc.args else None
        body = None
        if isinstance(cond, ast.Lambda):
            body = cond.body
        elif isinstance(cond, ast.Name):
            for d in ast.walk(fd.node):
                if isinstance(d, ast.FunctionDef) and d.name == cond.id and d is not fd.node:
                    rets = [x for x in ast.walk(d) if isinstance(x, ast.Return)]
                    body = rets[0].value if len(rets) == 1 else None
        okc = isinstance(body, ast.Call) and isinstance(body.func, ast.Attribute) and body.func.attr == 'startswith'
        rr.ob(okc, {'scan_condition': norm(body)[:70] if body is not None else None})
        if not okc:
            rr.fail(Finding('R11.d', 'reader', fd.qual, body if body is not None else sc, 'the raw scan does not stop on '
                            'the text-prefix test for the node\'s closer: a look-alike of the closer can end the body early '
                            '(or the real closer is missed)', line=sc.lineno))
    if not tests:
        rr.fail(Finding('R11.d', 'reader', fd.qual, 'no prefix test for the closer', 'the raw reader never tests for the '
                        'closer of the environment', line=fd.node.lineno))
    from .model import resolve_locals
    for tcall in tests:
        a = resolve_locals(fd.node, tcall.args[0]) if tcall.args else None
        okf = isinstance(a, ast.BinOp) and isinstance(a.op, ast.Mod) and isinstance(a.left, ast.Constant) and a.left.value in fmts \
            and isinstance(a.right, ast.Attribute) and a.right.attr == 'name'
        okf = okf or (isinstance(a, ast.Attribute) and a.attr == 'end')
        rr.ob(okf, {'closer_test': norm(tcall)[:70]})
        if not okf:
            rr.fail(Finding('R11.d', 'reader', fd.qual, tcall, 'the raw scan does not look for the closer the node '
                            'serialises (%s applied to the node name)' % fmts, line=tcall.lineno))
    return rr


# --------------------------------------------------------------------------- C02

def r02_a(ctx):
    repo = ctx.repo
    R = roles(ctx)
    rr = threading(ctx, 'mode', 'R02.a', 'the reading mode is forwarded on every call edge between functions that carry '
                   'it; the definition mode set for \\newcommand-style commands reaches the \\begin test of the '
                   'dispatcher through brace and bracket arguments', floor=10)
    rc = repo.need_func('reader.read_command')
    special = R.modes['MODE_SPECIAL']
    seeds = []
    for n in ast.walk(rc.node):
        if isinstance(n, ast.If) and 'SPECIAL_COMMANDS' in norm(n.test):
            for s in n.body:
                if isinstance(s, ast.Assign) and isinstance(s.targets[0], ast.Name):
                    try:
                        if Folder(repo, rc.module).ev(s.value) == special:
                            seeds.append((n, s.targets[0].id))
                    except Unfoldable:
                        pass
    calls = [n for n in ast.walk(rc.node) if isinstance(n, ast.Call) and isinstance(n.func, ast.Name) and n.func.id == 'read_args']
    ok = False
    if seeds and calls:
        seed_if, var = seeds[0]
        c = calls[0]
        kw = {k.arg: k.value for k in c.keywords}
        ok = isinstance(kw.get('mode'), ast.Name) and kw['mode'].id == var and seed_if.lineno < c.lineno \
            and var in R.local_taint(rc, 'mode')
        # the test is on the command name just read
        ok = ok and isinstance(seed_if.test, ast.Compare) and isinstance(seed_if.test.ops[0], ast.In)
    rr.ob(ok, {'definition_mode_seed': norm(seeds[0][0].test) if seeds else None})
    if not ok:
        rr.fail(Finding('R02.a', 'reader', rc.qual, seeds[0][0] if seeds else 'no definition-mode switch',
                        'the command reader does not switch to the definition mode for \\newcommand-style commands '
                        'before reading their arguments', line=rc.node.lineno))
    sc = repo.fold_global('tokens', 'SPECIAL_COMMANDS')
    miss = [x for x in ('newcommand', 'renewcommand', 'providecommand') if x not in sc]
    rr.ob(not miss, {'special_commands': sorted(sc)})
    if miss:
        rr.fail(Finding('R02.a', 'tokens', 'SPECIAL_COMMANDS', 'SPECIAL_COMMANDS lacks %s' % miss,
                        '\\begin/\\end inside the definition of %s would open or close environments' % miss, line=0))
    must_flow(ctx, 'mode', 'reader.read_command', None, [
        ('reader.read_args', 'reader.read_arg_required', 'reader.read_arg', 'reader.read_expr'),
        ('reader.read_args', 'reader.read_arg_optional', 'reader.read_arg', 'reader.read_expr'),
        ('reader.read_args', 'reader.read_arg_required', 'reader.read_arg', 'reader.read_expr', 'reader.read_command'),
    ], 'R02.a', rr)
    # sink: the dispatcher's \begin branch is guarded by mode != MODE_SPECIAL
    d = repo.need_func('reader.read_expr')
    mode_names = R.local_taint(d, 'mode')
    sink = False
    for n in ast.walk(d.node):
        if isinstance(n, ast.If) and any(isinstance(x, ast.Constant) and x.value == 'begin' for x in ast.walk(n.test)):
            for x in ast.walk(n.test):
                if isinstance(x, ast.Compare) and isinstance(x.ops[0], ast.NotEq) and isinstance(x.left, ast.Name) \
                        and x.left.id in mode_names and norm(x.comparators[0]) == 'MODE_SPECIAL':
                    sink = isinstance(n.test, ast.BoolOp) and isinstance(n.test.op, ast.And)
    if not sink:
        # other spellings (early return for everything that is not \begin outside a definition): the construction of
        # the named environment is dominated by facts that imply  mode != MODE_SPECIAL
        from . import rules_reader

        def implies_not_special(t, truth):
            if isinstance(t, ast.UnaryOp) and isinstance(t.op, ast.Not):
                return implies_not_special(t.operand, not truth)
            if isinstance(t, ast.BoolOp):
                if (isinstance(t.op, ast.And) and truth) or (isinstance(t.op, ast.Or) and not truth):
                    return any(implies_not_special(v, truth) for v in t.values)
                return False
            if isinstance(t, ast.Compare) and len(t.ops) == 1 and isinstance(t.left, ast.Name) and t.left.id in mode_names \
                    and norm(t.comparators[0]) == 'MODE_SPECIAL':
                return (isinstance(t.ops[0], ast.NotEq) and truth) or (isinstance(t.ops[0], ast.Eq) and not truth)
            return False
        ctors = [n for n in ast.walk(d.node) if isinstance(n, ast.Call) and isinstance(n.func, ast.Name) and n.func.id == 'TexNamedEnv']
        if ctors and all(any(implies_not_special(t, tr) for t, tr in rules_reader._guards_dominating(d, c)) for c in ctors):
            sink = True
    rr.ob(sink, {'begin_branch_guard': 'mode != MODE_SPECIAL'})
    if not sink:
        rr.fail(Finding('R02.a', 'reader', d.qual, 'begin branch of the dispatcher', 'the \\begin branch of the '
                        'dispatcher is not disabled in definition mode', line=d.node.lineno))
    return rr


def r02_b(ctx):
    repo = ctx.repo
    rr = RuleResult('R02.b', 'an item body stops, without consuming, at the next \\item, at \\end and at a closing '
                    'brace', floor=3)
    fd = repo.need_func('reader.read_item')
    loops = [n for n in ast.walk(fd.node) if isinstance(n, ast.While)]
    if len(loops) != 1:
        raise AnalysisError('read_item: expected one loop')
    w = loops[0]
    # command-name stop set: `if <peeked name> in (..): return <acc>` with the name from a peek-wrapped read
    stops = set()
    peeked = False
    for n in ast.walk(w):
        if isinstance(n, ast.If) and isinstance(n.test, ast.Compare) and isinstance(n.test.ops[0], (ast.In, ast.Eq)):
            body_exits = any(isinstance(s, (ast.Return, ast.Break)) for s in n.body)
            if not body_exits:
                continue
            try:
                v = Folder(repo, fd.module).ev(n.test.comparators[0])
            except Unfoldable:
                continue
            if isinstance(v, str):
                v = (v,)
            if isinstance(v, (tuple, list, set, frozenset)) and all(isinstance(x, str) for x in v):
                stops |= set(v)
        if isinstance(n, ast.Call) and isinstance(n.func, ast.Call) and isinstance(n.func.func, ast.Name) \
                and n.func.func.id == 'make_read_peek':
            peeked = True
    ok = {'item', 'end'} <= stops
    if not stops and not peeked:
        raise AnalysisError('read_item: neither a stop set of command names nor a command look-ahead is found in the item '
                            'loop (the loop has another shape): outside the decidable subset of R02.b')
    rr.ob(ok, {'command_stop_set': sorted(stops)})
    if not ok:
        rr.fail(Finding('R02.b', 'reader', fd.qual, 'item stop set %s' % sorted(stops), 'an item body does not stop at %s: '
                        'the following %s would be swallowed by the item' % (sorted({'item', 'end'} - stops),
                                                                            'item / end of list'), line=w.lineno))
    rr.ob(peeked, {'look_ahead_is_rolled_back': peeked})
    if not peeked:
        rr.fail(Finding('R02.b', 'reader', fd.qual, 'command look-ahead in the item loop', 'the item reader inspects the '
                        'next command without the cursor-restoring wrapper: the command would be consumed', line=w.lineno))
    ge = False
    for n in ast.walk(w):
        if isinstance(n, ast.If) and 'GroupEnd' in norm(n.test) and any(isinstance(s, (ast.Break, ast.Return)) for s in n.body):
            ge = True
    rr.ob(ge, {'closing_brace_ends_item': ge})
    if not ge:
        rr.fail(Finding('R02.b', 'reader', fd.qual, 'no stop at a closing brace', 'an item inside a brace group would '
                        'swallow the closing brace of the group', line=w.lineno))
    return rr


def r07_e(ctx):
    """strict mode reports every construct that runs into the end of the input"""
    from . import cursor
    repo = ctx.repo
    R = roles(ctx)
    entry = repo.need_func('reader.read_tex')
    ps = R.role_params(entry, 'tolerance')
    if not ps:
        raise AnalysisError('the tolerance option does not reach reader.read_tex')
    e = ctx.memo('cursor.engine.strict', lambda: cursor.analyse_reader(repo, {p: ('const', 0) for p in ps}))
    rr = RuleResult('R07.e', 'in strict mode the readers of environments, groups and math regions never return normally '
                    'with the input exhausted and no closer consumed: a lost closer is reported', floor=4)
    # (the raw reader of skipped environments is a text-level scan that may legitimately end exactly at the end
    # of the input; its closer test is covered by R11.d / R08.b)
    want = ('reader.read_env', 'reader.read_arg', 'reader.read_math_env')
    seen = set()
    for key, exits in sorted(e.memo.items(), key=str):
        if key[0] not in want:
            continue
        kc = dict(key[1])
        tol = [v for k, v in kc.items() if (key[0], k) in R.roles['tolerance']]
        if tol and not all(v == ('const', 0) for v in tol):
            continue
        seen.add(key[0])
        bad = [ex for ex in exits if ex.eof]
        rr.ob(not bad, {'reader': key[0].split('.')[-1], 'entry': 'avail=%s eof=%s' % (key[2], key[3]), 'normal_exits': len(exits),
                        'exits_with_input_exhausted': len(bad)})
        if bad:
            fd = repo.need_func(key[0])
            rr.fail(Finding('R07.e', 'reader', fd.qual, '%s: normal return at end of input without a closer (strict mode)' % fd.qual,
                            'in strict mode %s can return normally when the input ended before its closing delimiter: a '
                            'document that lost a closer is accepted silently (and a closer is invented on output)' % fd.qual,
                            line=fd.node.lineno))
    missing = [w for w in want if w not in seen]
    if missing:
        raise AnalysisError('strict-mode contexts missing for %s' % missing)
    return rr


SKIP_REFERENCE = ('verbatim', 'lstlisting', 'verbatimtab', 'Verbatim', 'listing')


def r11_e(ctx):
    """the built-in verbatim-like names"""
    repo = ctx.repo
    rr = RuleResult('R11.e', 'the built-in set of verbatim-like environment names contains verbatim, lstlisting and the '
                    'other names the library documents', floor=1)
    names = repo.fold_global('tokens', 'SKIP_ENV_NAMES')
    missing = [n for n in SKIP_REFERENCE if n not in names]
    rr.ob(not missing, {'built_in_skip_names': list(names)})
    if missing:
        rr.fail(Finding('R11.e', 'tokens', 'SKIP_ENV_NAMES', 'SKIP_ENV_NAMES lacks %s' % missing,
                        'the environments %s are no longer read raw: their bodies are parsed as LaTeX' % missing, line=0))
    return rr


def r07_f(ctx):
    """every parse error a tolerance-carrying reader can raise is conditional on the tolerance"""
    repo = ctx.repo
    R = roles(ctx)
    rr = RuleResult('R07.f', 'in every reader function that carries the tolerance option, each `raise` and each call of a '
                    'never-returning error helper is dominated by a test of that option: no parse error is raised '
                    'whatever the tolerance (assertions about the *code* -- AssertionError -- are not parse errors)',
                    floor=2)
    noreturn = _noreturn_funcs(repo)
    from . import rules_reader
    n = 0
    # C07 is stated for documents "without math, verbatim or list regions": the readers of those regions are exempt
    exempt = {'read_math_env': 'math regions are outside C07', 'read_item': 'list regions are outside C07',
              'read_skip_env': 'verbatim regions are outside C07'}
    for fd in repo.modules['reader'].functions.values():
        if not R.has_role(fd, 'tolerance') or fd.name in noreturn:
            continue
        if fd.name in exempt:
            rr.ob(True, {'function': fd.qual, 'exempt': exempt[fd.name]})
            continue
        tol = R.local_taint(fd, 'tolerance')
        sites = []
        for x in ast.walk(fd.node):
            if isinstance(x, ast.Raise):
                sites.append(x)
            elif isinstance(x, ast.Call) and isinstance(x.func, ast.Name) and x.func.id in noreturn:
                sites.append(x)
        for x in sites:
            n += 1
            guards = rules_reader._guards_dominating(fd, x)
            ok = any(any(isinstance(y, ast.Name) and y.id in tol for y in ast.walk(t)) for t, _tr in guards)
            rr.ob(ok, {'function': fd.qual, 'error_site': norm(x)[:60], 'guarded_by_tolerance': ok})
            if not ok:
                rr.fail(Finding('R07.f', 'reader', fd.qual, x, '%s raises a parse error (%s) on a path that does not test the '
                                'tolerance: tolerant parsing fails where it should recover' % (fd.qual, norm(x)[:50]),
                                line=x.lineno))
    if n == 0:
        raise AnalysisError('no error site found in the tolerance-carrying readers')
    return rr
