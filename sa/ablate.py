"""Ablation audit (thorough tier): a fixed set of small mutation operators applied, in memory, to
the functions a property is anchored in; each variant is analysed with the property's rules and
the audit reports how many were flagged.  Redundant guards and behaviour-preserving edits exist,
so the result is reported in the evidence, not enforced (the designated positive controls are)."""
import ast
import copy
import os
import random
import multiprocessing

from .model import Repo, AnalysisError
from .core import Ctx

ANCHORS = {
    # property -> {module: [function or Class.method names]} ; None = every function of the module
    'C19': {'tokens': None, 'category': None},
    'C06': {'tokens': None, 'reader': None, 'utils': ['Buffer.*']},
    'C20': {'utils': ['Buffer.*']},
    'C08': {'reader': None, 'data': ['TexEnv.__str__', 'TexCmd.__str__', 'TexText.__str__', 'TexArgs.__str__']},
    'C01': {'reader': None, 'data': ['TexEnv.__str__', 'TexCmd.__str__', 'TexText.__str__', 'TexArgs.__str__'], 'tokens': ['tokenize_spacers']},
    'C10': {'tokens': None, 'reader': ['read_expr']},
    'C12': {'tokens': None, 'reader': ['read_expr', 'read_math_env', 'read_command']},
    'C09': {'tokens': ['tokenize_spacers', 'tokenize_symbols', 'tokenize_string'], 'reader': ['read_args', 'read_arg_optional', 'read_arg_required', 'read_arg', 'read_spacer']},
    'C07': {'reader': None, 'tex': None, '__init__': None},
    'C11': {'reader': ['read_tex', 'read_expr', 'read_env', 'read_skip_env'], 'tex': None, '__init__': None, 'utils': ['Buffer.forward_until']},
    'C02': {'reader': None},
    'C13': {'utils': ['Token.*'], 'reader': ['read_expr', 'read_arg', 'read_arg_required'], 'data': ['TexNode.search_regex'], 'category': None},
    'C14': {'data': ['TexNode.name', 'TexNode.args', 'TexNode.string', 'TexNode.contents', 'TexNamedEnv.*', 'TexEnv.__str__', 'TexExpr.contents', 'TexExpr.string', 'TexArgs.__getitem__']},
    'C03': {'data': ['TexNode.find', 'TexNode.find_all', 'TexNode.count', 'TexNode.__getattr__', 'TexNode.__descendants', 'TexNode.descendants', 'TexExpr.__match__', 'TexEnv.__match__', 'TexExpr.all', 'TexExpr.children', 'TexExpr.contents']},
    'C04': {'data': ['TexNode.all', 'TexNode.children', 'TexNode.contents', 'TexNode.__iter__', 'TexNode.__getitem__', 'TexNode.__descendants', 'TexExpr.all', 'TexExpr.children', 'TexExpr.contents']},
    'C05': {'data': ['TexNode.delete', 'TexNode.remove', 'TexNode.replace', 'TexNode.replace_with', 'TexExpr.remove', 'TexExpr.insert', 'TexExpr.append']},
    'C15': {'data': ['TexNode.delete', 'TexNode.remove', 'TexNode.replace', 'TexNode.replace_with', 'TexNode.insert', 'TexNode.append', 'TexNode.text', 'TexExpr.remove', 'TexExpr.insert', 'TexExpr.append', 'TexExpr.__init__']},
    'C17': {'tokens': None, 'tex': None, '__init__': None, 'data': ['TexArgs.__init__']},
    'C18': {'data': ['TexArgs.*']},
}


def _selected(tree, spec):
    """FunctionDef nodes of a module tree selected by spec (None = all)"""
    out = []
    for st in tree.body:
        if isinstance(st, ast.FunctionDef):
            if spec is None or st.name in spec:
                out.append((st.name, st))
        elif isinstance(st, ast.ClassDef):
            for x in st.body:
                if isinstance(x, ast.FunctionDef):
                    q = '%s.%s' % (st.name, x.name)
                    if spec is None or q in spec or ('%s.*' % st.name) in spec:
                        out.append((q, x))
    return out


def _is_doc(s):
    return isinstance(s, ast.Expr) and isinstance(s.value, ast.Constant) and isinstance(s.value.value, str)


def sites(tree, spec):
    """enumerate mutation sites: (operator, qualname, path description); deterministic order"""
    out = []
    for q, fn in _selected(tree, spec):
        k = 0
        for n in ast.walk(fn):
            for field in ('body', 'orelse'):
                lst = getattr(n, field, None)
                if isinstance(lst, list):
                    for i, s in enumerate(lst):
                        if isinstance(s, (ast.Expr, ast.Assign, ast.AugAssign, ast.Assert)) and not _is_doc(s) and isinstance(n, (ast.FunctionDef, ast.If, ast.While, ast.For)):
                            out.append(('drop-statement', q, k))
                        k += 1
        j = 0
        for n in ast.walk(fn):
            if isinstance(n, ast.BoolOp):
                for i in range(len(n.values)):
                    out.append(('drop-operand', q, (j, i)))
                j += 1
        j = 0
        for n in ast.walk(fn):
            if isinstance(n, ast.Call) and n.keywords and not (isinstance(n.func, ast.Name) and n.func.id in ('Token', 'TexEnv')):
                for i in range(len(n.keywords)):
                    out.append(('drop-keyword', q, (j, i)))
                j += 1
        j = 0
        for n in ast.walk(fn):
            if isinstance(n, ast.Call) and isinstance(n.func, ast.Attribute) and n.func.attr in ('forward', 'backward', 'peek', 'hasNext') \
                    and n.args and isinstance(n.args[0], ast.Constant) and isinstance(n.args[0].value, int):
                out.append(('constant+1', q, j))
                j += 1
        j = 0
        for n in ast.walk(fn):
            if isinstance(n, ast.Compare) and isinstance(n.ops[0], (ast.In, ast.NotIn)) and isinstance(n.comparators[0], ast.Tuple) \
                    and len(n.comparators[0].elts) > 1:
                for i in range(len(n.comparators[0].elts)):
                    out.append(('drop-tuple-element', q, (j, i)))
                j += 1
        j = 0
        for n in ast.walk(fn):
            if isinstance(n, ast.Attribute) and n.attr in ('_contents', 'contents'):
                out.append(('swap-contents-view', q, j))
                j += 1
    return out


def apply(tree, spec, site):
    """apply one mutation in place; returns True if applied"""
    op, q, where = site
    fn = dict(_selected(tree, spec)).get(q)
    if fn is None:
        return False
    if op == 'drop-statement':
        k = 0
        for n in ast.walk(fn):
            for field in ('body', 'orelse'):
                lst = getattr(n, field, None)
                if isinstance(lst, list):
                    for i, s in enumerate(lst):
                        if k == where:
                            lst[i] = ast.Pass()
                            return True
                        k += 1
        return False
    if op == 'drop-operand':
        j = 0
        for n in ast.walk(fn):
            if isinstance(n, ast.BoolOp):
                if j == where[0]:
                    del n.values[where[1]]
                    if len(n.values) == 1:
                        n.values.append(ast.Constant(isinstance(n.op, ast.And)))
                    return True
                j += 1
        return False
    if op == 'drop-keyword':
        j = 0
        for n in ast.walk(fn):
            if isinstance(n, ast.Call) and n.keywords and not (isinstance(n.func, ast.Name) and n.func.id in ('Token', 'TexEnv')):
                if j == where[0]:
                    del n.keywords[where[1]]
                    return True
                j += 1
        return False
    if op == 'constant+1':
        j = 0
        for n in ast.walk(fn):
            if isinstance(n, ast.Call) and isinstance(n.func, ast.Attribute) and n.func.attr in ('forward', 'backward', 'peek', 'hasNext') \
                    and n.args and isinstance(n.args[0], ast.Constant) and isinstance(n.args[0].value, int):
                if j == where:
                    n.args[0] = ast.Constant(n.args[0].value + 1)
                    return True
                j += 1
        return False
    if op == 'drop-tuple-element':
        j = 0
        for n in ast.walk(fn):
            if isinstance(n, ast.Compare) and isinstance(n.ops[0], (ast.In, ast.NotIn)) and isinstance(n.comparators[0], ast.Tuple) \
                    and len(n.comparators[0].elts) > 1:
                if j == where[0]:
                    del n.comparators[0].elts[where[1]]
                    return True
                j += 1
        return False
    if op == 'swap-contents-view':
        j = 0
        for n in ast.walk(fn):
            if isinstance(n, ast.Attribute) and n.attr in ('_contents', 'contents'):
                if j == where:
                    n.attr = 'contents' if n.attr == '_contents' else '_contents'
                    return True
                j += 1
        return False
    return False


def _job(args):
    prop, module, site, root = args
    from . import run as runner
    base = Repo(root)
    spec = ANCHORS[prop][module]
    tree = ast.parse(base.modules[module].src)
    if not apply(tree, spec, site):
        return (module, site, 'n/a', [])
    ast.fix_missing_locations(tree)
    try:
        src = ast.unparse(tree)
        ctx = Ctx(Repo(root, overrides={module: src}), tier='quick')
        results = runner.analyse(prop, ctx)
    except AnalysisError as e:
        return (module, site, 'analysis-error', [str(e)[:120]])
    except RecursionError:
        return (module, site, 'analysis-error', ['recursion'])
    hits = sorted({'%s' % rr.id for rr in results for f in rr.findings})
    return (module, site, 'flagged' if hits else 'unflagged', hits)


def audit(prop, ctx, seed=0, limit=48):
    spec = ANCHORS.get(prop)
    if not spec:
        return None
    from . import run as runner
    base_hits = {(rr.id, f.function, f.construct) for rr in runner.analyse(prop, ctx) for f in rr.findings}
    all_sites = []
    for module, fs in spec.items():
        if module not in ctx.repo.modules:
            continue
        tree = ast.parse(ctx.repo.modules[module].src)
        for s in sites(tree, fs):
            all_sites.append((module, s))
    rnd = random.Random(seed)
    rnd.shuffle(all_sites)
    chosen = all_sites[:limit]
    jobs = [(prop, m, s, ctx.repo.root) for m, s in chosen]
    nproc = min(len(jobs), int(os.environ.get('VERIF_JOBS', '16'))) or 1
    with multiprocessing.get_context('fork').Pool(nproc) as pool:
        outs = pool.map(_job, jobs)
    info = {'sites_total': len(all_sites), 'applied': 0, 'flagged': 0, 'analysis_error': 0, 'unflagged': []}
    byop = {}
    for module, site, status, hits in outs:
        if status == 'n/a':
            continue
        info['applied'] += 1
        op = site[0]
        d = byop.setdefault(op, {'applied': 0, 'flagged': 0})
        d['applied'] += 1
        if status == 'flagged':
            info['flagged'] += 1
            d['flagged'] += 1
        elif status == 'analysis-error':
            info['analysis_error'] += 1
        else:
            info['unflagged'].append('%s %s.%s #%s' % (site[0], module, site[1], site[2]))
    info['by_operator'] = byop
    info['unflagged'] = info['unflagged'][:40]
    return info
