"""Property -> rule set registry (what each check decides, in words, goes into the evidence)."""
from . import rules_tok as T
from . import rules_reader as RD
from . import rules_buffer as B

PROPS = {}


def prop(pid, rules, explanation, decided, not_decided, controls=True, assumptions=()):
    PROPS[pid] = {'rules': rules, 'explanation': explanation, 'decided': decided, 'not_decided': not_decided,
                  'controls': controls, 'assumptions': list(assumptions)}


prop('C19',
     [T.r19_a, T.r19_b, T.r19_c, T.r19_d, T.r19_e, T.r19_f, T.r19_g],
     'Abstract interpretation of the tokenizer (driver next_token + the ordered rule registry, read from the '
     'AST of tokens.py) over category windows: every input string is abstracted to its string of character '
     'categories, guards split abstract states per inspected slot, loops are solved to fixpoint.  The resulting '
     'dispatch table says, for every window of categories, which rule fires, which characters it consumes, what '
     'token it builds from them, where the token position comes from and whether the driver round progresses.  '
     'The rules are assertions on that table plus two structural checks (categorize, tokenize).',
     'R19.a one category and own index per character; R19.b each rule emits exactly the characters it consumes '
     '(or restores the cursor; NUL/DEL licence); R19.c no empty token; R19.d every round progresses and every '
     'category is handled; R19.e token position = offset of first consumed character; R19.f the generator forwards '
     'every driver token exactly once; R19.g every token carries a kind assigned by its rule.',
     'equality of the concrete characters of a token with the source slice (follows only under the Buffer/Token '
     'summaries, which are checked as rules under C20/C13); behaviour for code points outside the category table '
     'beyond "gets the fallback category".',
     assumptions=['Buffer.forward/peek/backward/hasNext behave as their contracts (rules R20.* under C20)',
                  'Token concatenation keeps the left position and concatenates left to right (rule R13.b under C13)'])


prop('C06',
     [RD.r06_a, RD.r06_b_reader, T.r06_b_tokens, T.r06_a_tokens, RD.r06_c, T.r19_d, RD.r06_d, RD.r06_e, RD.r06_g,
      B.r20_c],
     'Three static analyses.  (1) A context-propagating dataflow over reader.py and the composite Buffer scans: per '
     'path it tracks how many items are known to exist at the token cursor, whether the cursor is exhausted and '
     'whether the current loop iteration has advanced the cursor; callees are analysed in the caller\'s actual '
     'context to a fixpoint over the recursive call graph.  (2) The tokenizer abstract interpretation (see C19) for '
     'dereferences, rule exhaustiveness and driver progress.  (3) Call-graph and dominance rules for raised '
     'exception types, constant subscripts and constant-table look-ups.',
     'R06.a no next() without an item (StopIteration -> RuntimeError leak); R06.b no attribute access on a peek that '
     'may be None (reader, Buffer scans, tokenizer rules); R06.c / R19.d every reader loop and every tokenizer round '
     'advances; R06.d only EOFError/TypeError/AssertionError are raised explicitly in parse-reachable code; R06.e '
     'constant subscripts of argument lists are guarded; R06.g constant-table look-ups have pinned keys; R20.c the '
     'buffer reports exhaustion instead of leaking IndexError/StopIteration.',
     'exceptions from non-constant subscripts and .index() in general; recursion depth; wall-clock time; memory.')

prop('C20',
     [B.r20_a, B.r20_b, B.r20_c, B.r20_d],
     'Affine abstract interpretation of utils.Buffer: the cursor field (identified as what `position` returns) is '
     'tracked as an affine form over its entry value, the integer parameters and one iteration counter per loop '
     '(Karr-style invariant for paired increments); methods are summarised with symbolic arguments and the '
     'summaries are substituted at internal call sites; raise sets are propagated through try/except.  The '
     'per-operation contracts compose over every history of operations by induction.',
     'R20.a the non-moving operations have cursor delta 0 on every exit; R20.b forward/backward/next move by what '
     'they say and return the slice/item at the entry position, backward checks underflow first; R20.c exhaustion is '
     'reported, not leaked; R20.d the queue is append-only and filled only from the iterator.',
     'returned values beyond slice bounds; the fill-loop bound (relation between cursor and queue length); '
     'wrap-around of negative peeks at position 0.')
