"""Property -> rule set registry (what each check decides, in words, goes into the evidence)."""
from . import rules_tok as T

PROPS = {}


def prop(pid, rules, explanation, decided, not_decided, controls=True, assumptions=()):
    PROPS[pid] = {'rules': rules, 'explanation': explanation, 'decided': decided, 'not_decided': not_decided,
                  'controls': controls, 'assumptions': list(assumptions)}


prop('C19',
     [T.r19_a, T.r19_b, T.r19_c, T.r19_d, T.r19_e, T.r19_f, T.r19_g],
     'Abstract interpretation of the tokenizer (driver next_token + the ordered rule registry, read from the '
     'AST of tokens.py) over category windows: every input string is abstracted to its string of character '
     'categories, guards split abstract states per inspected slot, loops are solved to fixpoint.  The resulting '
     'dispatch table says, for every window of categories, which rule fires, which characters it consumes, what '
     'token it builds from them, where the token position comes from and whether the driver round progresses.  '
     'The rules are assertions on that table plus two structural checks (categorize, tokenize).',
     'R19.a one category and own index per character; R19.b each rule emits exactly the characters it consumes '
     '(or restores the cursor; NUL/DEL licence); R19.c no empty token; R19.d every round progresses and every '
     'category is handled; R19.e token position = offset of first consumed character; R19.f the generator forwards '
     'every driver token exactly once; R19.g every token carries a kind assigned by its rule.',
     'equality of the concrete characters of a token with the source slice (follows only under the Buffer/Token '
     'summaries, which are checked as rules under C20/C13); behaviour for code points outside the category table '
     'beyond "gets the fallback category".',
     assumptions=['Buffer.forward/peek/backward/hasNext behave as their contracts (rules R20.* under C20)',
                  'Token concatenation keeps the left position and concatenates left to right (rule R13.b under C13)'])
