"""Property -> rule set registry (what each check decides, in words, goes into the evidence)."""
from . import rules_tok as T
from . import rules_reader as RD
from . import rules_buffer as B
from . import rules_conserve as CV
from . import rules_struct as S
from . import rules_roles as RO
from . import rules_pos as PO
from . import rules_iso as ISO
from . import rules_args as AR
from . import rules_tree as TR

PROPS = {}

L_SKIP = T.lint_concat_for('skip', lambda m, c: 'SKIP' in c)
L_MATH = T.lint_concat_for('math', lambda m, c: any(k in c for k in ('MATH', 'BRACKET', 'SIZE', 'PUNCT')))
L_STRUCT = T.lint_concat_for('struct', lambda m, c: m == 'reader' or 'SPECIAL' in c)


def prop(pid, rules, explanation, decided, not_decided, controls=True, assumptions=()):
    PROPS[pid] = {'rules': rules, 'explanation': explanation, 'decided': decided, 'not_decided': not_decided,
                  'controls': controls, 'assumptions': list(assumptions)}


prop('C19',
     [T.r19_a, T.r19_b, T.r19_i, T.r19_c, T.r19_d, T.r19_e, T.r19_f, T.r19_h, T.r19_g, PO.r13_i],
     'Abstract interpretation of the tokenizer (driver next_token + the ordered rule registry, read from the '
     'AST of tokens.py) over category windows: every input string is abstracted to its string of character '
     'categories, guards split abstract states per inspected slot, loops are solved to fixpoint.  The resulting '
     'dispatch table says, for every window of categories, which rule fires, which characters it consumes, what '
     'token it builds from them, where the token position comes from and whether the driver round progresses.  '
     'The rules are assertions on that table plus two structural checks (categorize, tokenize).',
     'R19.a one category and own index per character; R19.b each rule emits exactly the characters it consumes '
     '(or restores the cursor; NUL/DEL licence); R19.c no empty token; R19.d every round progresses and every '
     'category is handled; R19.e token position = offset of first consumed character; R19.f the generator forwards '
     'every driver token exactly once; R19.g every token carries a kind assigned by its rule.',
     'equality of the concrete characters of a token with the source slice (follows only under the Buffer/Token '
     'summaries, which are checked as rules under C20/C13); behaviour for code points outside the category table '
     'beyond "gets the fallback category".',
     assumptions=['Buffer.forward/peek/backward/hasNext behave as their contracts (rules R20.* under C20)',
                  'Token concatenation keeps the left position and concatenates left to right (rule R13.b under C13)'])


prop('C06',
     [RD.r06_a, RD.r06_b_reader, T.r06_b_tokens, T.r06_a_tokens, RD.r06_c, RD.r06_h, T.r19_d, RD.r06_d, RD.r06_i, RD.r06_e,
      RD.r06_g, B.r20_c],
     'Three static analyses.  (1) A context-propagating dataflow over reader.py and the composite Buffer scans: per '
     'path it tracks how many items are known to exist at the token cursor, whether the cursor is exhausted and '
     'whether the current loop iteration has advanced the cursor; callees are analysed in the caller\'s actual '
     'context to a fixpoint over the recursive call graph.  (2) The tokenizer abstract interpretation (see C19) for '
     'dereferences, rule exhaustiveness and driver progress.  (3) Call-graph and dominance rules for raised '
     'exception types, constant subscripts and constant-table look-ups.',
     'R06.a no next() without an item (StopIteration -> RuntimeError leak); R06.b no attribute access on a peek that '
     'may be None (reader, Buffer scans, tokenizer rules); R06.c / R19.d every reader loop and every tokenizer round '
     'advances; R06.d only EOFError/TypeError/AssertionError are raised explicitly in parse-reachable code; R06.e '
     'constant subscripts of argument lists are guarded; R06.g constant-table look-ups have pinned keys; R20.c the '
     'buffer reports exhaustion instead of leaking IndexError/StopIteration.',
     'exceptions from non-constant subscripts and .index() in general; recursion depth; wall-clock time; memory.')

prop('C20',
     [B.r20_a, B.r20_b, B.r20_c, B.r20_d, B.r20_e, B.r20_f, B.r20_g],
     'Affine abstract interpretation of utils.Buffer: the cursor field (identified as what `position` returns) is '
     'tracked as an affine form over its entry value, the integer parameters and one iteration counter per loop '
     '(Karr-style invariant for paired increments); methods are summarised with symbolic arguments and the '
     'summaries are substituted at internal call sites; raise sets are propagated through try/except.  The '
     'per-operation contracts compose over every history of operations by induction.',
     'R20.a the non-moving operations have cursor delta 0 on every exit; R20.b forward/backward/next move by what '
     'they say and return the slice/item at the entry position, backward checks underflow first; R20.c exhaustion is '
     'reported, not leaked; R20.d the queue is append-only and filled only from the iterator; R20.g the non-moving operations write no field.',
     'returned values beyond slice bounds; the fill-loop bound (relation between cursor and queue length); '
     'wrap-around of negative peeks at position 0.')


prop('C08',
     [CV.r08_a, CV.r08_b, CV.r08_c, CV.r08_d, CV.r08_e_parse_only, CV.t_agree, T.r19_b, T.r19_i, T.r19_f, RO.r07_e, ISO.r17_d],
     'Linear-resource (token conservation) analysis of reader.py: every token taken from the cursor and every value '
     'returned by a reader call is a resource; along every enumerated path (loops 0/1/2 times, callee result shapes '
     'per constant-argument context, to a fixpoint) each resource must be stored in the tree, returned, handed to a '
     'callee, rolled back, empty, regenerated (its kind/text pinned by a guard on the path and the node class built '
     'there re-emits that delimiter) or be the licensed whitespace before an argument.  Plus a def-use rule on the '
     'serialisers and agreement of the delimiter tables with the tokenizer dispatch table.',
     'R08.a nothing consumed by the reader is dropped; R08.b closers are discarded only under their guard; R08.c a '
     'literal-length discard matches the extent of its recogniser; R08.d no invented text except the licensed braces; '
     'R08.e serialisers print every stored field losslessly; T delimiter literals = tokenizer texts; R19.b/f the '
     'tokenizer emits every character in some token.',
     'character-for-character equality of output and input; alignment of the output against the input.')

prop('C01',
     [CV.r08_a_adjacent, CV.r08_b_wellformed, CV.r08_d, CV.r08_e_parse_only, CV.t_agree, CV.r01_a, RO.r11_c, RO.r11_e, L_SKIP, T.r19_b, T.r19_i, T.r19_c, T.r19_f, T.r19_e, PO.r13_c, PO.r13_e, PO.r13_g, PO.r13_i, ISO.r17_d],
     'The conservation skeleton of C08 restricted to what a well-formed document reaches, plus raw capture of '
     'skipped-environment bodies and rollback completeness of the tokenizer (the spacer rule restores the cursor '
     'exactly when it emits nothing).',
     'R08.a/b/d reader conservation; R08.e lossless serialisers; T delimiter agreement; R01.a verbatim body captured '
     'raw and whole; R19.b/c/f tokenizer partition (includes the rollback of the spacer rule).',
     'everything value-level: that the text of each node is exactly the slice of the source; the repository samples '
     'and documentation examples are runtime inputs and are not touched.')


prop('C10',
     [T.r10_a, T.r10_b, S.r10_c, T.r19_a_precondition, T.r19_f_precondition, AR.r18_i],
     'Assertions on the tokenizer dispatch table (abstract interpretation, see C19) for the windows that start with '
     'a backslash or a percent sign, plus a rule on the set of token kinds the reader branches on.',
     'R10.a a backslash followed by %% or by another backslash is always consumed together with it by an earlier rule '
     '(so a %% after an odd run of backslashes is never at the cursor when the comment rule is consulted); R10.b an '
     'unescaped %% yields one comment token that ends only at a line break or the end of input, contains no line '
     'break, and no other token kind can contain an unescaped %%; R10.c the reader never branches on the comment '
     'kind, so a comment reaches the tree only as a text leaf; R18.i a comment taken as the bare-token argument of a '
     'command passes through the group parser, which must cut exactly one delimiter at each end.',
     'that search never matches a text leaf as a command (beyond R03.c); behaviour of the raw scan inside skipped '
     'environments (excluded by the precondition of C11).')

prop('C12',
     [T.r12_a, T.r12_f, S.r12_b, CV.t_agree, S.r12_c, S.r12_d, S.r12_e, L_MATH, T.r09_struct, T.r19_a_precondition, T.r19_f_precondition, TR.r04_a, TR.r03_a, TR.r03_b, CV.r08_a_wellformed],
     'Assertions on the tokenizer dispatch table for $ / $$ / backslash-bracket windows, agreement of the kind <-> '
     'class <-> delimiter tables with the tokenizer, def-use rules on the math-region reader and the dispatcher, and '
     'table rules for operators and sizing commands.',
     'R12.a the six math switch kinds with their extents, escaped $ never a switch, $ in no other token; R12.b region '
     'closes on the closing kind of the class selected by its opener and is read in math mode; T delimiter literals; '
     'R12.c named math environments switch mode; R12.d brackets/parentheses structural only in argument position; '
     'R12.e zero-argument operators and sizing-command table; R09.f brackets are single tokens never inside text.',
     'the exact body text of a region; pairing when bodies contain the same switch.')

prop('C09',
     [T.r09_a, S.r09_b, S.r09_c, S.r09_d, S.r09_g, S.r09_j, S.r09_h, S.r09_e, T.r09_struct, S.r12_d, T.r09_i, T.r19_a_precondition],
     'Assertions on the tokenizer dispatch table for whitespace and delimiter windows, the cursor-movement summary '
     'of the whitespace reader, conservation of the whitespace token on the break paths of the argument loops, a '
     'taint rule on the whitespace variable and def-use rules on the group reader.',
     'R09.a the merged-spacer token is blanks with at most one line break and is maximal; R09.b one whitespace read '
     'per loop iteration, of at most one token; R09.c it is rolled back when nothing attaches; R09.d it never selects '
     'the branch; R09.e a group closes only on its own kind; R09.f/R12.d delimiters are own tokens and brackets are '
     'structural only in argument position.',
     'maximality of the argument run and the effect of detaching separators (value-level).')


prop('C07',
     [RO.r07_a, RO.r07_b, CV.r07_d, RO.r07_e, B.r20_c, RO.r07_f, CV.r08_b],
     'Role inference by data flow from the public entry point (which parameters carry the tolerance option), a '
     'threading rule on every resolved call edge, must-flow along the recursion through environments, brace and '
     'bracket arguments, and a non-interference rule: every condition that mentions the option is evaluated for '
     'tolerance 0 and 1 over all truth assignments of its other atoms.',
     'R07.a tolerance is used only as a call argument and in conditions whose strict side raises on every path -- so '
     'wherever strict parsing succeeds tolerant parsing takes the identical path (first sentence of C07, at the level '
     'of control flow, for every input); R07.b the option is forwarded on every edge and reaches both error tests; '
     'R07.c the tolerant continuation consumes nothing; R07.d the paths taken only in tolerant mode conserve tokens; R07.e in strict mode no reader returns normally at the end of the input without its closer (a lost closer is reported).',
     'which inputs strict mode rejects; the shape of the repaired output.')

prop('C11',
     [RO.r11_a, RO.r11_b, RO.r11_c, RO.r11_d, RO.r11_e, L_SKIP, CV.r01_a, CV.r08_b_skip],
     'Call-graph reachability from the raw reader, role inference and threading for the skip list, a dominance rule '
     'on the decision to read raw, def-use of the raw scan result, and the shape of the conditional scan.',
     'R11.a the raw reader reaches no parsing function; R11.b built-in and user names are one set and the decision is '
     'one membership test with a normally-parsing else branch; R11.c the skip list reaches nested environments; R11.d '
     'left-to-right first-match scan for the node\'s own closer; R01.a the body is stored raw and whole; R08.b the '
     'closer is discarded only under its guard.',
     'the body-dependent preconditions of the statement (runtime).')

prop('C02',
     [RO.r02_a, RO.r02_b, S.r02_c, S.r09_h, L_STRUCT, CV.r08_a_wellformed, S.r12_d, S.r09_e, ISO.r17_a],
     'Role inference and threading for the reading mode, must-flow of the definition mode from the command reader to '
     'the dispatcher\'s \\begin test, and def-use rules on the item reader and the group reader.',
     'R02.a the mode is forwarded on every edge and the definition mode reaches the \\begin test through brace and '
     'bracket arguments; R02.b an item body stops without consuming at \\item, \\end and a closing brace; R12.d / '
     'R09.e groups open only on a brace outside argument position and close only on their own kind; R17.a the '
     'signature and name tables those rules evaluate are not written at run time.',
     'everything value-level: names, nesting and argument contents exactly as written.')


prop('C13',
     [T.r19_a, T.r19_e, T.r19_h, PO.r13_b, PO.r13_c, PO.r13_d, PO.r13_e, PO.r13_f, PO.r13_g, PO.r13_h, PO.r13_i],
     'Provenance of positions from the categoriser to the node constructors: the tokenizer abstract interpretation '
     'gives the provenance of every token position; a symbolic (affine) evaluation of the position argument of every '
     'Token built by the Token arithmetic methods; the conservation engine records, for every node the reader builds, '
     'which token its position comes from; a def-use rule on the regex search.',
     'R19.a each character gets its own enumerate index; R19.e a token\'s position is that of its first consumed '
     'character; R13.b concatenation/prefixing/join/iteration/indexing/stripping keep positions true; R13.c every node '
     'gets the position of the first token consumed for it; R13.d a regex match is reported at leaf position + match '
     'start.',
     'exactness of the line/column arithmetic beyond the shape of the look-up and the column formula (the clamping '
     'in the last line, CR handling).')

prop('C14',
     [TR.r14_a, TR.r14_b, AR.r18_d, TR.r03_c, CV.r08_e, AR.r18_e, TR.r04_b, TR.r15_b, S.r09_j],
     'MRO-resolved def-use of the delimiters of named environments, write-through rules for the node setters, the '
     'slice type of argument lists, the live-name match predicate and the lossless-serialiser rule.',
     'R14.a \\begin/\\end of a named environment are computed from its current name and the serialiser reads them '
     'that way; R14.b the name/args/string/contents setters write through to the expression; R18.d slices of an '
     'argument list are argument lists (so they can be assigned back); R03.c search compares with the live name; '
     'R08.e serialisers print every field.',
     'that nothing else changes; re-parse equivalence.')

prop('C03',
     [TR.r03_a, TR.r03_b, TR.r03_d, TR.r03_c, TR.r04_a, TR.r04_b],
     'Class-lattice evaluation of the view predicates and def-use rules on the traversal and search methods.',
     'R03.a descendants is the closure of contents over children; R03.b find/count/attribute access delegate to '
     'find_all with the query passed through, find_all filters the descendant enumeration by the match predicate; '
     'R03.c the predicate reads the live name / text; R04.a children covers every container class; R04.b the complete '
     'content list covers argument groups and the body.',
     'exactness of result lists; match semantics of full-expression queries beyond the comparison performed.')

prop('C04',
     [TR.r04_a, TR.r04_b, TR.r04_c, TR.r04_d, TR.r03_a, TR.r15_d, T.r19_i, T.r19_b, CV.r08_a],
     'Class-lattice evaluation of the view predicates and def-use rules on the node views.',
     'R04.a contents drops only whitespace-only text, children admits exactly the non-text expression classes, no '
     'view reorders; R04.b both containers are enumerated; R04.c every wrapper has its parent set before it is '
     'yielded; R04.d iteration and indexing follow contents; R03.a descendants is the closure of contents; R08.a (the '
     'root clause) nothing the reader consumes is dropped on the way into the content lists.',
     'that the concatenation of the root content list is character-for-character the document (the structural part '
     'is R08.a here and the full set under C01/C08); value-level equalities between views.')

prop('C05',
     [TR.r05_a, TR.r05_e, TR.r05_b, TR.r05_d, TR.r05_f, TR.r05_c, TR.r15_b, TR.r15_a, TR.r15_c, CV.r08_e],
     'Search-primitive classification and def-use rules on the edit methods: which primitive locates the target, '
     'which index the replacement uses, where the items of a multi-item insertion go.',
     'R05.a the target is located by identity (expressions compare equal by text, so an equality search edits an '
     'identical twin); R05.b replace inserts at the index returned by the removal on the same container; R05.c several '
     'inserted items keep their order; R15.c what the mutators store in a content list is the expression itself (a '
     'stored wrapper defeats the identity look-up of the next edit).',
     'the splice equation itself (the resulting text equals the original with the span substituted).')

prop('C15',
     [TR.r05_a, TR.r05_e, TR.r05_d, TR.r05_f, TR.r05_c, TR.r15_a, TR.r15_b, TR.r15_c, TR.r15_d, ISO.r17_g, AR.r18_a, AR.r18_f, AR.r18_g, AR.r18_e, AR.r18_i, CV.r08_e, TR.r04_b],
     'Effect (frame) analysis of the mutators, a no-memoisation rule on the views, a kind-flow analysis of what can '
     'enter a content list through the public mutators, and totality of the text view over those kinds.',
     'R05.a/c targeted look-up by identity and ordered multi-insert; R15.a a mutator writes only its receiver\'s '
     'content list and the parent of inserted material, constructors copy their lists; R15.b no view caches; R15.c '
     'node wrappers and plain strings given as new material are stored as expressions; R15.d the text view admits '
     'every text kind contents can yield.',
     'equivalence with a reference document model over edit histories.')

prop('C17',
     [ISO.r17_a, ISO.r17_b, ISO.r17_c, ISO.r17_d, ISO.r17_f, ISO.r17_g, TR.r15_a, T.r17_e],
     'Who-may-write rules over module-level objects, class attributes and default-argument objects; classification '
     'of every iteration over a constant set (folded by the analyser) as order-insensitive or first-match, with a '
     'prefix-freeness check of the folded elements; def-use of the entry points\' return values; provenance of tokens '
     'that receive attribute stores in the tokenizer.',
     'R17.a no run-time write to shared state (the import-time rule registry is recognised); R17.b mutable defaults '
     'are only read; R17.c no first-match loop over a set whose elements can compete (hash-seed dependence); R17.d '
     'fresh root/buffers/node per call and non-string input flattened first; R17.e the shared empty token is never '
     'written.',
     'equality of results across input forms (chunks, files) beyond the flattening step.')

prop('C18',
     [AR.r18_a, AR.r18_b, AR.r18_c, AR.r18_f, AR.r18_g, AR.r18_h, AR.r18_d, AR.r18_e, AR.r18_i, AR.r18_j],
     'Path-wise effect/typestate analysis of the TexArgs mutators (list proper vs. shadow sequence), signature '
     'comparison with list, and def-use of the serialisers.',
     'R18.a every named list operation is overridden and keeps the two sequences paired; R18.b the signatures accept '
     'what list accepts; R18.c strings are coerced before anything is written and nothing can fail after the list was '
     'written; R18.d slices are argument lists; R18.e serialisation is the concatenation in list order and is what the '
     'owner prints.',
     'index arithmetic and behaviour with duplicate groups (value-level).')
