"""Position provenance rules (C13): Token arithmetic (R13.b), node positions (R13.c), regex
offsets (R13.d)."""
import ast
from .interp import strip_doc

from .model import AnalysisError, Unfoldable, norm
from .core import RuleResult, Finding
from .symexpr import SymEval
from .bufmodel import Aff
from . import rules_conserve

P = Aff.sym('self.position')


def _token_calls(fnode):
    return [n for n in ast.walk(fnode) if isinstance(n, ast.Call) and isinstance(n.func, ast.Name) and n.func.id == 'Token']


def _arg(call, i, name):
    if len(call.args) > i:
        return call.args[i]
    for k in call.keywords:
        if k.arg == name:
            return k.value
    return None


def _mentions(e, text):
    return any(norm(x) == text for x in ast.walk(e))


def r13_b(ctx):
    repo = ctx.repo
    tok = repo.need_cls('utils.Token')
    rr = RuleResult('R13.b', 'Token arithmetic keeps positions true: concatenation keeps the left operand\'s position '
                    'and order, prefixing subtracts the prefix length, join takes the first token\'s position, iteration '
                    'and indexing add the index, stripping adds the offset of the stripped text', floor=9)

    def fail(fd, node, msg):
        rr.fail(Finding('R13.b', 'utils', fd.qual, node, msg, line=getattr(node, 'lineno', 0)))

    def method(name):
        from .model import effective_method
        fds = tok.methods.get(name)
        if not fds:
            # name-mangled private helper
            for k, v in tok.methods.items():
                if k.lstrip('_') == name.lstrip('_') and k.startswith('__') and not k.endswith('__'):
                    return v[-1]
            raise AnalysisError('Token.%s vanished' % name)
        # delegations to a private helper are seen through
        return effective_method(tok, fds[-1])

    # concatenation
    for name in ('__add__', '__iadd__'):
        fd = method(name)
        se = SymEval(fd.node)
        other = fd.params()[1]
        calls = _token_calls(fd.node)
        if not calls:
            raise AnalysisError('Token.%s builds no Token' % name)
        for c in calls:
            t, p = _arg(c, 0, 'text'), _arg(c, 1, 'position')
            ok_pos = p is not None and se.ev(p) == P
            ok_txt = isinstance(t, ast.BinOp) and isinstance(t.op, ast.Add) and _mentions(t.left, 'self.text') \
                and any(isinstance(x, ast.Name) and x.id == other for x in ast.walk(t.right))
            rr.ob(ok_pos and ok_txt, {'method': name, 'position': norm(p) if p is not None else None, 'text': norm(t)[:40] if t is not None else None})
            if not ok_pos:
                fail(fd, c, 'Token.%s gives the concatenation the position %s instead of the left operand\'s position'
                     % (name, norm(p) if p is not None else 'None'))
            elif not ok_txt:
                fail(fd, c, 'Token.%s does not concatenate left operand first' % name)
    # prefixing
    fd = method('__radd__')
    se = SymEval(fd.node)
    other = fd.params()[1]
    for c in _token_calls(fd.node):
        t, p = _arg(c, 0, 'text'), _arg(c, 1, 'position')
        want = P - Aff.sym('len(%s)' % other)
        ok_pos = p is not None and se.ev(p) == want
        ok_txt = isinstance(t, ast.BinOp) and isinstance(t.op, ast.Add) and _mentions(t.right, 'self.text') \
            and any(isinstance(x, ast.Name) and x.id == other for x in ast.walk(t.left))
        rr.ob(ok_pos and ok_txt, {'method': '__radd__', 'position': norm(p) if p is not None else None})
        if not (ok_pos and ok_txt):
            fail(fd, c, 'Token.__radd__ must prepend the other operand and move the position back by its length '
                 '(position %s)' % (norm(p) if p is not None else None))
    # join
    fd = method('join')
    seq = fd.params()[1]
    calls = _token_calls(fd.node)
    if not calls:
        raise AnalysisError('Token.join builds no Token')
    from .model import resolve_locals as _rl
    for c in calls:
        t, p = _arg(c, 0, 'text'), _arg(c, 1, 'position')
        t = _rl(fd.node, t) if t is not None else None
        p = _rl(fd.node, p) if p is not None else None
        ok_pos = p is not None and norm(p) == '%s[0].position' % seq
        ok_txt = t is not None and isinstance(t, ast.Call) and isinstance(t.func, ast.Attribute) and t.func.attr == 'join' \
            and any(isinstance(g, ast.comprehension) and norm(g.iter) == seq for x in ast.walk(t) for g in getattr(x, 'generators', []))
        rr.ob(ok_pos and ok_txt, {'method': 'join', 'position': norm(p) if p is not None else None})
        if not ok_pos:
            fail(fd, c, 'Token.join takes the position %s instead of the first token\'s' % (norm(p) if p is not None else None))
        elif not ok_txt:
            fail(fd, c, 'Token.join does not join the texts of the tokens in order')
    # iteration
    fd = method('__iter__')
    se = SymEval(fd.node)
    loops = [n for n in ast.walk(fd.node) if isinstance(n, ast.For)]
    ok_loop = len(loops) == 1 and isinstance(loops[0].iter, ast.Call) and norm(loops[0].iter.func) == 'enumerate' \
        and norm(loops[0].iter.args[0]) == 'self.text' and len(loops[0].iter.args) == 1 and not loops[0].iter.keywords \
        and isinstance(loops[0].target, ast.Tuple)
    rr.ob(ok_loop, {'method': '__iter__', 'loop': norm(loops[0].iter) if loops else None})
    if not ok_loop:
        fail(fd, loops[0].iter if loops else fd.node, 'Token iteration does not enumerate its text from 0')
    else:
        idx, ch = loops[0].target.elts[0].id, loops[0].target.elts[1].id
        for c in _token_calls(fd.node):
            t, p = _arg(c, 0, 'text'), _arg(c, 1, 'position')
            ok = p is not None and se.ev(p) == P + Aff.sym(idx) and isinstance(t, ast.Name) and t.id == ch
            rr.ob(ok, {'method': '__iter__', 'position': norm(p) if p is not None else None})
            if not ok:
                fail(fd, c, 'a character yielded by Token iteration gets position %s instead of position + index'
                     % (norm(p) if p is not None else None))
    # indexing / slicing
    fd = method('__getitem__')
    se = SymEval(fd.node)
    ip = fd.params()[1]
    for c in _token_calls(fd.node):
        t, p = _arg(c, 0, 'text'), _arg(c, 1, 'position')
        pa = se.ev(p) if p is not None else None
        ok = pa is not None and len(pa.t) == 2 and dict(pa.t).get('self.position') == 1 and pa.c == 0
        startvar = [s for s, k in (pa.t if pa is not None else ()) if s != 'self.position']
        ok = ok and len(startvar) == 1 and dict(pa.t)[startvar[0]] == 1
        ok_txt = t is not None and norm(t) == 'self.text[%s]' % ip
        defs = set()
        if ok:
            def leaves(e):
                if isinstance(e, ast.IfExp):
                    return leaves(e.body) + leaves(e.orelse)
                if isinstance(e, ast.BoolOp) and isinstance(e.op, ast.Or):
                    out = []
                    for v in e.values:
                        out += leaves(v)
                    return out
                return [norm(e)]
            for n in ast.walk(fd.node):
                if isinstance(n, ast.Assign) and isinstance(n.targets[0], ast.Name) and n.targets[0].id == startvar[0]:
                    defs |= set(leaves(n.value))
                if isinstance(n, ast.AugAssign) and isinstance(n.target, ast.Name) and n.target.id == startvar[0] \
                        and isinstance(n.op, ast.Add):
                    defs.add('%s + %s' % (startvar[0], norm(n.value)))
            if not defs:
                raise AnalysisError('Token.__getitem__: the start offset %s is not computed by assignments in the method '
                                    '(helper or other shape): outside the decidable subset of R13.b' % startvar[0])
            need = {ip, '%s.start' % ip, '0'}
            neg = any(d.replace(' ', '') in ('len(self.text)+%s' % startvar[0], '%s+len(self.text)' % startvar[0]) for d in defs)
            ok = need <= defs and neg
        rr.ob(ok and ok_txt, {'method': '__getitem__', 'position': norm(p) if p is not None else None, 'start_definitions': sorted(defs)})
        if not (ok and ok_txt):
            fail(fd, c, 'Token indexing/slicing must return the text slice with position + start index, the start '
                 'normalised for None and negative values (position %s, start from %s)' % (norm(p) if p is not None else None, sorted(defs)))
    # stripping
    for name in ('strip', 'lstrip', 'rstrip'):
        fd = method(name)
        se = SymEval(fd.node)
        for c in _token_calls(fd.node):
            t, p = _arg(c, 0, 'text'), _arg(c, 1, 'position')
            pa = se.ev(p) if p is not None else None
            ok = False
            if isinstance(t, ast.Name):
                tdef = se.definition_text(t.id)
                want_off = 'self.text.find(%s)' % t.id
                ok = tdef is not None and tdef.startswith('self.text.%s(' % name) and pa == P + Aff.sym(want_off)
            rr.ob(ok, {'method': name, 'position': norm(p) if p is not None else None})
            if not ok:
                fail(fd, c, 'Token.%s must return the stripped text with position + offset of the stripped text in the '
                     'original' % name)
    # constructor copies the position of a Token argument: the value stored in `self.position` is evaluated for the
    # two cases "the text argument is a Token" / "it is a plain string"
    fd = method('__new__')
    nps = fd.params()
    text_p = nps[1] if len(nps) > 1 else 'text'
    pos_p = 'position' if 'position' in nps else (nps[2] if len(nps) > 2 else None)
    is_tok_tests = ('isinstance(%s, Token)' % text_p, "hasattr(%s, 'position')" % text_p)

    class _Truth(Exception):
        pass

    def pos_eval(e, is_token):
        """-> 'TOKEN' (the argument's own position), 'PARAM' (the position parameter), or raises"""
        if isinstance(e, ast.Attribute) and e.attr == 'position' and norm(e.value) == text_p:
            if not is_token:
                raise AnalysisError('Token.__new__ reads %s.position of a plain string' % text_p)
            return 'TOKEN'
        if isinstance(e, ast.Name) and e.id == pos_p:
            return 'PARAM'
        if isinstance(e, ast.Call) and isinstance(e.func, ast.Name) and e.func.id == 'getattr' and len(e.args) == 3 \
                and norm(e.args[0]) == text_p and isinstance(e.args[1], ast.Constant) and e.args[1].value == 'position':
            return 'TOKEN' if is_token else pos_eval(e.args[2], is_token)
        if isinstance(e, ast.IfExp):
            t = norm(e.test)
            if t in is_tok_tests:
                return pos_eval(e.body if is_token else e.orelse, is_token)
            if t in tuple('not ' + x for x in is_tok_tests):
                return pos_eval(e.orelse if is_token else e.body, is_token)
            raise _Truth(norm(e.test))
        if isinstance(e, ast.BoolOp):
            raise _Truth(norm(e))
        if isinstance(e, ast.Constant) and e.value is None:
            return 'NONE'
        raise AnalysisError('Token.__new__: position expression %s not recognised by R13.b' % norm(e)[:60])

    def stores(stmts, is_token, acc):
        for s_ in stmts:
            if isinstance(s_, ast.If):
                t = norm(s_.test)
                if t in is_tok_tests:
                    stores(s_.body if is_token else s_.orelse, is_token, acc)
                elif t in tuple('not ' + x for x in is_tok_tests):
                    stores(s_.orelse if is_token else s_.body, is_token, acc)
                else:
                    a1, a2 = list(acc), list(acc)
                    stores(s_.body, is_token, a1)
                    stores(s_.orelse, is_token, a2)
                    if a1 != a2:
                        if any(isinstance(x, ast.Assign) and norm(x.targets[0]) == 'self.position' for x in ast.walk(s_)):
                            raise _Truth(t)
                    acc[:] = a1
            elif isinstance(s_, ast.Assign) and any(norm(t_) == 'self.position' for t_ in s_.targets):
                acc.append(pos_eval(s_.value, is_token))
    ok = True
    why = ''
    try:
        got = {}
        for case in (True, False):
            acc = []
            stores(strip_doc(fd.node.body), case, acc)
            if not acc:
                raise AnalysisError('Token.__new__: no store to self.position found: shape not recognised by R13.b')
            got[case] = acc[-1]
        ok = got[True] == 'TOKEN' and got[False] == 'PARAM'
        why = 'position of a Token argument -> %s, of a plain string -> %s' % (got[True], got[False])
    except _Truth as e_:
        ok = False
        why = 'the stored position depends on the truth value of `%s` (offset 0 is falsy)' % str(e_)[:60]
    rr.ob(ok, {'method': '__new__', 'copies_position_of_token_argument': ok})
    if not ok:
        fail(fd, fd.node.name, 'Token(...) must take the position of a Token argument and the given position otherwise: ' + why)
    return rr


def r13_c(ctx):
    """node positions: from the conservation engine's record of constructor calls"""
    e = rules_conserve.engine(ctx)
    rr = RuleResult('R13.c', 'every node the reader builds gets the position of the first token consumed for it',
                    floor=5)
    seen = {}
    for key, ok, desc, node, fd in getattr(e, 'position_sites', []):
        k = (fd.fq, norm(node))
        seen[k] = (seen.get(k, (True,))[0] and ok, desc, node, fd)
    if not seen:
        raise AnalysisError('no node construction with a position found in the reader')
    for k, (ok, desc, node, fd) in sorted(seen.items()):
        rr.ob(ok, {'function': fd.qual, 'construction': k[1][:70], 'position': desc})
        if not ok:
            rr.fail(Finding('R13.c', 'reader', fd.qual, node, 'the node built here records %s, not the offset of the '
                            'first token consumed for this construct' % desc, line=node.lineno))
    return rr


def r13_d(ctx):
    repo = ctx.repo
    node = repo.need_cls('data.TexNode')
    fds = node.methods.get('search_regex')
    if not fds:
        raise AnalysisError('TexNode.search_regex vanished')
    fd = fds[-1]
    rr = RuleResult('R13.d', 'a regex match is reported at the position of its text leaf plus the start of the match',
                    floor=1)
    se = SymEval(fd.node)
    calls = _token_calls(fd.node)
    if not calls:
        raise AnalysisError('search_regex builds no Token')
    loops = [n for n in ast.walk(fd.node) if isinstance(n, ast.For)]
    # generator expressions over finditer are loops too
    from .model import loop_form
    for d in ast.walk(fd.node):
        if isinstance(d, ast.FunctionDef):
            lf = loop_form(d)
            if lf is not d:
                loops += [n for n in ast.walk(lf) if isinstance(n, ast.For)]
    leaf = match = hay = None
    for lp in loops:
        if isinstance(lp.iter, ast.Attribute) and lp.iter.attr == 'text' and isinstance(lp.target, ast.Name):
            leaf = lp.target.id
        if isinstance(lp.iter, ast.Call) and norm(lp.iter.func).endswith('finditer') and isinstance(lp.target, ast.Name):
            match = lp.target.id
            hay = lp.iter.args[1] if len(lp.iter.args) > 1 else None
    if leaf is None or match is None:
        raise AnalysisError('search_regex: the loops over the text leaves / over the matches are not recognised')
    for c in calls:
        t, p = _arg(c, 0, 'text'), _arg(c, 1, 'position')
        pa = se.ev(p) if p is not None else None
        starts = {Aff.sym('%s.start()' % match), Aff.sym('%s.start(0)' % match), Aff.sym('%s.span()[0]' % match)}
        ok_pos = pa is not None and leaf is not None and any(pa == Aff.sym('%s.position' % leaf) + s for s in starts)
        tdef = se.definition_text(t.id) if isinstance(t, ast.Name) else (norm(t) if t is not None else None)
        ok_txt = tdef in ('%s.group()' % match, '%s.group(0)' % match, '%s[0]' % match)
        ok_hay = hay is not None and isinstance(hay, ast.Name) and hay.id == leaf
        rr.ob(ok_pos and ok_txt and ok_hay, {'position': norm(p) if p is not None else None, 'text': tdef})
        if not (ok_pos and ok_txt and ok_hay):
            rr.fail(Finding('R13.d', 'data', fd.qual, c, 'a regex match is reported with text %s at %s: not the matched '
                            'text at leaf position + match start' % (tdef, norm(p) if p is not None else None), line=c.lineno))
    return rr


def r13_e(ctx):
    """the text collected by a conditional scan starts at the position of its first item"""
    repo = ctx.repo
    buf = repo.need_cls('utils.Buffer')
    fds = buf.methods.get('forward_until')
    if not fds:
        raise AnalysisError('Buffer.forward_until vanished')
    fd = fds[-1]
    rr = RuleResult('R13.e', 'the result of a conditional scan records the position of the first item it collects (not the '
                    'buffer\'s own cursor index, which is a token index on token buffers)', floor=1)
    se = SymEval(fd.node)
    inits = [n for n in ast.walk(fd.node) if isinstance(n, ast.Call) and isinstance(n.func, ast.Attribute)
             and 'init' in n.func.attr and norm(n.func.value) == 'self']
    if not inits:
        raise AnalysisError('forward_until: accumulator construction not found')
    from .model import resolve_locals
    for c in inits:
        p = c.args[1] if len(c.args) > 1 else None
        ok = False
        if p is not None:
            p = resolve_locals(fd.node, p)
            for x in ast.walk(p):
                if isinstance(x, ast.Attribute) and x.attr == 'position':
                    base = x.value
                    if isinstance(base, ast.Call) and norm(base) == 'self.peek()':
                        ok = True
            if any(norm(x) in ('self.position', 'self._Buffer__i') or (isinstance(x, ast.Attribute) and x.attr.endswith('__i'))
                   for x in ast.walk(p)):
                ok = False
        rr.ob(ok, {'accumulator_position': norm(p) if p is not None else None})
        if not ok:
            rr.fail(Finding('R13.e', 'utils', fd.qual, c, 'the scan result starts at %s instead of the position of the first '
                            'item: on a token buffer the body of a verbatim-like environment gets a token index as its '
                            'source offset' % (norm(p) if p is not None else 'no position'), line=c.lineno))
    return rr


def r13_f(ctx):
    """offset -> (line, column): the line is the number of line breaks strictly before the offset"""
    repo = ctx.repo
    clo = repo.need_cls('utils.CharToLineOffset')
    fds = clo.methods.get('__call__')
    init = clo.methods.get('__init__')
    if not fds or not init:
        raise AnalysisError('CharToLineOffset.__call__/__init__ vanished')
    fd = fds[-1]
    rr = RuleResult('R13.f', 'the line of an offset is the number of line breaks strictly before it and its column the '
                    'distance from the character after the previous break: the offset of a line break itself belongs to '
                    'the line it ends', floor=2)
    p = fd.params()[1]
    # the table of break positions: offsets of '\\n' characters, in order
    tab = None
    for n in ast.walk(init[-1].node):
        if isinstance(n, ast.Assign) and isinstance(n.targets[0], ast.Attribute) and isinstance(n.value, ast.ListComp):
            g = n.value.generators[0]
            if isinstance(g.iter, ast.Call) and norm(g.iter.func) == 'enumerate' and g.ifs and "'\\n'" in norm(g.ifs[0]):
                tab = n.targets[0].attr
    rr.ob(tab is not None, {'break_table': tab})
    if tab is None:
        raise AnalysisError('CharToLineOffset: table of line-break offsets not recognised')
    # local aliases of the table (`breaks = self.<table>`) are read through
    aliases = {n.targets[0].id for n in ast.walk(fd.node) if isinstance(n, ast.Assign) and len(n.targets) == 1
               and isinstance(n.targets[0], ast.Name) and norm(n.value) == 'self.%s' % tab}
    aliases = {a for a in aliases if sum(1 for n in ast.walk(fd.node) if isinstance(n, ast.Name) and n.id == a
                                         and isinstance(n.ctx, ast.Store)) == 1}

    def tnorm(e):
        t = norm(e)
        for a in aliases:
            import re as _re
            t = _re.sub(r'(?<![\w.])%s(?![\w])' % _re.escape(a), 'self.%s' % tab, t)
        return t
    calls = [n for n in ast.walk(fd.node) if isinstance(n, ast.Call) and norm(n.func).startswith('bisect')
             and len(n.args) == 2 and tnorm(n.args[0]) == 'self.%s' % tab and norm(n.args[1]) == p]
    if not calls:
        raise AnalysisError('CharToLineOffset.__call__: line look-up not recognised')
    for c in calls:
        name = norm(c.func).split('.')[-1]
        ok = name == 'bisect_left'
        rr.ob(ok, {'line_lookup': norm(c)})
        if not ok:
            rr.fail(Finding('R13.f', 'utils', fd.qual, c, 'the line of an offset is computed with %s, which counts the line '
                            'breaks at or before the offset: the offset of a line break is reported as (next line, -1) '
                            'instead of (its line, length of that line)' % name, line=c.lineno))
    # column arithmetic in the general branch
    se = SymEval(fd.node)
    line_var = None
    for n in ast.walk(fd.node):
        if isinstance(n, ast.Assign) and n.value in calls and isinstance(n.targets[0], ast.Name):
            line_var = n.targets[0].id
    # every result takes its line from that one search
    stores = sum(1 for n in ast.walk(fd.node) if isinstance(n, ast.Name) and isinstance(n.ctx, ast.Store) and n.id == line_var)
    nested = {id(x) for d in ast.walk(fd.node) if isinstance(d, (ast.FunctionDef, ast.Lambda)) and d is not fd.node
              for x in ast.walk(d)}
    for n in ast.walk(fd.node):
        if isinstance(n, ast.Return) and id(n) not in nested:
            v = n.value
            first = v.elts[0] if isinstance(v, ast.Tuple) and v.elts else None
            ok_r = first is not None and ((isinstance(first, ast.Name) and first.id == line_var and stores == 1) or first in calls)
            if not ok_r:
                raise AnalysisError('CharToLineOffset.__call__: the result `%s` (utils.py:%d) does not take its line from '
                                    'the table search; caches and other shortcuts are outside the decidable subset of '
                                    'R13.f' % (norm(v)[:50] if v is not None else 'None', n.lineno))

    class _E:
        def __init__(self, value):
            self.value = value
    cols = []
    for n in ast.walk(fd.node):
        if isinstance(n, ast.BinOp) and 'self.%s[' % tab in tnorm(n) and not isinstance(getattr(n, '_parent', None), ast.BinOp):
            cols.append(_E(n))
    okc = any(tnorm(n.value).replace(' ', '') == ('%s-self.%s[%s-1]-1' % (p, tab, line_var)).replace(' ', '') for n in cols)
    rr.ob(okc, {'column': [norm(n.value) for n in cols]})
    if not okc:
        rr.fail(Finding('R13.f', 'utils', fd.qual, cols[0].value if cols else 'column arithmetic', 'the column is not the distance '
                        'from the character after the previous line break', line=fd.node.lineno))
    return rr


def r13_g(ctx):
    """node classes keep the position they are constructed with: stored / handed to the base constructor unchanged,
    and the node view reads that field"""
    repo = ctx.repo
    data = repo.modules['data']
    rr = RuleResult('R13.g', 'every expression class stores the `position` it is constructed with as it is (or hands it to '
                    'its base constructor unchanged), and the node\'s position is that field: no default-substitution, '
                    'arithmetic or truth test on the offset (offset 0 is a valid position)', floor=5)
    n_cls = 0
    for c in data.classes.values():
        fds = c.methods.get('__init__')
        if not fds:
            continue
        fd = fds[-1]
        allp = [a.arg for a in fd.node.args.args + fd.node.args.kwonlyargs]
        if 'position' not in allp:
            continue
        n_cls += 1
        uses = []      # (node, expr, how)
        for n in ast.walk(fd.node):
            if isinstance(n, ast.Assign) and any(isinstance(t, ast.Attribute) and t.attr == 'position' and norm(t.value) == 'self'
                                                 for t in n.targets):
                uses.append((n, n.value, 'stored'))
            elif isinstance(n, ast.Call) and isinstance(n.func, ast.Attribute) and n.func.attr == '__init__' \
                    and isinstance(n.func.value, ast.Call) and norm(n.func.value.func) == 'super':
                # which argument reaches the base class's `position` parameter?
                base = None
                for b in c.mro[1:] if getattr(c, 'mro', None) else []:
                    if hasattr(b, 'methods') and b.methods.get('__init__'):
                        base = b.methods['__init__'][-1]
                        break
                expr = None
                for k in n.keywords:
                    if k.arg == 'position':
                        expr = k.value
                if expr is None and base is not None:
                    bp = base.params()[1:]
                    if 'position' in bp and bp.index('position') < len(n.args) and not any(isinstance(a, ast.Starred) for a in n.args):
                        expr = n.args[bp.index('position')]
                if expr is not None:
                    uses.append((n, expr, 'handed to the base constructor'))
        # rebinding of the parameter before use
        rebinds = [n for n in ast.walk(fd.node) if isinstance(n, ast.Name) and n.id == 'position' and isinstance(n.ctx, ast.Store)]
        ok = bool(uses) and all(isinstance(e, ast.Name) and e.id == 'position' for _, e, _ in uses) and not rebinds
        rr.ob(ok, {'class': c.name, 'position': [how for _, _, how in uses]})
        if not ok:
            bad = [(n, e, how) for n, e, how in uses if not (isinstance(e, ast.Name) and e.id == 'position')]
            node = bad[0][0] if bad else (rebinds[0]._parent if rebinds and hasattr(rebinds[0], '_parent') else fd.node.name)
            what = ('%s as `%s`' % (bad[0][2], norm(bad[0][1])[:40])) if bad else (
                'rebound before use' if rebinds else 'neither stored nor handed on')
            rr.fail(Finding('R13.g', 'data', fd.qual, node, 'the constructor of %s does not keep the position it is given '
                            '(%s): nodes record an offset that is not that of their first character -- e.g. `position or '
                            'default` turns the valid offset 0 into the default' % (c.name, what),
                            line=getattr(node, 'lineno', fd.node.lineno)))
    if n_cls == 0:
        raise AnalysisError('no expression class takes a position')
    # the node view
    node_cls = repo.need_cls('data.TexNode')
    owner, kind, payload = node_cls.lookup('position')
    if kind == 'property':
        g = payload['getter']
        rets = [n for n in ast.walk(g.node) if isinstance(n, ast.Return)]
        ok = len(rets) == 1 and norm(rets[0].value) == 'self.expr.position'
        rr.ob(ok, {'TexNode.position': norm(rets[0].value) if rets else None})
        if not ok:
            rr.fail(Finding('R13.g', 'data', g.qual, rets[0] if rets else 'TexNode.position', 'the node\'s position is not the '
                            'position stored in its expression', line=g.node.lineno))
    else:
        raise AnalysisError('TexNode.position is no longer a property')
    return rr


def _is_position_value(e):
    """an expression that denotes a source offset: `<x>.position`, the name `position`, `getattr(<x>, 'position'[, d])`"""
    if isinstance(e, ast.Attribute) and e.attr == 'position':
        return True
    if isinstance(e, ast.Name) and e.id == 'position':
        return True
    if isinstance(e, ast.Call) and isinstance(e.func, ast.Name) and e.func.id == 'getattr' and len(e.args) >= 2 \
            and isinstance(e.args[1], ast.Constant) and e.args[1].value == 'position':
        return True
    return False


def r13_i(ctx):
    """no offset is chosen by its truth value"""
    repo = ctx.repo
    rr = RuleResult('R13.i', 'a source offset is never tested for truth: `position or default`, `if position:`, '
                    '`x.position and ...` treat the valid offset 0 (the first character of the document) as "no position"',
                    floor=10)
    n_values = 0
    for mname in ('utils', 'tokens', 'reader', 'data', 'tex', 'category'):
        m = repo.modules.get(mname)
        if m is None:
            continue
        fns = list(m.functions.values()) + [fd for c in m.classes.values() for fds in c.methods.values() for fd in fds]
        for fd in fns:
            for n in ast.walk(fd.node):
                if _is_position_value(n):
                    n_values += 1
                tested = []
                if isinstance(n, ast.BoolOp):
                    tested += list(n.values[:-1])
                    # the last operand of a condition is tested too when the whole expression is a test
                if isinstance(n, (ast.If, ast.While, ast.IfExp, ast.Assert)):
                    t = n.test
                    stack = [t]
                    while stack:
                        x = stack.pop()
                        if isinstance(x, ast.BoolOp):
                            stack += list(x.values)
                        elif isinstance(x, ast.UnaryOp) and isinstance(x.op, ast.Not):
                            stack.append(x.operand)
                        else:
                            tested.append(x)
                if isinstance(n, ast.UnaryOp) and isinstance(n.op, ast.Not):
                    tested.append(n.operand)
                if isinstance(n, ast.comprehension):
                    tested += list(n.ifs)
                for x in tested:
                    if _is_position_value(x):
                        rr.ob(False)
                        rr.fail(Finding('R13.i', mname, fd.qual, n if not isinstance(n, (ast.If, ast.While)) else n.test,
                                        'the offset `%s` is tested for truth: offset 0 -- the first character of the '
                                        'document -- counts as "no position" and is replaced or skipped' % norm(x)[:60],
                                        line=getattr(x, 'lineno', fd.node.lineno)))
    rr.instances += n_values
    rr.discharged += n_values
    rr.samples.append({'offset_valued_expressions_scanned': n_values})
    return rr


def r13_h(ctx):
    """offsets are converted against the source that was parsed"""
    repo = ctx.repo
    from .model import resolve_locals
    rr = RuleResult('R13.h', 'the line/column table of a document is built from the very string that was categorised: read() '
                    'returns that string next to the root, and TexSoup() hands it to the root node as `src`', floor=2)
    rd = repo.need_func('tex.read')
    cat = [n for n in ast.walk(rd.node) if isinstance(n, ast.Call) and isinstance(n.func, ast.Name) and n.func.id == 'categorize']
    if not cat or not cat[0].args:
        raise AnalysisError('tex.read: the call of categorize vanished')
    fed = norm(resolve_locals(rd.node, cat[0].args[0]))
    rets = [n for n in ast.walk(rd.node) if isinstance(n, ast.Return) and n.value is not None]
    for r in rets:
        v = resolve_locals(rd.node, r.value)
        ok = isinstance(v, ast.Tuple) and len(v.elts) == 2 and norm(v.elts[1]) == fed
        # the plain (unresolved) name is accepted too when it is the categorised variable
        if not ok and isinstance(r.value, ast.Tuple) and len(r.value.elts) == 2 and norm(r.value.elts[1]) == norm(cat[0].args[0]):
            ok = True
        rr.ob(ok, {'read_returns': norm(r.value)[:60], 'categorised': fed[:40]})
        if not ok:
            rr.fail(Finding('R13.h', 'tex', rd.qual, r, 'read() does not return the categorised source string as its second '
                            'result: offsets would be converted against another text', line=r.lineno))
    ep = repo.need_func('__init__.TexSoup')
    rcalls = [n for n in ast.walk(ep.node) if isinstance(n, ast.Call) and isinstance(n.func, ast.Name) and n.func.id == 'read']
    ncalls = [n for n in ast.walk(ep.node) if isinstance(n, ast.Call) and isinstance(n.func, ast.Name) and n.func.id == 'TexNode']
    if not rcalls or not ncalls:
        raise AnalysisError('TexSoup(): read / TexNode call vanished')
    second = None
    for a in ast.walk(ep.node):
        if isinstance(a, ast.Assign) and a.value is rcalls[0] and isinstance(a.targets[0], ast.Tuple) and len(a.targets[0].elts) == 2 \
                and isinstance(a.targets[0].elts[1], ast.Name):
            second = a.targets[0].elts[1].id
    for c in ncalls:
        if len(c.args) == 1 and isinstance(c.args[0], ast.Starred) and c.args[0].value is rcalls[0] and not c.keywords:
            # TexNode(*read(...)): the pair (root, source) is spread over (expr, src)
            node_cls = repo.need_cls('data.TexNode')
            ps_ = [a.arg for a in node_cls.methods['__init__'][-1].node.args.args][1:3]
            ok = ps_ == ['expr', 'src']
            rr.ob(ok, {'root_node_src': 'TexNode(*read(...))'})
            if not ok:
                rr.fail(Finding('R13.h', '__init__', ep.qual, c, 'the pair returned by read() is spread over the wrong '
                                'constructor parameters', line=c.lineno))
            continue
        srcarg = next((k.value for k in c.keywords if k.arg == 'src'), c.args[1] if len(c.args) > 1 else None)
        stores = sum(1 for x in ast.walk(ep.node) if isinstance(x, ast.Name) and x.id == second and isinstance(x.ctx, ast.Store))
        ok = second is not None and isinstance(srcarg, ast.Name) and srcarg.id == second and stores == 1
        rr.ob(ok, {'root_node_src': norm(srcarg) if srcarg is not None else None})
        if not ok:
            rr.fail(Finding('R13.h', '__init__', ep.qual, c, 'the root node is not given the parsed source string as `src` (%s): '
                            'char_pos_to_line converts offsets against a different text (e.g. the re-serialised document, which '
                            'lacks the whitespace dropped before arguments)' % (norm(srcarg) if srcarg is not None else 'missing'),
                            line=c.lineno))
    return rr
