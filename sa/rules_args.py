"""Argument-list rules (C18): paired sequences (R18.a), list signatures (R18.b), coerce-first and
post-write safety (R18.c), slice type (R18.d), serialisation order (R18.e)."""
import ast

from .model import AnalysisError, norm
from .core import RuleResult, Finding
from .interp import strip_doc

LIST_OPS = {
    # name: (positional parameters after self, number of them that must have defaults)
    'append': (1, 0), 'extend': (1, 0), 'insert': (2, 0), 'remove': (1, 0), 'pop': (1, 1), 'reverse': (0, 0),
    'clear': (0, 0),
}
LIST_MUT = {'append', 'extend', 'insert', 'remove', 'pop', 'reverse', 'clear', 'sort', '__setitem__', '__delitem__',
            '__iadd__', '__imul__'}


def _cls(ctx):
    return ctx.repo.need_cls('data.TexArgs')


def _shadow_field(cls):
    """the second sequence: the attribute __init__ sets to a fresh list"""
    init = cls.methods.get('__init__', [None])[-1]
    if init is None:
        raise AnalysisError('TexArgs.__init__ vanished')
    for n in ast.walk(init.node):
        if isinstance(n, ast.Assign) and isinstance(n.targets[0], ast.Attribute) and norm(n.targets[0].value) == 'self' \
                and isinstance(n.value, (ast.List,)) and not n.value.elts:
            return n.targets[0].attr
    raise AnalysisError('TexArgs: shadow sequence not recognised')


def _is_super_call(n, names=None):
    return isinstance(n, ast.Call) and isinstance(n.func, ast.Attribute) and isinstance(n.func.value, ast.Call) \
        and isinstance(n.func.value.func, ast.Name) and n.func.value.func.id == 'super' \
        and (names is None or n.func.attr in names)


def _events(fd, cls, shadow, depth=0):
    """per path: ordered events ('L', node) list write, ('S', node) shadow write, ('D', node, method) delegated to
    another overriding mutator, ('R', node, what, arg) operation that can raise, ('C', node) coercion"""
    own_mut = {m for m in cls.methods if m in LIST_MUT}

    def expr_events(e):
        evs = []
        # evaluation order approximation: inner calls first (post-order)
        for n in _postorder(e):
            if _is_super_call(n, LIST_MUT):
                evs.append(('L', n, n.func.attr))
            elif isinstance(n, ast.Call) and isinstance(n.func, ast.Attribute):
                recv = n.func.value
                if norm(recv) == 'self.%s' % shadow:
                    if n.func.attr in LIST_MUT:
                        if n.func.attr in ('remove', 'pop'):
                            evs.append(('R', n, 'shadow.%s' % n.func.attr, n.args[0] if n.args else None))
                        evs.append(('S', n, n.func.attr))
                    elif n.func.attr in ('index',):
                        evs.append(('R', n, 'shadow.index', n.args[0] if n.args else None))
                elif norm(recv) == 'self' and n.func.attr in own_mut:
                    evs.append(('D', n, n.func.attr))
                elif norm(recv) == 'self' and ('coerce' in n.func.attr):
                    evs.append(('C', n, n.func.attr))
                elif norm(recv) == 'self' and n.func.attr in cls.methods and n.func.attr.startswith('_') \
                        and not n.func.attr.endswith('__') and depth < 3:
                    # private helper of the class: its effects happen here (straight-line approximation)
                    hfd = cls.methods[n.func.attr][-1]
                    for hp in _events(hfd, cls, shadow, depth + 1)[:1]:
                        evs.extend(ev for ev in hp if ev[0] in ('L', 'S', 'R', 'C'))
            elif isinstance(n, ast.Subscript) and isinstance(n.ctx, ast.Load) and norm(n.value) in ('self', 'self.%s' % shadow):
                if not (isinstance(n.slice, ast.Slice)):
                    evs.append(('R', n, 'subscript', n.slice))
            elif isinstance(n, ast.Subscript) and isinstance(n.ctx, ast.Del) and norm(n.value) == 'self.%s' % shadow:
                evs.append(('R', n, 'shadow.pop', n.slice))
                evs.append(('S', n, 'pop'))
        return evs

    paths = [[]]

    def walk(stmts, paths):
        for s in stmts:
            if isinstance(s, ast.If):
                te = expr_events(s.test)
                a = walk(s.body, [p + te + [('B', s.test, True)] for p in paths])
                b = walk(s.orelse, [p + te + [('B', s.test, False)] for p in paths])
                paths = a + b
            elif isinstance(s, (ast.For, ast.While)):
                head = expr_events(s.iter if isinstance(s, ast.For) else s.test)
                once = walk(s.body, [p + head for p in paths])
                paths = [p + head for p in paths] + once
            elif isinstance(s, ast.Return):
                ev = expr_events(s.value) if s.value is not None else []
                paths = [p + ev + [('X', s, None)] for p in paths]
            elif isinstance(s, ast.Raise):
                paths = [p + [('X', s, 'raise')] for p in paths]
            else:
                ev = expr_events(s)
                if isinstance(s, ast.Assign) and len(s.targets) == 1 and isinstance(s.targets[0], ast.Name):
                    ev = ev + [('A', s, s.targets[0].id, s.value)]
                paths = [p + ev for p in paths]
        return paths
    out = []
    for p in walk(strip_doc(fd.node.body), paths):
        # cut at the first exit
        cut = []
        for ev in p:
            cut.append(ev)
            if ev[0] == 'X':
                break
        out.append(cut)
    return out


def _postorder(e):
    for c in ast.iter_child_nodes(e):
        yield from _postorder(c)
    yield e


def r18_a(ctx):
    cls = _cls(ctx)
    shadow = _shadow_field(cls)
    rr = RuleResult('R18.a', 'every list operation the property names is overridden by the argument list and keeps its '
                    'two sequences paired: a path that writes the list proper also writes the shadow sequence', floor=7)
    for op in LIST_OPS:
        fds = cls.methods.get(op)
        if not fds:
            rr.ob(False, {'operation': op, 'overridden': False})
            rr.fail(Finding('R18.a', 'data', 'TexArgs', 'TexArgs.%s is not overridden' % op,
                            'list.%s would change the argument list without its shadow sequence' % op, line=cls.node.lineno))
            continue
        fd = fds[-1]
        bad = None
        for p in _events(fd, cls, shadow):
            if any(ev[0] == 'X' and ev[2] == 'raise' for ev in p):
                continue
            L = [ev for ev in p if ev[0] == 'L']
            S = [ev for ev in p if ev[0] == 'S']
            if L and not S:
                bad = L[0]
        deleg = any(ev[0] == 'D' for p in _events(fd, cls, shadow) for ev in p)
        rr.ob(bad is None, {'operation': op, 'paths': len(_events(fd, cls, shadow)), 'delegates': deleg})
        if bad is not None:
            rr.fail(Finding('R18.a', 'data', fd.qual, bad[1], 'a path of TexArgs.%s writes the list proper (%s) but not '
                            'the shadow sequence: the two drift apart and later operations fail or misplace arguments'
                            % (op, norm(bad[1])[:40]), line=bad[1].lineno))
    # other list mutators inherited unchanged would bypass the shadow; report them as notes only
    return rr


def r18_b(ctx):
    cls = _cls(ctx)
    rr = RuleResult('R18.b', 'the overriding mutators accept what list\'s own methods accept (arity and defaults)',
                    floor=7)
    for op, (npos, ndef) in LIST_OPS.items():
        fds = cls.methods.get(op)
        if not fds:
            continue
        fd = fds[-1]
        a = fd.node.args
        params = [x.arg for x in a.args][1:]
        ok = len(params) == npos and len(a.defaults) >= ndef and not a.kwonlyargs
        rr.ob(ok, {'operation': op, 'parameters': params, 'defaults': len(a.defaults), 'list_signature': '%d positional, %d optional' % (npos, ndef)})
        if not ok:
            rr.fail(Finding('R18.b', 'data', fd.qual, 'def %s(%s)' % (op, ', '.join(['self'] + params)) + (
                '' if not a.defaults else ' [%d defaults]' % len(a.defaults)),
                'TexArgs.%s takes %d positional parameters with %d defaults, list.%s takes %d of which %d optional: '
                'calls that are valid on a list raise TypeError' % (op, len(params), len(a.defaults), op, npos, ndef),
                line=fd.node.lineno))
    return rr


def r18_c(ctx):
    cls = _cls(ctx)
    shadow = _shadow_field(cls)
    rr = RuleResult('R18.c', 'string arguments are coerced before anything is written, and once the list proper has been '
                    'written no later step of the mutator can fail', floor=4)
    for op in ('insert', 'remove', 'pop', 'append', 'extend'):
        fds = cls.methods.get(op)
        if not fds:
            continue
        fd = fds[-1]
        for p in _events(fd, cls, shadow):
            written = False
            known = set()       # names known to be elements of the shadow
            shadow_has_new = False
            problems = []
            for ev in p:
                if ev[0] == 'C':
                    if written:
                        problems.append((ev[1], 'a string is coerced (and may be rejected) after the list was written'))
                elif ev[0] == 'L':
                    written = True
                    if ev[2] in ('insert', 'append', 'extend'):
                        shadow_has_new = False
                elif ev[0] == 'S':
                    if ev[2] in ('insert', 'append'):
                        shadow_has_new = True
                elif ev[0] == 'A':
                    # item = super().pop(i): an element of the list before the write, hence of the shadow
                    if _is_super_call(ev[3], {'pop'}):
                        known.add(ev[2])
                    elif isinstance(ev[3], ast.Call) and isinstance(ev[3].func, ast.Attribute) and ev[3].func.attr == 'index' \
                            and norm(ev[3].func.value) == 'self.%s' % shadow:
                        known.add(ev[2])        # a valid index into the shadow
                elif ev[0] == 'R' and written:
                    what, arg = ev[2], ev[3]
                    if what in ('shadow.index', 'shadow.remove'):
                        ok = isinstance(arg, ast.Name) and arg.id in known
                        if not ok:
                            problems.append((ev[1], '%s(%s) after the list was written: the value may be the new element, '
                                             'which the shadow does not hold yet (ValueError)' % (what, norm(arg) if arg is not None else '')))
                    elif what == 'shadow.pop':
                        ok = arg is None or (isinstance(arg, ast.Name) and arg.id in known) or (
                            isinstance(arg, ast.Call) and isinstance(arg.func, ast.Attribute) and arg.func.attr == 'index'
                            and norm(arg.func.value) == 'self.%s' % shadow and len(arg.args) == 1
                            and isinstance(arg.args[0], ast.Name) and arg.args[0].id in known)
                        if not ok:
                            problems.append((ev[1], 'shadow.pop with an unproved index after the list was written'))
                    elif what == 'subscript':
                        ok = isinstance(arg, ast.Constant) or (isinstance(arg, ast.Name) and arg.id in known)
                        if not ok:
                            problems.append((ev[1], 'computed index %s on the just-modified list (IndexError)' % norm(ev[1])))
            rr.ob(not problems, {'operation': op, 'path_events': [e[0] for e in p][:14]})
            for node, msg in problems:
                rr.fail(Finding('R18.c', 'data', fd.qual, node, 'TexArgs.%s: %s -- the call raises after the list has '
                                'already changed' % (op, msg), line=getattr(node, 'lineno', 0)))
    # the coercion hands the caller's string to the group parser as it is (the parser rejects mismatched delimiters)
    co = [m_ for m_ in cls.methods if 'coerce' in m_]
    for m_ in co:
        fd = cls.methods[m_][-1]
        own = [q for q in fd.params() if q not in ('self', 'cls')]
        p_ = own[0] if own else None
        parses = [n for n in ast.walk(fd.node) if isinstance(n, ast.Call) and isinstance(n.func, ast.Attribute) and n.func.attr == 'parse']
        rebound = [n for n in ast.walk(fd.node) if isinstance(n, ast.Name) and n.id == p_ and isinstance(n.ctx, ast.Store)
                   and not (isinstance(getattr(n, '_parent', None), ast.Assign) and n._parent.value in parses)]
        for c in parses:
            ok = len(c.args) == 1 and isinstance(c.args[0], ast.Name) and c.args[0].id == p_ and not rebound
            rr.ob(ok, {'coercion': norm(c)[:50], 'string_rewritten_first': bool(rebound)})
            if not ok:
                site = rebound[0]._parent if rebound and hasattr(rebound[0], '_parent') else c
                rr.fail(Finding('R18.c', 'data', fd.qual, site, 'TexArgs.%s rewrites the string before it reaches the group parser '
                                '(%s): a string with mismatched delimiters can be turned into one the parser accepts, so it '
                                'is added instead of rejected' % (m_.lstrip('_'), norm(site)[:50]), line=getattr(site, 'lineno', 0)))
    # what the mutators work with is the coercion of the caller's argument and nothing else: a resolver that can also
    # answer with an existing element picked by another criterion (its contents, say) makes remove('{x}') hit `{{x}}`
    for op in ('append', 'insert', 'remove'):
        fds = cls.methods.get(op)
        if not fds:
            continue
        fd = fds[-1]
        ps = fd.params()
        item = ps[-1] if len(ps) > 1 else None
        for n in ast.walk(fd.node):
            if isinstance(n, ast.Assign) and len(n.targets) == 1 and isinstance(n.targets[0], ast.Name) and n.targets[0].id == item \
                    and isinstance(n.value, ast.Call) and isinstance(n.value.func, ast.Attribute) \
                    and norm(n.value.func.value) in ('self', 'type(self)', 'TexArgs', 'self.__class__') \
                    and 'coerce' not in n.value.func.attr:
                h = cls.methods.get(n.value.func.attr)
                if not h:
                    continue
                hp = [q for q in h[-1].params() if q not in ('self', 'cls')]
                rets = [x for x in ast.walk(h[-1].node) if isinstance(x, ast.Return) and x.value is not None]
                other = [x for x in rets if not (isinstance(x.value, ast.Call) and isinstance(x.value.func, ast.Attribute)
                                                 and 'coerce' in x.value.func.attr and len(x.value.args) == 1
                                                 and isinstance(x.value.args[0], ast.Name) and x.value.args[0].id in hp)]
                rr.ob(not other, {'operation': op, 'argument_resolved_by': n.value.func.attr})
                for x in other[:1]:
                    rr.fail(Finding('R18.c', 'data', h[-1].qual, x, 'TexArgs.%s resolves its argument through %s, which can answer '
                                    'with `%s` instead of the coerced argument: the group affected is then not the one the '
                                    'caller\'s string denotes' % (op, n.value.func.attr, norm(x.value)[:40]), line=x.lineno))
    # coercion happens first in insert/remove
    for op in ('insert', 'remove'):
        fds = cls.methods.get(op)
        if not fds:
            continue
        fd = fds[-1]
        for p in _events(fd, cls, shadow):
            kinds = [e[0] for e in p if e[0] in ('C', 'L', 'S')]
            ok = not kinds or kinds[0] == 'C' or 'C' not in kinds and all(k not in ('L', 'S') for k in kinds)
            if kinds and kinds[0] != 'C':
                ok = False
            rr.ob(ok, {'operation': op, 'first_effect': kinds[0] if kinds else None})
            if not ok:
                rr.fail(Finding('R18.c', 'data', fd.qual, 'TexArgs.%s writes before coercing its argument' % op,
                                'TexArgs.%s changes a sequence before the argument is coerced: a rejected string leaves '
                                'the list changed' % op, line=fd.node.lineno))
    return rr


def r18_d(ctx):
    cls = _cls(ctx)
    rr = RuleResult('R18.d', 'slicing an argument list returns an argument list; indexing returns the stored group',
                    floor=1)
    fds = cls.methods.get('__getitem__')
    if not fds:
        rr.ob(False)
        rr.fail(Finding('R18.d', 'data', 'TexArgs', 'TexArgs.__getitem__ is not overridden', 'a slice of an argument '
                        'list is a plain list, which nodes do not accept as their arguments', line=cls.node.lineno))
        return rr
    fd = fds[-1]
    # decided by truth table over the conditions of the method: when the list look-up returned a list (a slice) the
    # result is an argument list built from it, otherwise the element itself
    from . import boolpath
    import itertools
    body = strip_doc(fd.node.body)
    wraps = plain = False
    try:
        atoms, env = boolpath.collect_atoms(body)
        for n in ast.walk(fd.node):
            if isinstance(n, ast.IfExp):
                boolpath._atoms(n.test, env, atoms)
        listy = [a for a in atoms if a.startswith('isinstance(') and a.endswith(', list)')]
        if listy and len(atoms) <= 6:
            wraps = plain = True
            for bits in itertools.product((False, True), repeat=len(atoms)):
                val = dict(zip(atoms, bits))
                rets = []
                boolpath.run_block(body, env, val, lambda s_: rets.append(s_) if isinstance(s_, ast.Return) else None)
                if not rets or rets[0].value is None:
                    wraps = plain = False
                    break
                e = rets[0].value
                while isinstance(e, ast.IfExp):
                    e = e.body if boolpath._ev(e.test, env, val) else e.orelse
                is_wrap = isinstance(e, ast.Call) and norm(e.func) in ('TexArgs', 'type(self)', 'self.__class__')
                # a slice key always yields a list: `isinstance(key, slice)` true decides the case on its own
                slicey = [a for a in atoms if a.startswith('isinstance(') and a.endswith(', slice)')]
                if any(val[a] for a in slicey) or val[listy[0]]:
                    wraps = wraps and is_wrap
                else:
                    plain = plain and not is_wrap
    except boolpath.NotStructured:
        wraps = plain = False
    sup = any(_is_super_call(n, {'__getitem__'}) for n in ast.walk(fd.node))
    # every result is list.__getitem__(key) on the caller's key, as it is or wrapped in an argument list
    kp = fd.params()[1] if len(fd.params()) > 1 else None
    derived = {x.targets[0].id for x in ast.walk(fd.node) if isinstance(x, ast.Assign) and len(x.targets) == 1
               and isinstance(x.targets[0], ast.Name) and _is_super_call(x.value, {'__getitem__'})
               and len(x.value.args) == 1 and isinstance(x.value.args[0], ast.Name) and x.value.args[0].id == kp}

    def from_list(e):
        if isinstance(e, ast.Name):
            return e.id in derived
        if _is_super_call(e, {'__getitem__'}):
            return len(e.args) == 1 and isinstance(e.args[0], ast.Name) and e.args[0].id == kp
        if isinstance(e, ast.Call) and norm(e.func) in ('TexArgs', 'type(self)', 'self.__class__') \
                and len(e.args) + len(e.keywords) == 1 and all(k.arg == 'args' for k in e.keywords):
            return from_list(e.args[0] if e.args else e.keywords[0].value)
        if isinstance(e, ast.IfExp):
            return from_list(e.body) and from_list(e.orelse)
        return False
    for n in ast.walk(fd.node):
        if isinstance(n, ast.Return) and (n.value is None or not from_list(n.value)):
            raise AnalysisError('TexArgs.__getitem__: the result `%s` (data.py:%d) is not list.__getitem__ applied to the '
                                'caller\'s key; a re-implementation of index/slice semantics is outside the decidable '
                                'subset of R18.d' % (norm(n.value)[:50] if n.value is not None else 'None', n.lineno))
    ok = wraps and plain and sup
    rr.ob(ok, {'wraps_list_results': wraps, 'returns_items_unchanged': plain, 'reads_through_list': sup})
    if not ok:
        rr.fail(Finding('R18.d', 'data', fd.qual, 'TexArgs.__getitem__', 'indexing/slicing an argument list does not return '
                        'the stored group / an argument list', line=fd.node.lineno))
    return rr


def r18_e(ctx):
    repo = ctx.repo
    cls = _cls(ctx)
    shadow = _shadow_field(cls)
    rr = RuleResult('R18.e', 'the argument list serialises as the concatenation of its groups in list order, and that is '
                    'what the owning command/environment prints', floor=3)
    fds = cls.methods.get('__str__')
    if not fds:
        raise AnalysisError('TexArgs.__str__ vanished')
    fd = fds[-1]
    rets = [n for n in ast.walk(fd.node) if isinstance(n, ast.Return)]
    for r in rets:
        t = norm(r.value)
        ok = ("''.join(" in t) and ('self)' in t or 'self]' in t or 'in self' in t) and shadow not in [x.attr for x in ast.walk(r.value) if isinstance(x, ast.Attribute)] \
            and not any(isinstance(x, ast.Call) and norm(x.func) in ('sorted', 'reversed', 'set') for x in ast.walk(r.value))
        rr.ob(ok, {'serialiser': t[:60]})
        if not ok:
            rr.fail(Finding('R18.e', 'data', fd.qual, r, 'the argument list does not serialise as the concatenation of its '
                            'groups in list order', line=r.lineno))
    for cname in ('TexCmd', 'TexEnv'):
        c = repo.need_cls('data.' + cname)
        owner, kind, sfd = c.lookup('__str__')
        if kind != 'method':
            raise AnalysisError('%s.__str__ vanished' % cname)
        prints = False
        for n in ast.walk(sfd.node):
            if isinstance(n, ast.BinOp) and isinstance(n.op, ast.Mod) and isinstance(n.left, ast.Constant) and '%s' in str(n.left.value):
                if any(norm(x) == 'self.args' for x in ast.walk(n.right)):
                    prints = True
            if isinstance(n, ast.Call) and norm(n.func) == 'str' and n.args and norm(n.args[0]) == 'self.args':
                prints = True
        rr.ob(prints, {'owner': cname, 'prints_args_through_their_serialiser': prints})
        if not prints:
            rr.fail(Finding('R18.e', 'data', sfd.qual, '%s.__str__ does not print str(self.args)' % cname,
                            'the owning %s does not print its argument list through the list\'s serialiser' % cname,
                            line=sfd.node.lineno))
    return rr


def r18_g(ctx):
    """the list proper is never re-derived from the shadow sequence"""
    cls = _cls(ctx)
    shadow = _shadow_field(cls)
    rr = RuleResult('R18.g', 'the list proper is the source of truth: it is written by list\'s own operation on the '
                    'caller\'s arguments and never rebuilt from the shadow sequence (whose positions are found by an '
                    'equality search and therefore need not be in list order among equal groups); reverse and clear act '
                    'on the list proper through list.reverse / list.clear', floor=7)
    by_eq = [n for fds in cls.methods.values() for n in ast.walk(fds[-1].node)
             if isinstance(n, ast.Call) and isinstance(n.func, ast.Attribute) and n.func.attr == 'index'
             and norm(n.func.value) == 'self.%s' % shadow]
    for op in LIST_OPS:
        fds = cls.methods.get(op)
        if not fds:
            continue
        fd = fds[-1]
        bad = []
        same = False
        for p in _events(fd, cls, shadow):
            for ev in p:
                if ev[0] != 'L':
                    continue
                if ev[2] == op:
                    same = True
                for a in list(ev[1].args) + [k.value for k in ev[1].keywords]:
                    if any(isinstance(x, ast.Attribute) and x.attr == shadow and norm(x.value) == 'self' for x in ast.walk(a)):
                        bad.append(ev[1])
        deleg = any(ev[0] == 'D' for p in _events(fd, cls, shadow) for ev in p)
        ok = not (bad and by_eq)
        if op in ('reverse', 'clear') and not same and not deleg:
            ok = False
        rr.ob(ok, {'operation': op, 'list_written_by_same_named_list_operation': same, 'delegates': deleg,
                   'list_writes_reading_the_shadow': [norm(b)[:50] for b in bad]})
        if not ok:
            node = bad[0] if bad else fd.node.name
            rr.fail(Finding('R18.g', 'data', fd.qual, node if bad else 'TexArgs.%s: no list.%s on the list proper' % (op, op),
                            'TexArgs.%s %s: the order of the argument list then follows the shadow sequence, in which an '
                            'inserted group is placed by an equality search (%s) -- with groups of identical text the list '
                            'no longer behaves like a Python list' % (
                                op, 'rebuilds the list proper from the shadow sequence' if bad else
                                'does not apply list.%s to the list proper' % op,
                                norm(by_eq[0])[:40] if by_eq else 'n/a'), line=fd.node.lineno))
    return rr


def r18_f(ctx):
    """positional operations act on the list proper by position, never through an equality search"""
    cls = _cls(ctx)
    shadow = _shadow_field(cls)
    rr = RuleResult('R18.f', 'pop and insert change the list proper at the requested position (list.pop / list.insert on '
                    'the index), not through remove/index by equality: groups with the same text compare equal, so an '
                    'equality search would hit the first twin', floor=2)
    for op in ('pop', 'insert'):
        fds = cls.methods.get(op)
        if not fds:
            continue
        fd = fds[-1]
        ip = fd.params()[1] if len(fd.params()) > 1 else None
        from .model import resolve_locals
        positional = [n for n in ast.walk(fd.node) if _is_super_call(n, {op}) and n.args and
                      any(isinstance(x, ast.Name) and x.id == ip for x in ast.walk(resolve_locals(fd.node, n.args[0])))]
        by_eq = [n for n in ast.walk(fd.node) if isinstance(n, ast.Call) and isinstance(n.func, ast.Attribute)
                 and n.func.attr in ('remove', 'index') and (norm(n.func.value) == 'self' or _is_super_call(n))]
        ok = bool(positional) and not by_eq
        rr.ob(ok, {'operation': op, 'positional_write': [norm(x)[:40] for x in positional], 'equality_search_on_list': [norm(x)[:40] for x in by_eq]})
        if not ok:
            node = by_eq[0] if by_eq else fd.node.name
            rr.fail(Finding('R18.f', 'data', fd.qual, node, 'TexArgs.%s does not change the list proper by position (%s): with '
                            'two groups of identical text the first one is affected instead of the one at the index'
                            % (op, 'it goes through %s' % norm(by_eq[0])[:40] if by_eq else 'no list.%s on the index' % op),
                            line=fd.node.lineno))
    return rr


def r18_h(ctx):
    """extend / the constructor walk their argument once; equality of groups is equality of their text"""
    repo = ctx.repo
    cls = _cls(ctx)
    rr = RuleResult('R18.h', 'extend and the constructor iterate their argument exactly once (a generator or iterator is '
                    'exhausted by a first pass), and argument groups are found by comparing serialisations: a string '
                    'coerced to a group equals the parsed group with the same text', floor=3)
    for op in ('extend', '__init__'):
        fds = cls.methods.get(op)
        if not fds:
            continue
        fd = fds[-1]
        ps = fd.params()
        if len(ps) < 2:
            continue
        p = ps[1]
        # materialised first?  p = list(p) / tuple(p)
        mat = any(isinstance(n, ast.Assign) and len(n.targets) == 1 and norm(n.targets[0]) == p and isinstance(n.value, ast.Call)
                  and norm(n.value.func) in ('list', 'tuple') and len(n.value.args) == 1 and norm(n.value.args[0]) == p
                  for n in ast.walk(fd.node))
        uses = []
        for n in ast.walk(fd.node):
            if isinstance(n, ast.For) and norm(n.iter) == p:
                uses.append(n)
            elif isinstance(n, ast.comprehension) and norm(n.iter) == p:
                uses.append(n)
            elif isinstance(n, ast.Call) and any(isinstance(a, ast.Name) and a.id == p for a in n.args) and not (
                    isinstance(n.func, ast.Name) and n.func.id in ('isinstance', 'len', 'type', 'id', 'bool')):
                uses.append(n)
        ok = len(uses) <= 1 or mat
        rr.ob(ok, {'operation': op, 'passes_over_the_argument': len(uses), 'materialised_first': mat})
        if not ok:
            rr.fail(Finding('R18.h', 'data', fd.qual, uses[1] if not isinstance(uses[1], ast.comprehension) else fd.node.name,
                            'TexArgs.%s walks its argument %d times: with a generator, map or iterator the first pass '
                            'consumes it and the later pass sees nothing, so extend(iter([...])) silently adds no group '
                            '(a list does)' % (op, len(uses)), line=fd.node.lineno))
    # equality of expressions = equality of text
    texexpr = repo.need_cls('data.TexExpr')
    eqs = texexpr.methods.get('__eq__')
    if not eqs:
        raise AnalysisError('TexExpr.__eq__ vanished')
    fd = eqs[-1]
    other = fd.params()[1]

    def is_text_eq(e):
        if not (isinstance(e, ast.Compare) and len(e.ops) == 1 and isinstance(e.ops[0], ast.Eq)):
            return False
        sides = {norm(e.left), norm(e.comparators[0])}
        return sides in ({'str(self)', 'str(%s)' % other}, {'self.__str__()', '%s.__str__()' % other})
    rets = [n for n in ast.walk(fd.node) if isinstance(n, ast.Return)]
    bad = [r for r in rets if r.value is not None and not is_text_eq(r.value) and not (
        isinstance(r.value, ast.Constant) and r.value.value in (False, NotImplemented)) and norm(r.value) != 'NotImplemented']
    ok = any(is_text_eq(r.value) for r in rets if r.value is not None) and not bad
    rr.ob(ok, {'expression_equality': [norm(r.value)[:50] for r in rets if r.value is not None]})
    if not ok:
        rr.fail(Finding('R18.h', 'data', fd.qual, bad[0] if bad else fd.node.name, 'TexExpr.__eq__ does not compare the '
                        'serialisations of the two expressions on every path: a string coerced to a group (e.g. remove(\'{}\')'
                        ', remove(\'{a[1]}\')) no longer equals the parsed group with the same text, so it is not found',
                        line=fd.node.lineno))
    return rr


def r18_i(ctx):
    """the group parser removes exactly one opening and one closing delimiter"""
    repo = ctx.repo
    from .model import resolve_locals, effective_method
    grp = repo.need_cls('data.TexGroup')
    fds = grp.methods.get('parse')
    if not fds:
        raise AnalysisError('TexGroup.parse vanished')
    fd = effective_method(grp, fds[-1])
    rr = RuleResult('R18.i', 'the group parser takes the text between exactly one opening and one closing delimiter: the '
                    'content is the slice [len(begin):-len(end)] of the string (delimiters that also end or start the '
                    'content -- `{{a}}`, `[[1]]` -- stay)', floor=2)
    ps = fd.params()
    sp = ps[1] if len(ps) > 1 else ps[0]
    # delimiter lengths over the concrete group classes
    lens_b, lens_e = set(), set()
    for c in repo.modules['data'].classes.values():
        if c is not grp and grp in getattr(c, 'mro', []):
            try:
                b, e = repo.class_attr(c, 'begin'), repo.class_attr(c, 'end')
            except Unfoldable:
                continue
            if isinstance(b, str) and isinstance(e, str):
                lens_b.add(len(b))
                lens_e.add(len(e))

    def derived(e):
        """does the expression read the string parameter?"""
        return any(isinstance(x, ast.Name) and x.id == sp for x in ast.walk(e))

    def delim_len(e, which, sign):
        """is e  len(<x>.<which>)  (sign +1) / -len(<x>.<which>) (sign -1), or the constant all group classes agree on"""
        if sign < 0:
            if isinstance(e, ast.UnaryOp) and isinstance(e.op, ast.USub):
                return delim_len(e.operand, which, 1)
            if isinstance(e, ast.Constant) and isinstance(e.value, int):
                return (lens_e if which == 'end' else lens_b) == {-e.value}
            return False
        if isinstance(e, ast.Call) and isinstance(e.func, ast.Name) and e.func.id == 'len' and len(e.args) == 1 \
                and isinstance(e.args[0], ast.Attribute) and e.args[0].attr == which:
            return True
        if isinstance(e, ast.Constant) and isinstance(e.value, int):
            return (lens_b if which == 'begin' else lens_e) == {e.value}
        return False
    good, bad = [], []
    for n in ast.walk(fd.node):
        if isinstance(n, ast.Subscript) and isinstance(n.slice, ast.Slice) and derived(n.value) and isinstance(n.ctx, ast.Load):
            sl = n.slice
            lo = resolve_locals(fd.node, sl.lower) if sl.lower is not None else None
            hi = resolve_locals(fd.node, sl.upper) if sl.upper is not None else None
            if sl.step is None and lo is not None and hi is not None and delim_len(lo, 'begin', 1) and delim_len(hi, 'end', -1):
                good.append(n)
            elif sl.step is None and ((lo is not None and hi is None and delim_len(lo, 'begin', 1))
                                      or (lo is None and hi is not None and delim_len(hi, 'end', -1))):
                good.append(n)      # the two cuts made one after the other
            else:
                bad.append((n, 'the slice %s' % norm(n)[:50]))
        if isinstance(n, ast.Call) and isinstance(n.func, ast.Attribute) and derived(n.func.value):
            a = n.func.attr
            if a in ('strip', 'lstrip', 'rstrip'):
                bad.append((n, '%s() removes every leading/trailing character of the set, not one delimiter' % a))
            elif a in ('replace', 'translate'):
                bad.append((n, '%s() rewrites the content' % a))
            elif a in ('removeprefix', 'removesuffix'):
                good.append(n)
            elif a in ('split', 'rsplit', 'partition', 'rpartition', 'find', 'rfind', 'index', 'rindex'):
                bad.append((n, '%s() cuts at a delimiter found by search, not at the two ends' % a))
    if not good and not bad:
        raise AnalysisError('TexGroup.parse: how the content is cut out of the string is not recognised (no slice of the '
                            'argument): outside the decidable subset of R18.i')
    for n in good:
        rr.ob(True, {'content': norm(n)[:70]})
    for n, why in bad:
        rr.ob(False, {'content': norm(n)[:70]})
        rr.fail(Finding('R18.i', 'data', fd.qual, n, 'the group parser does not take the text between exactly one opening and '
                        'one closing delimiter (%s): a coerced string such as `{{a}}` or `[[1]]` loses part of its content '
                        'or is cut in the wrong place' % why, line=n.lineno))
    # the delimiter test that admits the string
    tests = [n for n in ast.walk(fd.node) if isinstance(n, ast.Call) and isinstance(n.func, ast.Attribute)
             and n.func.attr in ('startswith', 'endswith') and derived(n.func.value)]
    kinds = {n.func.attr for n in tests}
    rr.ob(kinds == {'startswith', 'endswith'}, {'delimiter_tests': sorted(kinds)})
    if kinds and kinds != {'startswith', 'endswith'}:
        rr.fail(Finding('R18.i', 'data', fd.qual, tests[0], 'the group parser tests only one end of the string for its '
                        'delimiter: a string with a missing or mismatched delimiter is accepted', line=tests[0].lineno))
    elif not kinds:
        raise AnalysisError('TexGroup.parse: the delimiter tests are not recognised (no startswith/endswith on the argument)')
    return rr


# ---- R18.j: interval analysis of the index normalisation in TexArgs.insert --------------------------------------------
# bounds: '-inf', '+inf' or (k, c) standing for k*n + c with n = len(self) >= 0 and k in {0, 1}

def _b_le(a, b):
    """is bound a <= bound b for every n >= 0?  (True / False=not provable)"""
    if a == '-inf' or b == '+inf':
        return True
    if a == '+inf' or b == '-inf':
        return False
    (ka, ca), (kb, cb) = a, b
    if ka == kb:
        return ca <= cb
    if ka == 0 and kb == 1:
        return ca <= cb             # c <= n + c'  holds for all n >= 0 iff c <= c'
    return False                    # n + c <= c' is not true for all n


def _b_min(a, b, side='lo'):
    """a sound bound for min(a, b): side 'lo' -> a lower bound, side 'hi' -> an upper bound"""
    if _b_le(a, b):
        return a
    if _b_le(b, a):
        return b
    if a in ('-inf', '+inf') or b in ('-inf', '+inf'):
        return '-inf' if side == 'lo' else '+inf'
    # n + c against c': n + c >= c, so min >= min(c, c'); either operand bounds the minimum from above
    const, sym = (a, b) if a[0] == 0 else (b, a)
    return (0, min(const[1], sym[1])) if side == 'lo' else const


def _b_max(a, b, side='hi'):
    if _b_le(a, b):
        return b
    if _b_le(b, a):
        return a
    if a in ('-inf', '+inf') or b in ('-inf', '+inf'):
        return '-inf' if side == 'lo' else '+inf'
    const, sym = (a, b) if a[0] == 0 else (b, a)
    return const if side == 'lo' else (1, max(const[1], sym[1]))


def _b_add(a, b):
    if a in ('-inf', '+inf'):
        return a
    if b in ('-inf', '+inf'):
        return b
    k = a[0] + b[0]
    if k > 1:
        return None
    return (k, a[1] + b[1])


def r18_j(ctx):
    """after its normalisation the index of TexArgs.insert lies in [0, len]"""
    cls = _cls(ctx)
    from .model import effective_method
    fds = cls.methods.get('insert')
    if not fds:
        raise AnalysisError('TexArgs.insert vanished')
    fd = effective_method(cls, fds[-1])
    rr = RuleResult('R18.j', 'when TexArgs.insert normalises its index itself, the normalised index lies in [0, len(self)] '
                    'for every integer (list.insert clamps below -len to the front and above len to the end), and a '
                    'subscript self[<index>] sees a value in [0, len)', floor=0)
    ps = fd.params()
    if len(ps) < 2:
        raise AnalysisError('TexArgs.insert has no index parameter')
    ip = ps[1]
    N = (1, 0)
    TOPI = ('-inf', '+inf')

    class Unknown(Exception):
        pass

    def ev(e, env):
        """-> (lo, hi) interval of an integer expression"""
        if isinstance(e, ast.Constant) and isinstance(e.value, int) and not isinstance(e.value, bool):
            return ((0, e.value), (0, e.value))
        if isinstance(e, ast.Name):
            if e.id in env:
                return env[e.id]
            raise Unknown(e.id)
        if isinstance(e, ast.Call) and isinstance(e.func, ast.Name) and e.func.id == 'len' and len(e.args) == 1 \
                and norm(e.args[0]) == 'self':
            return (N, N)
        if isinstance(e, ast.BinOp) and isinstance(e.op, ast.Add):
            a, b = ev(e.left, env), ev(e.right, env)
            lo, hi = _b_add(a[0], b[0]), _b_add(a[1], b[1])
            if lo is None or hi is None:
                raise Unknown(norm(e))
            return (lo, hi)
        if isinstance(e, ast.BinOp) and isinstance(e.op, ast.Sub) and isinstance(e.right, ast.Constant) \
                and isinstance(e.right.value, int):
            a = ev(e.left, env)
            c = (0, -e.right.value)
            return (_b_add(a[0], c), _b_add(a[1], c))
        if isinstance(e, ast.Call) and isinstance(e.func, ast.Name) and e.func.id in ('max', 'min') and len(e.args) == 2 \
                and not e.keywords:
            a, b = ev(e.args[0], env), ev(e.args[1], env)
            f = _b_max if e.func.id == 'max' else _b_min
            return (f(a[0], b[0], 'lo'), f(a[1], b[1], 'hi'))
        if isinstance(e, ast.IfExp):
            outs = []
            for branch, envb in refine(e.test, env):
                if envb is not None:
                    outs.append(ev(e.body if branch else e.orelse, envb))
            return join(outs)
        raise Unknown(norm(e)[:40])

    def join(vals):
        lo, hi = vals[0]
        for a, b in vals[1:]:
            lo, hi = _b_min(lo, a, 'lo'), _b_max(hi, b, 'hi')
        return (lo, hi)

    def refine(test, env):
        """-> [(True, env or None), (False, env or None)] for `<name> <op> <expr>`; None = branch impossible"""
        if isinstance(test, ast.Compare) and len(test.ops) == 1 and isinstance(test.left, ast.Name) and test.left.id in env:
            try:
                r = ev(test.comparators[0], env)
            except Unknown:
                return [(True, dict(env)), (False, dict(env))]
            lo, hi = env[test.left.id]
            op = test.ops[0]
            one = (0, 1)

            def setv(lo2, hi2):
                if lo2 not in ('-inf',) and hi2 not in ('+inf',) and not _b_le(lo2, hi2) and _b_le(hi2, lo2) and lo2 != hi2:
                    return None
                e2 = dict(env)
                e2[test.left.id] = (lo2, hi2)
                return e2
            minus1 = lambda b: b if b in ('-inf', '+inf') else (b[0], b[1] - 1)      # noqa: E731
            plus1 = lambda b: b if b in ('-inf', '+inf') else (b[0], b[1] + 1)       # noqa: E731
            tighter_hi = lambda old, new: new if _b_le(new, old) else old            # noqa: E731
            tighter_lo = lambda old, new: new if _b_le(old, new) else old            # noqa: E731
            if isinstance(op, ast.Lt):
                return [(True, setv(lo, tighter_hi(hi, minus1(r[1])))), (False, setv(tighter_lo(lo, r[0]), hi))]
            if isinstance(op, ast.LtE):
                return [(True, setv(lo, tighter_hi(hi, r[1]))), (False, setv(tighter_lo(lo, plus1(r[0])), hi))]
            if isinstance(op, ast.Gt):
                return [(True, setv(tighter_lo(lo, plus1(r[0])), hi)), (False, setv(lo, tighter_hi(hi, r[1])))]
            if isinstance(op, ast.GtE):
                return [(True, setv(tighter_lo(lo, r[0]), hi)), (False, setv(lo, tighter_hi(hi, minus1(r[1]))))]
        return [(True, dict(env)), (False, dict(env))]
    normalised = [False]
    sites = []

    def check_uses(node, env):
        for x in ast.walk(node):
            if isinstance(x, ast.Subscript) and isinstance(x.ctx, ast.Load) and norm(x.value) == 'self' \
                    and isinstance(x.slice, ast.Name) and x.slice.id in env and x.slice.id in derived_names:
                sites.append((x, env[x.slice.id], 'subscript'))
            if isinstance(x, ast.Call) and isinstance(x.func, ast.Attribute) and x.func.attr == 'insert' and x.args \
                    and isinstance(x.args[0], ast.Name) and x.args[0].id in env and x.args[0].id in derived_names \
                    and (norm(x.func.value) == 'super()' or norm(x.func.value) == 'list'):
                sites.append((x, env[x.args[0].id], 'insert'))

    derived_names = set()

    def run(stmts, env):
        envs = [env]
        for st in stmts:
            nxt = []
            for e_ in envs:
                if isinstance(st, ast.Assign) and len(st.targets) == 1 and isinstance(st.targets[0], ast.Name):
                    nm = st.targets[0].id
                    # uses inside the value see the environment before the store; conditional expressions refine
                    if isinstance(st.value, ast.IfExp):
                        for branch, eb in refine(st.value.test, e_):
                            if eb is not None:
                                check_uses(st.value.body if branch else st.value.orelse, eb)
                    else:
                        check_uses(st.value, e_)
                    e2 = dict(e_)
                    try:
                        v = ev(st.value, e_)
                        if any(isinstance(y, ast.Name) and y.id in derived_names | {ip} for y in ast.walk(st.value)):
                            derived_names.add(nm)
                            normalised[0] = True
                        e2[nm] = v
                    except Unknown:
                        e2.pop(nm, None)
                    nxt.append(e2)
                elif isinstance(st, ast.AugAssign) and isinstance(st.target, ast.Name) and isinstance(st.op, (ast.Add, ast.Sub)):
                    nm = st.target.id
                    e2 = dict(e_)
                    try:
                        v = ev(ast.BinOp(ast.Name(nm, ast.Load()), st.op, st.value), e_)
                        e2[nm] = v
                        if nm == ip or nm in derived_names:
                            derived_names.add(nm)
                            normalised[0] = True
                    except Unknown:
                        e2.pop(nm, None)
                    nxt.append(e2)
                elif isinstance(st, ast.If):
                    for branch, eb in refine(st.test, e_):
                        if eb is not None:
                            nxt += run(st.body if branch else st.orelse, eb)
                elif isinstance(st, (ast.Return, ast.Raise)):
                    check_uses(st, e_)
                else:
                    check_uses(st, e_)
                    nxt.append(e_)
            envs = nxt
            if len(envs) > 64:
                raise AnalysisError('TexArgs.insert: too many paths for R18.j')
        return envs
    run(strip_doc(fd.node.body), {ip: TOPI})
    if not normalised[0]:
        rr.notes.append('TexArgs.insert hands its index on without normalising it: nothing to check')
        return rr
    for node, (lo, hi), kind in sites:
        top = (1, -1) if kind == 'subscript' else N
        ok = _b_le((0, 0), lo) and _b_le(hi, top)
        rr.ob(ok, {'use': norm(node)[:50], 'interval': [str(lo), str(hi)]})
        if not ok:
            rr.fail(Finding('R18.j', 'data', fd.qual, node, 'after the index normalisation of TexArgs.insert the index can '
                            'still lie outside [0, len%s] (interval %s .. %s with n = len(self)): an index below -len is '
                            'counted from the end a second time, so insert(-len-1, g) does not put g at the front as '
                            'list.insert does' % (')' if kind == 'subscript' else ']', lo, hi), line=node.lineno))
    return rr
