"""Rules on the reader (reader.py) and the composite Buffer scans, from engine E3 (cursor.py),
plus the call-graph rule on raised exception types (R06.d)."""
import ast

from .model import AnalysisError, Folder, Unfoldable, norm
from .core import RuleResult, Finding
from . import cursor
from . import callgraph


def engine(ctx):
    return ctx.memo('cursor.engine', lambda: cursor.analyse_reader(ctx.repo))


def _finding(rule, f, msg_prefix=''):
    fd = f.fd
    mod = fd.module.name
    return Finding(rule, mod, fd.qual, f.node, msg_prefix + f.detail, line=getattr(f.node, 'lineno', 0),
                   trace={'call_chain': f.chain[-8:], 'state_at_site': f.entry})


def r06_a(ctx):
    e = engine(ctx)
    rr = RuleResult('R06.a', 'every next() on the token cursor in the reader is reached only with an item known to '
                    'exist (else StopIteration escapes the generator-driven parse as RuntimeError)', floor=5)
    for (kind, fq, construct), ok in sorted(e.sites.items()):
        if kind == 'next':
            rr.ob(ok, {'site': '%s: %s' % (fq, construct), 'guarded_in_every_context': ok})
    for f in e.findings.values():
        if f.kind == 'next-without-item':
            rr.fail(_finding('R06.a', f))
    ctx.stats['contexts_analysed'] = len(e.contexts)
    return rr


def r06_b_reader(ctx):
    e = engine(ctx)
    rr = RuleResult('R06.b', 'no attribute of a peek result is read where the peek may return None (reader, Buffer '
                    'scans)', floor=10)
    for (kind, fq, construct), ok in sorted(e.sites.items()):
        if kind == 'deref':
            rr.ob(ok, {'site': '%s: %s' % (fq, construct), 'item_known_in_every_context': ok})
    for f in e.findings.values():
        if f.kind in ('none-deref', 'unbound-local'):
            rr.fail(_finding('R06.b', f))
    return rr


def r06_c(ctx):
    e = engine(ctx)
    rr = RuleResult('R06.c', 'every loop of the reader and of the Buffer scans advances the cursor on every path to '
                    'its back edge', floor=1)
    for (fq, test), ok in sorted(e.loop_sites.items()):
        rr.ob(ok, {'loop': '%s: while %s' % (fq, test), 'progress_on_every_back_edge': ok})
    for f in e.findings.values():
        if f.kind in ('loop-without-progress', 'peek-wrapper-moves'):
            rr.fail(_finding('R06.c', f))
    return rr


def r06_e(ctx):
    e = engine(ctx)
    rr = RuleResult('R06.e', 'constant subscripts of argument lists in the reader are dominated by a non-emptiness '
                    'fact', floor=1)
    for (kind, fq, construct), ok in sorted(e.sites.items()):
        if kind == 'subscript':
            rr.ob(ok, {'site': '%s: %s' % (fq, construct), 'non_empty_known': ok})
    for f in e.findings.values():
        if f.kind == 'unguarded-subscript':
            rr.fail(_finding('R06.e', f))
    return rr


DIAGNOSTIC = {'EOFError', 'TypeError', 'AssertionError'}


def r06_d(ctx):
    """only diagnostic exception types are raised explicitly in parse-reachable code"""
    repo = ctx.repo
    cg = callgraph.graph(ctx)
    entry = repo.need_func('__init__.TexSoup')
    reach = cg.reachable([entry])
    rr = RuleResult('R06.d', 'every explicit raise reachable from TexSoup() raises EOFError, TypeError or '
                    'AssertionError', floor=4)
    n_funcs = 0
    for fd in sorted(reach, key=lambda f: f.fq):
        n_funcs += 1
        for n in ast.walk(fd.node):
            if isinstance(n, ast.Raise):
                if n.exc is None:
                    # bare re-raise: type of the handler
                    continue
                e = n.exc.func if isinstance(n.exc, ast.Call) else n.exc
                name = norm(e)
                ok = name in DIAGNOSTIC
                if not ok and isinstance(n.exc, ast.Call) and isinstance(e, ast.Name):
                    # `raise _malformed_argument(s)`: a helper that builds the exception -- what it returns counts
                    r_ = repo.resolve(fd.module, e.id)
                    if r_ and r_[0] == 'func':
                        rets = [x for x in ast.walk(r_[1].node) if isinstance(x, ast.Return)]
                        built = {norm(x.value.func) if isinstance(x.value, ast.Call) else norm(x.value) if x.value is not None else 'None'
                                 for x in rets}
                        if rets and built <= set(DIAGNOSTIC):
                            ok = True
                            name = '%s (built by %s)' % (sorted(built)[0], e.id)
                rr.ob(ok, {'function': fd.fq, 'raises': name})
                if not ok:
                    rr.fail(Finding('R06.d', fd.module.name, fd.qual, n,
                                    'parse-reachable code raises %s, which is not one of the parser\'s diagnostic '
                                    'errors' % name, line=n.lineno))
    ctx.stats['functions_analysed'] = n_funcs
    return rr


def r06_g(ctx):
    """subscripts of constant tables in the reader have their key pinned into the key set"""
    repo = ctx.repo
    mod = repo.modules['reader']
    rr = RuleResult('R06.g', 'every look-up in a constant table of the reader has its key pinned into the table\'s '
                    'key set by a dominating guard (in the function, or at every call site for a parameter)', floor=0)
    cg = callgraph.graph(ctx)
    for fd in mod.functions.values():
        for n in ast.walk(fd.node):
            if not (isinstance(n, ast.Subscript) and isinstance(n.ctx, ast.Load) and isinstance(n.value, ast.Name)):
                continue
            r = repo.resolve(mod, n.value.id)
            if not r or r[0] != 'const':
                continue
            try:
                table = repo.fold_global(mod, n.value.id)
            except Unfoldable:
                continue
            if not isinstance(table, dict):
                continue
            key = n.slice
            ok, why = _key_pinned(repo, cg, fd, n, key, table, n.value.id)
            rr.ob(ok, {'function': fd.fq, 'lookup': norm(n), 'pinned_by': why})
            if not ok:
                rr.fail(Finding('R06.g', 'reader', fd.qual, n,
                                'table look-up %s: the key is not pinned into the key set of %s on every path (%s): '
                                'KeyError can escape' % (norm(n), n.value.id, why), line=n.lineno))
    return rr


def _always_exits(stmts):
    """every path through the statement list leaves it (break / continue / return / raise)"""
    for st in stmts:
        if isinstance(st, (ast.Break, ast.Continue, ast.Return, ast.Raise)):
            return True
        if isinstance(st, ast.If) and st.orelse and _always_exits(st.body) and _always_exits(st.orelse):
            return True
    return False


def _touches_cursor(st):
    return any(isinstance(n, ast.Call) for n in ast.walk(st))


def _guards_dominating(fd, node):
    """list of (test, branch_taken): enclosing If statements of node, and preceding sibling
    `if T: <always exits>` statements with no call in between (syntactic dominance)"""
    out = []
    cur = node
    parent = getattr(cur, '_parent', None)
    while parent is not None and parent is not fd.node:
        if isinstance(parent, ast.If):
            if any(cur is s for s in parent.body):
                out.append((parent.test, True))
            elif any(cur is s for s in parent.orelse):
                out.append((parent.test, False))
        for field in ('body', 'orelse'):
            lst = getattr(parent, field, None)
            if isinstance(lst, list) and any(cur is s for s in lst):
                i = [k for k, s in enumerate(lst) if s is cur][0]
                j = i - 1
                while j >= 0:
                    sib = lst[j]
                    if isinstance(sib, ast.If):
                        if _always_exits(sib.body) and not sib.orelse:
                            out.append((sib.test, False))
                        elif sib.orelse and _always_exits(sib.orelse) and not _always_exits(sib.body):
                            out.append((sib.test, True))
                        if any(_touches_cursor(x) for x in sib.body + sib.orelse if not isinstance(x, (ast.Break, ast.Continue))) \
                                and not (_always_exits(sib.body) and not sib.orelse):
                            break
                    elif isinstance(sib, ast.Assert):
                        out.append((sib.test, True))
                    elif _touches_cursor(sib):
                        break
                    j -= 1
        cur, parent = parent, getattr(parent, '_parent', None)
    return out


def _pins_key(repo, module, test, truth, key_text, keys, table_name):
    """does `test` being `truth` pin key_text into keys?"""
    if isinstance(test, ast.BoolOp):
        if isinstance(test.op, ast.And) and truth:
            return any(_pins_key(repo, module, v, True, key_text, keys, table_name) for v in test.values)
        if isinstance(test.op, ast.Or) and not truth:
            return any(_pins_key(repo, module, v, False, key_text, keys, table_name) for v in test.values)
        return False
    if isinstance(test, ast.UnaryOp) and isinstance(test.op, ast.Not):
        return _pins_key(repo, module, test.operand, not truth, key_text, keys, table_name)
    if isinstance(test, ast.Compare) and len(test.ops) == 1 and norm(test.left) == key_text:
        op, r = test.ops[0], test.comparators[0]
        if isinstance(op, (ast.In, ast.NotIn)):
            want = isinstance(op, ast.In)
            if truth != want:
                return False
            rt = norm(r)
            if rt in (table_name, table_name + '.keys()'):
                return True
            try:
                v = Folder(repo, module).ev(r)
                return set(v) <= set(keys)
            except (Unfoldable, TypeError):
                return False
        if isinstance(op, (ast.Eq, ast.NotEq)):
            want = isinstance(op, ast.Eq)
            if truth != want:
                return False
            try:
                v = Folder(repo, module).ev(r)
                return v in keys
            except (Unfoldable, TypeError):
                return False
    return False


def _key_pinned(repo, cg, fd, node, key, table, table_name):
    module = fd.module
    key_text = norm(key)
    keys = list(table.keys())
    for test, truth in _guards_dominating(fd, node):
        if _pins_key(repo, module, test, truth, key_text, keys, table_name):
            return True, 'guard %s' % norm(test)[:60]
    # key derived from a parameter: p.category with p a parameter -> every call site must pin the argument
    if isinstance(key, ast.Attribute) and isinstance(key.value, ast.Name) and key.value.id in fd.params():
        pname, attr = key.value.id, key.attr
        idx = fd.params().index(pname)
        sites = cg.call_sites_of(fd)
        if not sites:
            return False, 'no call site found'
        for caller, call in sites:
            arg = None
            if idx < len(call.args):
                arg = call.args[idx]
            for kw in call.keywords:
                if kw.arg == pname:
                    arg = kw.value
            if arg is None:
                return False, 'argument not found at %s' % caller.qual
            ok = False
            guards = _guards_dominating(caller, call)
            if isinstance(arg, ast.Name):
                kt = '%s.%s' % (arg.id, attr)
                ok = any(_pins_key(repo, caller.module, t, tr, kt, keys, table_name) for t, tr in guards)
            elif isinstance(arg, ast.Call) and isinstance(arg.func, ast.Name) and arg.func.id == 'next' and arg.args:
                # next(cur) right after a guard on cur.peek().<attr>
                kt = '%s.peek().%s' % (norm(arg.args[0]), attr)
                ok = any(_pins_key(repo, caller.module, t, tr, kt, keys, table_name) for t, tr in guards)
            if not ok:
                return False, 'call site %s:%d does not pin %s.%s' % (caller.qual, call.lineno, pname, attr)
        return True, 'pinned at %d call sites' % len(sites)
    return False, 'no dominating guard'


def r06_h(ctx):
    """a rolled-back look-ahead must not be able to re-enter the function that issues it"""
    repo = ctx.repo
    cg = callgraph.graph(ctx)
    mod = repo.modules['reader']
    rr = RuleResult('R06.h', 'no look-ahead call that is rolled back and re-read can recurse into the reader that issues '
                    'it: otherwise every nesting level is parsed twice and parsing time doubles per level', floor=1)
    n = 0
    for fd in mod.functions.values():
        for call in ast.walk(fd.node):
            if not (isinstance(call, ast.Call) and isinstance(call.func, ast.Call) and isinstance(call.func.func, ast.Name)
                    and call.func.args and isinstance(call.func.args[0], ast.Name)):
                continue
            factory = repo.resolve(mod, call.func.func.id)
            target = repo.resolve(mod, call.func.args[0].id)
            if not (factory and factory[0] == 'func' and target and target[0] == 'func'):
                continue
            e = engine(ctx)
            if not e.peek_wrappers.get(factory[1]):
                continue
            n += 1
            # constant arguments that stop the callee from reading nested material are honoured:
            # (n_required, n_optional) == (0, 0) makes read_args return at once
            consts = [a.value for a in call.args[1:3] if isinstance(a, ast.Constant)]
            shallow = consts == [0, 0]
            reach = cg.reachable([target[1]])
            re_enters = fd in reach and not shallow
            rr.ob(not re_enters, {'look_ahead': '%s: %s' % (fd.qual, norm(call)[:70]), 're_enters_issuer': re_enters})
            if re_enters:
                rr.fail(Finding('R06.h', 'reader', fd.qual, call, 'the look-ahead %s parses a whole command (with all its '
                                'arguments, which can contain environments and items) and rolls it back before it is '
                                'parsed again; since the look-ahead can reach %s itself, nesting depth d costs 2^d: '
                                'mixed command/environment nesting of depth 40 does not terminate in practice'
                                % (norm(call.func), fd.qual), line=call.lineno))
    if n == 0:
        raise AnalysisError('no look-ahead call found in the reader')
    return rr


def r06_i(ctx):
    """format strings are constants"""
    repo = ctx.repo
    cg = callgraph.graph(ctx)
    entry = repo.need_func('__init__.TexSoup')
    rr = RuleResult('R06.i', 'every %-format applied in parse-reachable code has a constant format string: text taken from '
                    'the input never becomes part of a format (a stray % would raise ValueError/TypeError)', floor=3)
    for fd in sorted(cg.reachable([entry]), key=lambda f: f.fq):
        if fd.module.name not in ('reader', 'tokens', 'category', 'tex', '__init__', 'utils'):
            continue
        for n in ast.walk(fd.node):
            if isinstance(n, ast.BinOp) and isinstance(n.op, ast.Mod):
                from .model import resolve_locals
                left = n.left
                # integer modulo is not formatting
                if isinstance(left, ast.Constant) and not isinstance(left.value, str):
                    continue
                is_const = isinstance(left, ast.Constant) and isinstance(left.value, str)
                if not is_const and isinstance(left, ast.Name):
                    # a local built only from constants (single assignment, no augmented assignment)
                    aug = any(isinstance(x, ast.AugAssign) and isinstance(x.target, ast.Name) and x.target.id == left.id
                              for x in ast.walk(fd.node))
                    r = resolve_locals(fd.node, left)
                    is_const = not aug and all(isinstance(x, (ast.Constant, ast.BinOp, ast.Add, ast.Load)) for x in ast.walk(r))
                    if not is_const:
                        try:
                            is_const = isinstance(Folder(repo, fd.module).ev(left), str) and not aug
                        except Unfoldable:
                            pass
                looks_numeric = isinstance(left, (ast.Name, ast.Attribute, ast.Call)) and not is_const and \
                    not any(isinstance(x, ast.Constant) and isinstance(x.value, str) for x in ast.walk(n.right))
                if looks_numeric and isinstance(n.right, (ast.Constant,)) and isinstance(n.right.value, int):
                    continue
                rr.ob(is_const, {'function': fd.fq, 'format': norm(left)[:50]})
                if not is_const:
                    rr.fail(Finding('R06.i', fd.module.name, fd.qual, n, 'the format string %s is built at run time (it can '
                                    'contain text from the input): a %% in it raises ValueError / TypeError instead of the '
                                    'diagnostic error' % norm(left)[:40], line=n.lineno))
    return rr
