"""vcheck <ID> [--tier quick|thorough] [--replay <report.json>] [--repo <root>]

Static analysis of /repo/TexSoup/*.py (ast only -- the repository's code is never imported or
run).  Exit 0: every obligation discharged (open known findings printed as KNOWN-FINDING).
Exit 1 + `VIOLATION property=<ID> replay=<path>`: a construct of the current tree breaks a
rule.  Exit 2 + `ANALYSIS-ERROR`: the analysis could not be carried out.
"""
import json
import os
import sys
import time
import traceback

sys.path.insert(0, os.path.dirname(os.path.dirname(os.path.abspath(__file__))))

from sa.model import Repo, AnalysisError          # noqa: E402
from sa.core import Ctx, load_known, match_known, VERIF, Finding     # noqa: E402
from sa import props                               # noqa: E402


def analyse(prop, ctx):
    """-> list of RuleResult"""
    spec = props.PROPS[prop]
    results = []
    for fn in spec['rules']:
        rr = fn(ctx)
        if isinstance(rr, (list, tuple)):
            results += list(rr)
        else:
            results.append(rr)
    return results


def run_check(prop, tier='quick', seed=0, repo_root=None, replay=None, write=True, quiet=False):
    t0 = time.time()
    out = []

    def say(s):
        out.append(s)
        if not quiet:
            print(s)
    spec = props.PROPS[prop]
    ctx = Ctx(Repo(repo_root), tier=tier, seed=seed)
    results = analyse(prop, ctx)
    known = load_known()
    violations, knowns = [], []
    total_inst = total_dis = 0
    for rr in results:
        total_inst += rr.instances
        total_dis += rr.discharged
        if rr.instances < rr.floor:
            raise AnalysisError('rule %s matched %d instances, fewer than its floor %d (vacuous pass refused)'
                                % (rr.id, rr.instances, rr.floor))
        say('  %-8s instances=%-4d discharged=%-4d findings=%d  %s' % (rr.id, rr.instances, rr.discharged,
                                                                     len(rr.findings), rr.title[:90]))
        for f in rr.findings:
            k = match_known(prop, f, known)
            if k:
                knowns.append((f, k))
            else:
                violations.append(f)
    if replay:
        with open(replay) as fh:
            want = json.load(fh)
        violations = [f for f in violations if f.rule == want.get('rule') and f.construct == want.get('construct')
                      and f.function == want.get('function')]
    # controls / audit
    control_info = None
    if spec.get('controls') and not replay and os.environ.get('VERIF_NO_CONTROLS') != '1':
        from sa import controls
        control_info = controls.run_controls(prop, ctx, tier=tier, seed=seed)
        say('  controls: %d/%d fired' % (control_info['fired'], control_info['total']))
        if control_info['fired'] != control_info['total']:
            raise AnalysisError('positive control(s) did not fire: %s' % ', '.join(control_info['silent']))
        if tier == 'thorough':
            from sa import ablate
            try:
                limit = int(os.environ.get('VERIF_AUDIT_LIMIT', '64'))
            except ValueError:
                limit = 64
            audit = ablate.audit(prop, ctx, seed=seed, limit=limit)
            control_info['audit'] = audit
            if audit:
                say('  ablation audit: %d of %d sites sampled, %d applied, %d flagged, %d analysis-error, %d unflagged' % (
                    min(limit, audit['sites_total']), audit['sites_total'], audit['applied'], audit['flagged'],
                    audit['analysis_error'], audit['applied'] - audit['flagged'] - audit['analysis_error']))
    for f, k in knowns:
        say('KNOWN-FINDING: property=%s rule=%s %s -- %s' % (prop, f.rule, f.where(), k.get('what_fails', f.message)))
    rep_dir = os.path.join(VERIF, 'reports', prop)
    for f in violations:
        path = None
        if write:
            os.makedirs(rep_dir, exist_ok=True)
            name = '%s-%s.json' % (f.rule.replace('/', '_'), abs(hash((f.module, f.function, f.construct))) % 10 ** 8)
            import hashlib
            name = '%s-%s.json' % (f.rule.replace('/', '_'), hashlib.sha1(
                ('%s|%s|%s' % (f.module, f.function, f.construct)).encode()).hexdigest()[:10])
            path = os.path.join(rep_dir, name)
            with open(path, 'w') as fh:
                json.dump(f.to_json(prop), fh, indent=1, default=str)
        say('  violation: rule %s at %s: %s' % (f.rule, f.where(), f.message))
        say('             construct: %s' % f.construct)
        say('VIOLATION property=%s replay=%s' % (prop, path or '-'))
    wall = time.time() - t0
    if write and not replay:
        write_evidence(prop, spec, ctx, results, violations, knowns, control_info, wall, tier, seed)
    return (1 if violations else 0), results, violations, knowns


def write_evidence(prop, spec, ctx, results, violations, knowns, control_info, wall, tier, seed):
    samples = []
    for rr in results:
        for s in rr.samples[:3]:
            samples.append({'rule': rr.id, 'instance': s})
    inst = sum(rr.instances for rr in results)
    dis = sum(rr.discharged for rr in results)
    distinct = sum(len(rr.keys) for rr in results)
    cov = {
        'explanation': spec['explanation'],
        'decided_clauses': spec.get('decided', ''),
        'not_decided': spec.get('not_decided', ''),
        'rules': [rr.to_json() for rr in results],
        'obligations': inst,
        'discharged': dis,
        'evaluations': max(inst, 1),
        'distinct_nontrivial': distinct,
        'rule': 'one evaluation = one rule obligation (a site, path, call edge, class or abstract tokenizer outcome) '
                'computed from the current source; distinct = obligations with distinct (rule, construct) keys; '
                'trivial obligations (rules with no site) are refused by the per-rule instance floors',
        'samples': samples[:40] or [{'note': 'no samples'}],
        'functions_analysed': ctx.stats.get('functions_analysed', None),
        'abstract_states': ctx.stats.get('abstract_states', None),
        'checker_cmd': '/verif/vcheck %s --tier %s' % (prop, tier),
        'trusted_base': ['CPython ast', 'the analyser in /verif/sa', 'modelled semantics of list/str/dict builtins and of '
                         'the decorators property/to_list/to_buffer/token/functools.wraps',
                         'no module outside /repo/TexSoup monkey-patches it'],
        'source_digests': ctx.repo.digests(),
        'known_findings_open': [f.to_json(prop) for f, k in knowns],
        'violations_detail': [f.to_json(prop) for f in violations],
        'controls': control_info,
        'exhaustive': False,
    }
    for k in list(ctx.stats):
        cov.setdefault(k, ctx.stats[k])
    cov = {k: v for k, v in cov.items() if v is not None}
    ev = {
        'property_id': prop, 'tier': tier, 'seed': int(seed), 'level': 'other', 'coverage': cov,
        'assumptions': spec.get('assumptions', []) + [
            'only the clauses listed under decided_clauses are decided; the behaviour of the property as a whole is not',
            'the deciding step reads /repo/TexSoup/*.py and never executes it'],
        'wall_s': round(wall, 3), 'violations': len(violations),
    }
    os.makedirs(os.path.join(VERIF, 'evidence'), exist_ok=True)
    with open(os.path.join(VERIF, 'evidence', '%s.json' % prop), 'w') as fh:
        json.dump(ev, fh, indent=1, default=str)


def main(argv):
    import argparse
    ap = argparse.ArgumentParser()
    ap.add_argument('prop')
    ap.add_argument('--tier', default=os.environ.get('VERIF_TIER', 'quick'))
    ap.add_argument('--replay')
    ap.add_argument('--repo', default=None)
    a = ap.parse_args(argv)
    if a.tier not in ('quick', 'thorough'):
        a.tier = 'quick'
    try:
        seed = int(os.environ.get('VERIF_SEED', '0'))
    except ValueError:
        seed = 0
    if a.prop not in props.PROPS:
        print('ANALYSIS-ERROR unknown property %s' % a.prop)
        return 2
    print('vcheck %s tier=%s (static analysis of %s)' % (a.prop, a.tier, a.repo or os.environ.get('VERIF_REPO', '/repo')))
    try:
        code, *_ = run_check(a.prop, a.tier, seed, a.repo, a.replay)
    except AnalysisError as e:
        print('ANALYSIS-ERROR property=%s %s' % (a.prop, e))
        return 2
    except Exception:       # noqa
        traceback.print_exc()
        print('ANALYSIS-ERROR property=%s internal error' % a.prop)
        return 2
    print('%s %s' % ('FAIL' if code else 'PASS', a.prop))
    return code


if __name__ == '__main__':
    sys.exit(main(sys.argv[1:]))
