"""Rules over the tokenizer dispatch table (engine E5): R19.b-g, R06.b (tokens part),
R09.a, R10.a-b, R12.a, R17.e, plus the structural rules R19.a (categorize) and R19.f (driver)."""
import ast

from .model import AnalysisError, Folder, Unfoldable, FEnumMember, norm
from .core import RuleResult, Finding
from . import abstok
from .abstok import EOF, BOF, M
from .interp import strip_doc


def alphabet(ctx):
    """the abstract alphabet alone (category table folded, first-match semantics) -- no tokenizer exploration"""
    return ctx.memo('alphabet', lambda: abstok.Alphabet(ctx.repo))


def table(ctx):
    return ctx.memo('tok.table', lambda: abstok.explore(ctx.repo, thorough=(ctx.tier == 'thorough')))


def _rule_fn(t, rule):
    for name, fd in t.registry:
        if name == rule:
            return fd
    return None


def _win(rec):
    w = rec['window']
    return {'before': w[0], 'at_cursor': w[1], 'next': w[2], 'prev_token': w[3]}


def _emit(rec):
    """the log entry of the rule whose token the driver returned"""
    for e in reversed(rec['log']):
        if e[0] == 'emit':
            return e
    return None


def _silent(rec):
    return [e for e in rec['log'] if e[0] == 'silent']


def _fn_line(fd):
    return fd.node.lineno


def _mk(rule, fd, construct, msg, rec=None, extra=None):
    trace = None
    if rec is not None:
        trace = {'entry_window': _win(rec), 'round_log': [(e[0], e[1], str(e[3]), sorted(e[4][0])) for e in rec['log'] if e[0] != 'declined']}
        if extra:
            trace.update(extra)
    return Finding(rule, 'tokens', fd.qual if fd is not None else 'next_token', construct, msg,
                   line=_fn_line(fd) if fd is not None else 0, trace=trace)


def interp_findings(ctx, kinds, rule_id, title, floor=0):
    """findings recorded by the abstract interpreter itself (dereferences, concatenations...)"""
    t = table(ctx)
    rr = RuleResult(rule_id, title, floor)
    for k, f in t.findings.items():
        if f.kind not in kinds:
            continue
        if f.imprecise:
            raise AnalysisError('finding %s at %s only under an unmodelled condition' % (f.kind, f.fn))
        wins = sorted(t.finding_windows[k])
        fd = ctx.repo.modules['tokens'].functions.get(f.fn)
        rr.fail(Finding(rule_id, 'tokens', f.fn, f.construct(), '%s: %s' % (f.kind, f.detail),
                        line=getattr(f.node, 'lineno', 0),
                        trace={'entry_windows': [dict(zip(('before', 'at_cursor', 'next', 'prev_token'), w)) for w in wins[:6]],
                               'n_windows': len(wins)}))
    return rr


def r19_b(ctx):
    """rules emit exactly what they consume; None paths restore the cursor (NUL/DEL licence)"""
    t = table(ctx)
    A = t.alphabet
    rr = RuleResult('R19.b', 'every rule emits exactly the characters it consumes; a rule that emits nothing '
                    'restores the cursor, except for runs of Ignored/Invalid characters', floor=30)
    licence = {s for s in A.syms if A.ccname(s) in ('Ignored', 'Invalid')}
    seen = set()
    for rec in t.records:
        for e in rec['log']:
            if e[0] == 'declined':
                continue
            key = (e[0], e[1], e[2], e[3], e[4])
            if key in seen:
                continue
            seen.add(key)
            fd = _rule_fn(t, e[1])
            if e[0] == 'emit':
                tok = e[2]
                ok = tok.start == 0 and tok.lag == 0 and not tok.invented
                rr.ob(ok, {'rule': e[1], 'kind': 'emit', 'moved': str(e[3]), 'span_is_entry_to_cursor': ok})
                if not ok:
                    what = []
                    if tok.start != 0:
                        what.append('token text starts %s characters after the rule entry' % tok.start)
                    if tok.lag != 0:
                        what.append('token text ends %s characters before the cursor' % tok.lag)
                    if tok.invented:
                        what.append('token contains text that was not read from the input')
                    rr.fail(_mk('R19.b', fd, 'rule %s: emitted span != consumed span' % e[1],
                                'tokenizer rule %r returns a token whose text is not exactly the characters it '
                                'consumed (%s): characters are lost or duplicated' % (e[1], '; '.join(what)), rec))
            else:
                ok = e[4][0] <= licence
                rr.ob(ok, {'rule': e[1], 'kind': 'silent', 'moved': str(e[3]), 'consumed': sorted(e[4][0])})
                if not ok:
                    rr.fail(_mk('R19.b', fd, 'rule %s: consumes without emitting' % e[1],
                                'tokenizer rule %r returns no token but leaves the cursor advanced over %s: '
                                'those characters appear in no token' % (e[1], sorted(e[4][0] - licence)), rec))
    for k, f in t.findings.items():
        if f.kind in ('non-contiguous-concat', 'invented-text', 'rollback-before-entry', 'forward-past-end'):
            if f.imprecise:
                raise AnalysisError('finding %s at %s only under an unmodelled condition' % (f.kind, f.fn))
            fd = ctx.repo.modules['tokens'].functions.get(f.fn)
            rr.ob(False)
            rr.fail(Finding('R19.b', 'tokens', f.fn, f.construct(), '%s: %s' % (f.kind, f.detail),
                            line=getattr(f.node, 'lineno', 0),
                            trace={'entry_windows': [list(w) for w in sorted(t.finding_windows[k])[:6]]}))
    return rr


def r19_c(ctx):
    t = table(ctx)
    rr = RuleResult('R19.c', 'no reachable driver state returns a token whose text can be empty', floor=20)
    seen = set()
    for rec in t.records:
        if rec['result'] != 'token':
            continue
        e = _emit(rec)
        if e is None:
            raise AnalysisError('driver returned a token no rule emitted')
        moved_before = bool(_silent(rec))
        key = (e[1], e[2], moved_before, rec['window'][:2])
        if key in seen:
            continue
        seen.add(key)
        tok = e[2]
        ok = tok.minlen >= 1
        rr.ob(ok, {'rule': e[1], 'window': list(rec['window']), 'min_length': tok.minlen})
        if not ok:
            fd = _rule_fn(t, e[1])
            rr.fail(_mk('R19.c', fd, 'rule %s: may return an empty token%s' % (
                e[1], ' after an earlier rule of the same round moved the cursor' if moved_before else ''),
                'tokenizer rule %r can return a token with empty text (the driver treats it as a token; '
                'an empty token ends the token stream for every consumer that tests truthiness)' % e[1], rec))
    return rr


def r19_d(ctx):
    t = table(ctx)
    A = t.alphabet
    rr = RuleResult('R19.d', 'every driver round returns a token or strictly advances the cursor; every category '
                    'at the cursor is handled by some rule', floor=len(A.syms))
    handled = {}
    for rec in t.records:
        c0 = rec['window'][1]
        if rec['result'] == 'token':
            handled.setdefault(c0, set()).add('token')
        elif rec['result'] == 'round-end':
            if rec['cur'] == 0:
                handled.setdefault(c0, set()).add('stuck')
                rr.fail(_mk('R19.d', t.driver, 'driver round without progress at category %s' % A.ccname(c0),
                            'with a %s character at the cursor no rule emits a token and none advances the cursor: '
                            'the driver loop never terminates' % A.ccname(c0), rec))
            else:
                handled.setdefault(c0, set()).add('progress')
        elif rec['result'] == 'none':
            handled.setdefault(c0, set()).add('gives-up')
            rr.fail(_mk('R19.d', t.driver, 'driver returns no token with input left at category %s' % A.ccname(c0),
                        'the driver returns None although characters remain: the rest of the input is dropped', rec))
        elif rec['result'] == 'raise':
            handled.setdefault(c0, set()).add('raise')
    for c0 in A.syms:
        h = handled.get(c0, set())
        ok = bool(h) and not (h & {'stuck', 'gives-up'})
        rr.ob(ok, {'category_at_cursor': c0, 'outcomes': sorted(h)})
        if not h:
            raise AnalysisError('no abstract outcome for category %s' % c0)
    return rr


def r19_e(ctx):
    t = table(ctx)
    rr = RuleResult('R19.e', 'the position of every returned token is the offset of the first character it '
                    'consumed', floor=8)
    seen = set()
    for rec in t.records:
        if rec['result'] != 'token':
            continue
        e = _emit(rec)
        tok = e[2]
        key = (e[1], tok.pos, tok.start)
        if key in seen:
            continue
        seen.add(key)
        ok = tok.pos in (('first', 0), ('cursor', 0))
        rr.ob(ok, {'rule': e[1], 'position_provenance': list(map(str, tok.pos))})
        if not ok:
            fd = _rule_fn(t, e[1])
            desc = {'first': 'the position of the character %s after the rule entry',
                    'cursor': 'the cursor position read after consuming %s characters'}.get(tok.pos[0], 'an untracked value%s')
            rr.fail(_mk('R19.e', fd, 'rule %s: token position is not the offset of its first character' % e[1],
                        'tokenizer rule %r records as token position %s' % (e[1], desc % (tok.pos[1] if len(tok.pos) > 1 else '')), rec))
    return rr


def r19_g(ctx):
    t = table(ctx)
    A = t.alphabet
    tcvals = {int(m) for m in A.TC}
    rr = RuleResult('R19.g', 'every returned token carries a token kind assigned by its rule (never the inherited '
                    'character category)', floor=11)
    seen = set()
    for rec in t.records:
        if rec['result'] != 'token':
            continue
        e = _emit(rec)
        tok = e[2]
        key = (e[1], tok.kind)
        if key in seen:
            continue
        seen.add(key)
        ok = tok.kind is not None and tok.kind[0] == 'tc' and set(tok.kind[1]) <= tcvals and len(tok.kind[1]) >= 1
        names = []
        if tok.kind and tok.kind[0] == 'tc':
            for v in sorted(tok.kind[1]):
                names += [m.mname for m in A.TC.by_value(v)] or ['?%d' % v]
        rr.ob(ok, {'rule': e[1], 'kinds': names})
        if not ok:
            fd = _rule_fn(t, e[1])
            rr.fail(_mk('R19.g', fd, 'rule %s: token kind not assigned' % e[1],
                        'tokenizer rule %r returns a token whose category is %s, not a token kind it assigned; '
                        'the reader would misread it (character categories alias token kinds numerically)' % (
                            e[1], 'inherited from a character' if tok.kind else 'None'), rec))
    return rr


def r19_a(ctx):
    """categorize: one yield of Token(<loop char>, <enumerate index>, <category>) per character, on every path"""
    repo = ctx.repo
    fd = repo.need_func('category.categorize')
    rr = RuleResult('R19.a', 'the categoriser yields exactly one token per character, carrying that character, '
                    'its own enumerate index and one category', floor=2)
    body = strip_doc(fd.node.body)
    loops = [s for s in body if isinstance(s, ast.For)]
    others = [s for s in body if not isinstance(s, ast.For)]
    if len(loops) != 1:
        raise AnalysisError('categorize: expected exactly one loop over the input')
    for s in others:
        for n in ast.walk(s):
            if isinstance(n, (ast.Yield, ast.YieldFrom)):
                rr.ob(False)
                rr.fail(Finding('R19.a', 'category', 'categorize', s, 'a yield outside the per-character loop adds or '
                                'repeats tokens', line=s.lineno))
    loop = loops[0]
    params = fd.params()
    it = loop.iter
    ok_iter = (isinstance(it, ast.Call) and isinstance(it.func, ast.Name) and it.func.id == 'enumerate'
               and len(it.args) >= 1 and isinstance(it.args[0], ast.Name) and it.args[0].id == params[0])
    start_ok = True
    if ok_iter:
        extra = list(it.args[1:]) + [k.value for k in it.keywords]
        for x in extra:
            start_ok = isinstance(x, ast.Constant) and x.value == 0
    tgt_ok = isinstance(loop.target, ast.Tuple) and len(loop.target.elts) == 2 and all(
        isinstance(e, ast.Name) for e in loop.target.elts)
    rr.ob(ok_iter and start_ok and tgt_ok, {'loop': norm(loop.iter)})
    if not (ok_iter and start_ok and tgt_ok):
        rr.fail(Finding('R19.a', 'category', 'categorize', 'for %s in %s' % (norm(loop.target), norm(loop.iter)),
                        'the categoriser does not iterate enumerate(<input>) from 0: indices are not the character offsets',
                        line=loop.lineno))
        return rr
    idx, ch = loop.target.elts[0].id, loop.target.elts[1].id
    # names rebound inside the loop invalidate the def-use argument
    for n in ast.walk(loop):
        if isinstance(n, ast.Name) and isinstance(n.ctx, ast.Store) and n.id in (idx, ch) and n is not loop.target.elts[0] \
                and n is not loop.target.elts[1]:
            rr.ob(False)
            rr.fail(Finding('R19.a', 'category', 'categorize', n._parent if hasattr(n, '_parent') else n,
                            'the loop rebinds %s before yielding' % n.id, line=n.lineno))
    # the category is a function of the character alone: no state carried from one character to the next, no look at
    # the neighbouring input (the tokenizer abstraction of E5 rests on this)
    before = set()
    for s_ in body:
        if s_ is loop:
            break
        for n in ast.walk(s_):
            if isinstance(n, ast.Name) and isinstance(n.ctx, ast.Store):
                before.add(n.id)
    stored_in = {n.id for n in ast.walk(loop) if isinstance(n, ast.Name) and isinstance(n.ctx, ast.Store)} - {idx, ch}
    loaded_in = {n.id for s_ in loop.body for n in ast.walk(s_) if isinstance(n, ast.Name) and isinstance(n.ctx, ast.Load)}
    carried = sorted(stored_in & before & loaded_in)
    looks = [n for s_ in loop.body for n in ast.walk(s_) if isinstance(n, ast.Name) and n.id == params[0]]
    rr.ob(not carried and not looks, {'state_carried_between_characters': carried, 'reads_of_the_input_inside_the_loop': len(looks)})
    if carried:
        rr.fail(Finding('R19.a', 'category', 'categorize', 'state carried across characters: %s' % ', '.join(carried),
                        'the categoriser keeps state from one character to the next (%s): the category of a character then '
                        'depends on what came before it -- also on text inside comments and verbatim bodies, which must '
                        'stay inert' % ', '.join(carried), line=loop.lineno))
    if looks:
        rr.fail(Finding('R19.a', 'category', 'categorize', looks[0]._parent if hasattr(looks[0], '_parent') else looks[0],
                        'the categoriser inspects the input around the current character: the category of a character is '
                        'no longer a function of the character alone', line=looks[0].lineno))
    # enumerate paths through the loop body counting yields
    paths = _yield_paths(loop.body)
    if len(paths) > 256:
        raise AnalysisError('categorize: too many paths')
    for p in paths:
        ys = p['yields']
        ok = len(ys) == 1 and not p['exits']
        good_args = False
        if len(ys) == 1:
            y = ys[0]
            c = y.value
            if isinstance(c, ast.Call) and isinstance(c.func, ast.Name) and c.func.id == 'Token':
                kw_ = {k.arg: k.value for k in c.keywords if k.arg}
                a3 = [c.args[i] if i < len(c.args) else kw_.get(nm_) for i, nm_ in enumerate(('text', 'position', 'category'))]
            if isinstance(c, ast.Call) and isinstance(c.func, ast.Name) and c.func.id == 'Token' and all(x is not None for x in a3) \
                    and len(c.args) + len(c.keywords) == 3:
                a0, a1, a2 = a3
                good_args = isinstance(a0, ast.Name) and a0.id == ch and isinstance(a1, ast.Name) and a1.id == idx
                if good_args:
                    # category: a constant CC member, the loop variable of the table scan, a helper that is that scan,
                    # or a conditional expression choosing between those
                    def is_cat(a):
                        if isinstance(a, ast.IfExp):
                            return is_cat(a.body) and is_cat(a.orelse)
                        try:
                            v = Folder(repo, fd.module).ev(a)
                            return isinstance(v, FEnumMember) and v.enum.name == alphabet(ctx).CC.name
                        except Unfoldable:
                            return isinstance(a, ast.Name) or (
                                abstok.table_scan_helper(repo, fd.module, a) is not None
                                and isinstance(a.args[0], ast.Name) and a.args[0].id == ch) \
                                or abstok.table_scan_expr(repo, fd.module, a, ch) is not None
                    good_args = is_cat(a2)
        rr.ob(ok and good_args, {'path': p['desc'], 'yields': len(ys)})
        if not ok:
            rr.fail(Finding('R19.a', 'category', 'categorize', 'loop path [%s]: %d yields%s' % (
                p['desc'], len(ys), ', leaves the loop' if p['exits'] else ''),
                'on the path [%s] through the per-character loop the categoriser yields %d tokens%s: a character '
                'gets no category or several' % (p['desc'], len(ys), ' and abandons the input' if p['exits'] else ''),
                line=loop.lineno))
        elif not good_args:
            rr.fail(Finding('R19.a', 'category', 'categorize', ys[0],
                            'the yielded token is not Token(<the character>, <its enumerate index>, <category>)',
                            line=ys[0].lineno))
    return rr


def r19_a_precondition(ctx):
    """R19.a as the soundness precondition of the tokenizer abstraction, for properties that do not themselves speak
    about categorisation: when it fails, those properties are not decidable by E5 (exit 2), they are not violated"""
    rr = r19_a(ctx)
    if rr.findings:
        raise AnalysisError('the categoriser is not a per-character table look-up (%s): the tokenizer abstraction does not '
                            'apply to this tree' % rr.findings[0].construct[:80])
    return rr


def r19_f_precondition(ctx):
    """R19.f as the soundness precondition of the tokenizer table for properties about what the rules do: the table
    describes the driver and the rules; it describes the token stream only if the generator passes the driver's tokens
    through unchanged.  When it does not, those properties are not decidable from the table (exit 2)."""
    rr = r19_f(ctx)
    if rr.findings:
        raise AnalysisError('the token generator does not pass the driver\'s tokens through one by one (%s): the '
                            'tokenizer table does not describe the token stream of this tree' % rr.findings[0].construct[:80])
    return rr


def _yield_paths(stmts):
    """paths through a statement list (If only; inner loops are treated as yield-free if they contain none)"""
    paths = [{'yields': [], 'desc': '', 'exits': False, 'done': False}]

    def walk(stmts, paths):
        for s in stmts:
            nxt = []
            for p in paths:
                if p['done']:
                    nxt.append(p)
                    continue
                if isinstance(s, ast.If):
                    a = dict(p, yields=list(p['yields']), desc=(p['desc'] + ' ' + norm(s.test)[:30] + '=T').strip())
                    b = dict(p, yields=list(p['yields']), desc=(p['desc'] + ' ' + norm(s.test)[:30] + '=F').strip())
                    nxt += walk(s.body, [a]) + walk(s.orelse, [b])
                elif isinstance(s, (ast.For, ast.While)):
                    if any(isinstance(n, (ast.Yield, ast.YieldFrom)) for n in ast.walk(s)):
                        raise AnalysisError('categorize: yield inside a nested loop')
                    nxt.append(p)
                elif isinstance(s, (ast.Return, ast.Raise)):
                    nxt.append(dict(p, exits=True, done=True))
                elif isinstance(s, ast.Break):
                    nxt.append(dict(p, exits=True, done=True))
                elif isinstance(s, ast.Continue):
                    nxt.append(dict(p, done=True))
                else:
                    ys = [n for n in ast.walk(s) if isinstance(n, (ast.Yield, ast.YieldFrom))]
                    nxt.append(dict(p, yields=p['yields'] + ys))
            paths = nxt
        return paths
    return walk(stmts, paths)


def r19_f(ctx):
    """tokenize: every non-None result of next_token is yielded exactly once, in order; the generator ends only when
    the driver returned None.  Decided by a small path-sensitive abstract interpretation of the generator: a driver
    call returns a fresh token or None (both explored); `is None` / `is not None` tests refine; loops run to a
    fixpoint over (variable -> token identity / None, yields per live token, last driver result, last yielded)."""
    repo = ctx.repo
    fd = repo.need_func('tokens.tokenize')
    rr = RuleResult('R19.f', 'the token generator yields every token the driver returns exactly once and stops '
                    'only when the driver returns None', floor=3)
    body = strip_doc(fd.node.body)
    findings = []

    def is_driver_call(n):
        return isinstance(n, ast.Call) and isinstance(n.func, ast.Name) and n.func.id == 'next_token'

    # state: (vars: tuple of (name, tokid|None) sorted, yields: tuple of (tokid, n) sorted, last: 'tok'|'none'|'start',
    #         lasty: tokid|None)
    def mk(vars_, yields, last, lasty):
        live = {v for _, v in vars_.items() if v is not None}
        for t, n in list(yields.items()):
            if t not in live and t != lasty:
                if n != 1:
                    return None, t, n
                del yields[t]
        return (tuple(sorted(vars_.items())), tuple(sorted(yields.items())), last, lasty), None, None

    def canon(st, node):
        vars_, yields, last, lasty = dict(st[0]), dict(st[1]), st[2], st[3]
        live = {v for v in vars_.values() if v is not None}
        for t, n in list(yields.items()):
            if t not in live:
                if n != 1:
                    findings.append((node, 'a token returned by the driver is %s' % (
                        'dropped without being yielded' if n == 0 else 'yielded %d times' % n)))
                del yields[t]
        # rename token ids canonically
        ren = {}
        for name in sorted(vars_):
            v = vars_[name]
            if v is not None and v not in ren:
                ren[v] = len(ren)
        if lasty is not None and lasty not in ren:
            lasty_c = 'gone'
        else:
            lasty_c = ren.get(lasty) if lasty is not None else None
        return (tuple(sorted((k, (ren[v] if v is not None else None)) for k, v in vars_.items())),
                tuple(sorted((ren[t], n) for t, n in yields.items())), last, lasty_c)

    def value_of(e, st):
        """('tok', id) | ('none',) | ('unknown',)"""
        vars_ = dict(st[0])
        if isinstance(e, ast.Name) and e.id in vars_:
            return ('tok', vars_[e.id]) if vars_[e.id] is not None else ('none',)
        if isinstance(e, ast.Constant) and e.value is None:
            return ('none',)
        return ('unknown',)

    def assign(st, name, val, node):
        vars_, yields = dict(st[0]), dict(st[1])
        vars_[name] = val
        return canon((tuple(vars_.items()), tuple(yields.items()), st[2], st[3]), node)

    def driver_call(st, call, node):
        """-> list of (value, state)"""
        # the prev argument: the token yielded last (or nothing before the first yield)
        prev = None
        for k in call.keywords:
            if k.arg == 'prev':
                prev = k.value
        if prev is None and len(call.args) > 1:
            prev = call.args[1]
        pv = value_of(prev, st) if prev is not None else ('none',)
        lasty = st[3]
        if lasty == 'gone' or (pv[0] == 'tok' and pv[1] != lasty) or (pv[0] == 'none' and lasty is not None) or pv[0] == 'unknown':
            findings.append((call, 'the driver is not given the token yielded last as its `prev` argument'))
        vars_, yields = dict(st[0]), dict(st[1])
        new = max([v for v in vars_.values() if v is not None] + list(yields) + [-1]) + 1
        y2 = dict(yields)
        y2[new] = 0
        s_tok = (tuple(vars_.items()), tuple(y2.items()), 'tok', st[3])
        s_none = (tuple(vars_.items()), tuple(yields.items()), 'none', st[3])
        return [(new, s_tok), (None, s_none)]

    def cond(t, st):
        """-> list of (bool, state)"""
        if isinstance(t, ast.Constant):
            return [(bool(t.value), st)]
        if isinstance(t, ast.UnaryOp) and isinstance(t.op, ast.Not):
            return [(not b, s_) for b, s_ in cond(t.operand, st)]
        if isinstance(t, ast.Compare) and isinstance(t.left, ast.NamedExpr) and isinstance(t.left.target, ast.Name):
            # (tok := <value>) is None  ==  tok = <value>; tok is None
            asg = ast.copy_location(ast.Assign([ast.Name(t.left.target.id, ast.Store())], t.left.value), t)
            t2 = ast.copy_location(ast.Compare(ast.Name(t.left.target.id, ast.Load()), t.ops, t.comparators), t)
            ast.fix_missing_locations(asg)
            ast.fix_missing_locations(t2)
            return [r for _oc, st2 in step(asg, st) for r in cond(t2, st2)]
        if isinstance(t, ast.Compare) and len(t.ops) == 1 and isinstance(t.ops[0], (ast.Is, ast.IsNot)) \
                and isinstance(t.comparators[0], ast.Constant) and t.comparators[0].value is None:
            v = value_of(t.left, st)
            if v[0] == 'unknown':
                raise AnalysisError('tokenize: test %s not decidable' % norm(t))
            r = (v[0] == 'none')
            return [(r if isinstance(t.ops[0], ast.Is) else not r, st)]
        if isinstance(t, ast.Name) and value_of(t, st)[0] != 'unknown':
            # truthiness of a token: an empty token is falsy -- the loop could stop early; R19.c forbids empty tokens,
            # so this is reported as what it is
            findings.append((t, 'the generator tests the truth value of a token instead of `is None`: it would stop '
                             'at an empty token before the driver is exhausted'))
            v = value_of(t, st)
            return [(v[0] == 'tok', st)]
        if isinstance(t, ast.Call) and isinstance(t.func, ast.Attribute) and t.func.attr == 'hasNext' and not t.args \
                and not t.keywords and isinstance(t.func.value, ast.Name) and t.func.value.id in fd.params() \
                and driver_none_when_exhausted():
            # input left: nothing is known about the next driver result (it may still be None: only ignorable
            # characters left); no input left: the driver would answer None
            return [(True, st), (False, (st[0], st[1], 'none', st[3]))]
        raise AnalysisError('tokenize: test %s not decidable' % norm(t))

    def driver_none_when_exhausted():
        """next_token is `while <buffer>.hasNext(): ...` followed by nothing that returns a value"""
        nt = repo.need_func('tokens.next_token')
        b = strip_doc(nt.node.body)
        p0 = nt.params()[0] if nt.params() else None
        return bool(b) and isinstance(b[0], ast.While) and norm(b[0].test) == '%s.hasNext()' % p0 and not b[0].orelse and all(
            not (isinstance(x, ast.Return) and x.value is not None and not (isinstance(x.value, ast.Constant) and x.value.value is None))
            for s_ in b[1:] for x in ast.walk(s_))

    def run(stmts, states):
        """states: set of canonical states; returns dict outcome -> set of states (outcomes next/break/continue/return)"""
        out = {'next': set(states), 'break': set(), 'continue': set(), 'return': set()}
        for s_ in stmts:
            cur = out['next']
            out['next'] = set()
            for st in cur:
                for oc, st2 in step(s_, st):
                    out[oc].add(st2)
        return out

    def step(s_, st):
        if isinstance(s_, ast.Assign) and len(s_.targets) == 1 and isinstance(s_.targets[0], ast.Name):
            name = s_.targets[0].id
            v = s_.value
            if is_driver_call(v):
                return [('next', assign(st2, name, val, s_)) for val, st2 in driver_call(st, v, s_)]
            if isinstance(v, ast.IfExp):
                res = []
                for b, st2 in cond(v.test, st):
                    br = v.body if b else v.orelse
                    if is_driver_call(br):
                        res += [('next', assign(st3, name, val, s_)) for val, st3 in driver_call(st2, br, s_)]
                    else:
                        vv = value_of(br, st2)
                        if vv[0] == 'unknown':
                            raise AnalysisError('tokenize: assignment %s not decidable' % norm(s_))
                        res.append(('next', assign(st2, name, vv[1] if vv[0] == 'tok' else None, s_)))
                return res
            vv = value_of(v, st)
            if vv[0] == 'unknown':
                if any(is_driver_call(x) for x in ast.walk(v)):
                    raise AnalysisError('tokenize: driver call inside %s' % norm(s_))
                if name in dict(st[0]):
                    return [('next', assign(st, name, None, s_))]
                return [('next', st)]
            return [('next', assign(st, name, vv[1] if vv[0] == 'tok' else None, s_))]
        if isinstance(s_, ast.Expr) and isinstance(s_.value, ast.Yield):
            v = value_of(s_.value.value, st) if s_.value.value is not None else ('unknown',)
            if v[0] != 'tok':
                findings.append((s_, 'yields something that is not a token the driver returned'))
                return [('next', st)]
            yields = dict(st[1])
            yields[v[1]] = yields.get(v[1], 0) + 1
            if yields[v[1]] > 1:
                findings.append((s_, 'a token returned by the driver is yielded %d times' % yields[v[1]]))
                yields[v[1]] = 1
            return [('next', canon((st[0], tuple(yields.items()), st[2], v[1]), s_))]
        if isinstance(s_, ast.Expr) and isinstance(s_.value, ast.YieldFrom):
            findings.append((s_, 'yield from in the token generator'))
            return [('next', st)]
        if isinstance(s_, ast.Expr):
            if any(is_driver_call(x) for x in ast.walk(s_)):
                findings.append((s_, 'a token returned by the driver is dropped without being yielded'))
            return [('next', st)]
        if isinstance(s_, (ast.Assert, ast.Pass)):
            return [('next', st)]
        if isinstance(s_, ast.Break):
            return [('break', st)]
        if isinstance(s_, ast.Continue):
            return [('continue', st)]
        if isinstance(s_, ast.Return):
            return [('return', st)]
        if isinstance(s_, ast.If):
            res = []
            for b, st2 in cond(s_.test, st):
                o = run(s_.body if b else s_.orelse, {st2})
                for oc, sts in o.items():
                    res += [(oc, x) for x in sts]
            return res
        if isinstance(s_, ast.While):
            seen, work, exits = set(), [st], []
            while work:
                c = work.pop()
                if c in seen:
                    continue
                seen.add(c)
                if len(seen) > 500:
                    raise AnalysisError('tokenize: generator loop does not stabilise')
                for b, c2 in cond(s_.test, c):
                    if not b:
                        o = run(s_.orelse, {c2})
                        exits += [('next', x) for x in o['next']] + [('return', x) for x in o['return']]
                        continue
                    o = run(s_.body, {c2})
                    work += list(o['next']) + list(o['continue'])
                    exits += [('next', x) for x in o['break']] + [('return', x) for x in o['return']]
            return exits
        raise AnalysisError('tokenize: unsupported statement %s' % type(s_).__name__)

    start = ((), (), 'start', None)
    # parameters are not tokens
    o = run(body, {start})
    ends = list(o['next']) + list(o['return'])
    for st in ends:
        st_end = canon((tuple((k, None) for k, _ in st[0]), st[1], st[2], st[3]), fd.node)    # locals die: unyielded tokens are reported
        if st[2] != 'none':
            findings.append((fd.node, 'the generator can end although the driver\'s last result was a token (or it was '
                             'never asked): input left in the buffer is not tokenized'))
    n_calls = sum(1 for n in ast.walk(fd.node) if is_driver_call(n))
    n_yields = sum(1 for n in ast.walk(fd.node) if isinstance(n, ast.Yield))
    rr.ob(n_calls >= 1, {'driver_calls': n_calls})
    rr.ob(n_yields >= 1, {'yields': n_yields})
    rr.ob(bool(ends), {'generator_exit_states': len(ends)})
    for n in ast.walk(fd.node):
        if is_driver_call(n):
            rr.ob(True, {'call': norm(n)})
    uniq = {}
    for node, msg in findings:
        uniq.setdefault((norm(node)[:120] if not isinstance(node, ast.FunctionDef) else 'def tokenize', msg), node)
    for (c, msg), node in uniq.items():
        rr.ob(False)
        rr.fail(Finding('R19.f', 'tokens', 'tokenize', c, msg, line=getattr(node, 'lineno', 0)))
    if n_calls == 0:
        raise AnalysisError('tokenize: the call of the driver next_token vanished')
    if n_yields == 0:
        rr.fail(Finding('R19.f', 'tokens', 'tokenize', 'no yield of the driver token',
                        'the token generator never yields the tokens the driver returns', line=fd.node.lineno))
    if not ends:
        raise AnalysisError('tokenize: the generator has no exit')
    return rr


def r19_h(ctx):
    """the driver works on the categorised character buffer itself: positions read from the cursor are source
    offsets only if no character has been filtered out or re-wrapped before"""
    repo = ctx.repo
    fd = repo.need_func('tokens.tokenize')
    rr = RuleResult('R19.h', 'the token generator hands the categorised character buffer itself to the driver (it is not '
                    'filtered or re-wrapped first), so cursor positions are source offsets', floor=1)

    def is_driver_call(n):
        return isinstance(n, ast.Call) and isinstance(n.func, ast.Name) and n.func.id == 'next_token'
    n_calls = sum(1 for n in ast.walk(fd.node) if is_driver_call(n))
    n_yields = 1
    pname = fd.params()[0] if fd.params() else None
    for n in ast.walk(fd.node):
        if isinstance(n, ast.Name) and isinstance(n.ctx, ast.Store) and n.id == pname:
            st_ = n
            while st_ is not None and not isinstance(st_, ast.stmt):
                st_ = getattr(st_, '_parent', None)
            rr.ob(False)
            rr.fail(Finding('R19.f', 'tokens', 'tokenize', st_ if st_ is not None else n, 'the character buffer is replaced '
                            'before tokenizing: cursor positions are no longer source offsets and characters can be '
                            'dropped outside the rules', line=n.lineno))
        if is_driver_call(n):
            a0 = n.args[0] if n.args else None
            ok = isinstance(a0, ast.Name) and a0.id == pname
            rr.ob(ok, {'driver_argument': norm(a0) if a0 is not None else None})
            if not ok:
                rr.fail(Finding('R19.f', 'tokens', 'tokenize', n, 'the driver is not given the categorised character buffer '
                                'itself', line=n.lineno))
    if n_calls == 0:
        raise AnalysisError('tokenize: the call of the driver next_token vanished')
    if n_yields == 0:
        rr.fail(Finding('R19.f', 'tokens', 'tokenize', 'no yield of the driver token',
                        'the token generator never yields the tokens the driver returns', line=fd.node.lineno))
    return rr


# --------------------------------------------------------------------------- C06 (tokens part)

def r06_b_tokens(ctx):
    t = table(ctx)
    rr = interp_findings(ctx, ('none-deref',), 'R06.b-tok', 'no attribute of a peek result is read where the peek may '
                         'return None (end of input)')
    rr.instances += len(t.deref_sites)
    rr.discharged += len(t.deref_sites) - len(rr.findings)
    for s in sorted(t.deref_sites)[:4]:
        rr.samples.append({'function': s[0], 'dereference': s[1]})
    return rr


def r06_a_tokens(ctx):
    rr = interp_findings(ctx, ('stopiteration', 'unpinned-table-key'), 'R06.a/g', 'no next() without an item; no '
                         'constant-table look-up with an unpinned key (tokenizer)')
    return rr


def raises_tokens(ctx):
    """exception types that can escape next_token according to the abstract runs"""
    t = table(ctx)
    out = {}
    for rec in t.records:
        if rec['result'] == 'raise':
            out.setdefault(rec['exc'], []).append(rec['window'])
    return out


# --------------------------------------------------------------------------- C09 / C10 / C12 assertions

def _kind_names(A, tok):
    if tok.kind and tok.kind[0] == 'tc':
        out = []
        for v in sorted(tok.kind[1]):
            out += [m.mname for m in A.TC.by_value(v)]
        return out
    return []


def _ccs(A, syms):
    return {A.ccname(s) for s in syms if s not in (EOF, BOF)}


def emits(ctx):
    """distinct emit entries of rounds that were not preceded by a silent move, with their window"""
    t = table(ctx)
    out = []
    seen = set()
    for rec in t.records:
        if rec['result'] != 'token':
            continue
        e = _emit(rec)
        sil = bool(_silent(rec))
        key = (rec['window'][:2], e[1], e[2], e[3], e[4], e[5], sil)
        if key in seen:
            continue
        seen.add(key)
        out.append((rec, e, sil))
    return out


def r09_a(ctx):
    t = table(ctx)
    A = t.alphabet
    rr = RuleResult('R09.a', 'a merged-spacer token consists of blanks with at most one line break, and is maximal',
                    floor=2)
    ms = A.TC.members.get('MergedSpacer')
    if ms is None:
        raise AnalysisError('TC.MergedSpacer vanished')
    n = 0
    for rec, e, sil in emits(ctx):
        tok = e[2]
        if not (tok.kind and tok.kind[0] == 'tc' and int(ms) in tok.kind[1]):
            continue
        n += 1
        cats = _ccs(A, e[4][0])
        eol = e[4][1]
        nxt = _ccs(A, e[5] - {EOF})
        ok_cats = cats <= {'Spacer', 'EndOfLine'}
        ok_eol = eol <= 1
        ok_max = 'Spacer' not in nxt and (eol >= 1 or 'EndOfLine' not in nxt)
        ok = ok_cats and ok_eol and ok_max
        rr.ob(ok, {'rule': e[1], 'consumed': sorted(cats), 'line_breaks': eol, 'next_may_be': sorted(nxt)[:6]})
        fd = _rule_fn(t, e[1])
        if not ok_cats:
            rr.fail(_mk('R09.a', fd, 'rule %s: merged spacer contains %s' % (e[1], sorted(cats - {'Spacer', 'EndOfLine'})),
                        'the whitespace token that may separate a command from its arguments can contain '
                        'characters other than blanks and a line break', rec))
        if not ok_eol:
            rr.fail(_mk('R09.a', fd, 'rule %s: merged spacer may contain two line breaks' % e[1],
                        'the whitespace token that may separate a command from its arguments can span more than '
                        'one line break: a blank line would no longer end the argument run', rec))
        if not ok_max:
            rr.fail(_mk('R09.a', fd, 'rule %s: merged spacer is not maximal' % e[1],
                        'the whitespace token can stop before the end of the blank run (next character may be %s): '
                        'two spacer tokens in a row defeat the one-spacer look-ahead of the argument readers'
                        % sorted(nxt & {'Spacer', 'EndOfLine'}), rec))
    if n == 0:
        raise AnalysisError('no rule emits TC.MergedSpacer')
    return rr


STRUCTURAL = ('Escape', 'GroupBegin', 'GroupEnd', 'MathSwitch', 'BracketBegin', 'BracketEnd', 'Comment')


def r10_a(ctx):
    """escape beats comment; backslashes pair left to right"""
    t = table(ctx)
    A = t.alphabet
    rr = RuleResult('R10.a', 'a token that starts at a backslash and stops after one character is never followed by '
                    '%% or another backslash (escaped symbols are claimed first, pairs consumed left to right)', floor=2)
    n = 0
    for rec, e, sil in emits(ctx):
        if A.ccname(rec['window'][1]) != 'Escape' or sil:
            continue
        n += 1
        moved = e[3]
        nxt = _ccs(A, e[5] - {EOF})
        cats = _ccs(A, e[4][0])
        if moved == 1:
            ok = not (nxt & {'Comment', 'Escape'})
            rr.ob(ok, {'rule': e[1], 'moved': 1, 'next_may_be': sorted(nxt)})
            if not ok:
                fd = _rule_fn(t, e[1])
                rr.fail(_mk('R10.a', fd, 'rule %s: lone backslash token may be followed by %s' % (e[1], sorted(nxt & {'Comment', 'Escape'})),
                            'a backslash directly followed by %s is tokenized on its own: the following %% would '
                            'start a comment although it is escaped (or backslash pairs are split from the right)'
                            % sorted(nxt & {'Comment', 'Escape'}), rec))
        else:
            rr.ob(True, {'rule': e[1], 'moved': str(moved), 'consumed': sorted(cats)})
    if n == 0:
        raise AnalysisError('no outcome for a backslash at the cursor')
    return rr


def r10_b(ctx):
    """a comment is one token to the end of its line; % is consumed by no other kind of token"""
    t = table(ctx)
    A = t.alphabet
    rr = RuleResult('R10.b', 'an unescaped %% starts a comment token that runs to the end of the line; no other token '
                    'kind contains an unescaped %%', floor=3)
    com = A.TC.members.get('Comment')
    if com is None:
        raise AnalysisError('TC.Comment vanished')
    n = 0
    for rec, e, sil in emits(ctx):
        tok = e[2]
        kinds = set(tok.kind[1]) if tok.kind and tok.kind[0] == 'tc' else set()
        cats = _ccs(A, e[4][0])
        c0 = A.ccname(rec['window'][1])
        fd = _rule_fn(t, e[1])
        if c0 == 'Comment' and not sil:
            n += 1
            nxt = e[5]
            ok_kind = kinds == {int(com)}
            ok_end = _ccs(A, nxt - {EOF}) <= {'EndOfLine'}
            ok_body = 'EndOfLine' not in cats
            rr.ob(ok_kind and ok_end and ok_body, {'rule': e[1], 'kinds': _kind_names(A, tok),
                                                    'stops_before': sorted(_ccs(A, nxt - {EOF})) + (['EOF'] if EOF in nxt else [])})
            if not ok_kind:
                rr.fail(_mk('R10.b', fd, 'rule %s: a %% at the cursor yields kind %s' % (e[1], _kind_names(A, tok)),
                            'an unescaped %% at the cursor is not tokenized as a comment', rec))
            if not ok_end:
                rr.fail(_mk('R10.b', fd, 'rule %s: comment token may stop before %s' % (e[1], sorted(_ccs(A, nxt - {EOF}) - {'EndOfLine'})[:5]),
                            'a comment token can end before the end of its line: the rest of the comment is parsed', rec))
            if not ok_body:
                rr.fail(_mk('R10.b', fd, 'rule %s: comment token may contain a line break' % e[1],
                            'a comment token can run past the end of its line and swallow following source', rec))
        elif c0 != 'Comment' and 'Comment' in cats and not sil:
            # a % inside another token: only as the second character after a backslash, or inside a comment
            first = A.ccname(rec['window'][1])
            second_only = e[3] == 2 and len(e[6]) == 2 and 'Comment' not in _ccs(A, e[6][0])
            ok = (first == 'Escape' and second_only) or int(com) in kinds
            rr.ob(ok, {'rule': e[1], 'kinds': _kind_names(A, tok), 'first': first, 'moved': str(e[3])})
            if not ok:
                rr.fail(_mk('R10.b', fd, 'rule %s: token of kind %s may contain an unescaped %%' % (e[1], _kind_names(A, tok)),
                            'a token that is not a comment can swallow an unescaped %%: the comment is not recognised', rec))
    if n == 0:
        raise AnalysisError('no outcome for %% at the cursor')
    return rr


def r12_a(ctx):
    """math switch tokens"""
    t = table(ctx)
    A = t.alphabet
    TC = A.TC.members
    need = ['MathSwitch', 'DisplayMathSwitch', 'DisplayMathGroupBegin', 'DisplayMathGroupEnd', 'MathGroupBegin', 'MathGroupEnd']
    for k in need:
        if k not in TC:
            raise AnalysisError('TC.%s vanished' % k)
    rr = RuleResult('R12.a', '$ / $$ / \\( \\) \\[ \\] are tokenized as the six math switch kinds with the right '
                    'extent; an escaped $ is never a switch; $ is consumed by no other token kind', floor=8)
    asym = {('Escape', 'BracketBegin'): 'DisplayMathGroupBegin', ('Escape', 'BracketEnd'): 'DisplayMathGroupEnd',
            ('Escape', 'ParenBegin'): 'MathGroupBegin', ('Escape', 'ParenEnd'): 'MathGroupEnd'}
    n = 0
    for rec, e, sil in emits(ctx):
        if sil:
            continue
        tok = e[2]
        kinds = set(tok.kind[1]) if tok.kind and tok.kind[0] == 'tc' else set()
        cats = _ccs(A, e[4][0])
        c0 = A.ccname(rec['window'][1])
        fd = _rule_fn(t, e[1])
        nxt = _ccs(A, e[5] - {EOF})
        if c0 == 'MathSwitch':
            n += 1
            if e[3] == 1:
                ok = kinds == {int(TC['MathSwitch'])} and 'MathSwitch' not in nxt
                why = 'a single $ not followed by $ must be a MathSwitch token'
            elif e[3] == 2:
                ok = kinds == {int(TC['DisplayMathSwitch'])} and cats == {'MathSwitch'}
                why = '$$ must be one DisplayMathSwitch token'
            else:
                ok, why = False, 'a $ at the cursor must yield a switch token of length 1 or 2'
            rr.ob(ok, {'window': '$', 'moved': str(e[3]), 'kinds': _kind_names(A, tok)})
            if not ok:
                rr.fail(_mk('R12.a', fd, 'rule %s: $ at the cursor -> %s, length %s, next may be %s' % (
                    e[1], _kind_names(A, tok), e[3], sorted(nxt & {'MathSwitch'})), why, rec))
        elif c0 == 'Escape':
            if e[3] == 2 and len(e[6]) == 2:
                for second in sorted(_ccs(A, e[6][1])):
                    if ('Escape', second) in asym:
                        n += 1
                        ok = kinds == {int(TC[asym[('Escape', second)]])}
                        rr.ob(ok, {'window': '\\' + second, 'kinds': _kind_names(A, tok)})
                        if not ok:
                            rr.fail(_mk('R12.a', fd, 'rule %s: backslash+%s -> %s' % (e[1], second, _kind_names(A, tok)),
                                        'backslash followed by %s must be the %s token' % (second, asym[('Escape', second)]), rec))
                    elif second == 'MathSwitch':
                        n += 1
                        sw = {int(TC[k]) for k in need}
                        ok = not (kinds & sw)
                        rr.ob(ok, {'window': '\\$', 'kinds': _kind_names(A, tok)})
                        if not ok:
                            rr.fail(_mk('R12.a', fd, 'rule %s: escaped $ -> %s' % (e[1], _kind_names(A, tok)),
                                        'an escaped \\$ is tokenized as a math switch', rec))
            elif e[3] == 1:
                bad = nxt & {'BracketBegin', 'BracketEnd', 'ParenBegin', 'ParenEnd', 'MathSwitch'}
                ok = not bad
                rr.ob(ok, {'window': '\\ alone', 'next_may_be': sorted(nxt)[:8]})
                if not ok:
                    rr.fail(_mk('R12.a', fd, 'rule %s: lone backslash token may be followed by %s' % (e[1], sorted(bad)),
                                'a backslash followed by %s is tokenized on its own instead of as a math delimiter / '
                                'escaped symbol' % sorted(bad), rec))
        elif 'MathSwitch' in cats:
            com = TC.get('Comment')
            ok = com is not None and int(com) in kinds
            rr.ob(ok, {'rule': e[1], 'kinds': _kind_names(A, tok)})
            if not ok:
                rr.fail(_mk('R12.a', fd, 'rule %s: token of kind %s may contain an unescaped $' % (e[1], _kind_names(A, tok)),
                            'a token that is neither a math switch nor a comment can swallow an unescaped $', rec))
    if n < 4:
        raise AnalysisError('math switch windows not covered (%d)' % n)
    return rr


def r12_f(ctx):
    """sizing commands: the rule that emits punctuation command names never declines right after a backslash
    without having compared every sizing literal that can stand at the cursor"""
    t = table(ctx)
    A = t.alphabet
    pc = A.TC.members.get('PunctuationCommandName')
    if pc is None:
        raise AnalysisError('TC.PunctuationCommandName vanished')
    rr = RuleResult('R12.f', 'right after a backslash, the rule that emits sizing commands (\\left[ \\right) \\big( ...) '
                    'returns without a token only when a look-ahead comparison has excluded every sizing literal that '
                    'the characters at the cursor could spell; when a comparison succeeds the token covers the whole '
                    'literal, delimiter included', floor=3)
    rules = set()
    for rec in t.records:
        for e in rec['log']:
            if e[0] == 'emit' and e[2].kind and e[2].kind[0] == 'tc' and int(pc) in e[2].kind[1]:
                rules.add(e[1])
    if not rules:
        raise AnalysisError('no tokenizer rule emits TC.PunctuationCommandName')
    seen = set()
    n_emit = 0
    for rec in t.records:
        for e in rec['log']:
            if e[0] == 'emit' and e[1] in rules and e[2].kind and e[2].kind[0] == 'tc' and int(pc) in e[2].kind[1]:
                k = ('emit', e[1], e[3], e[2].start, e[2].lag)
                if k in seen:
                    continue
                seen.add(k)
                n_emit += 1
                ok = e[2].start == 0 and e[2].lag == 0 and e[3] != 0
                rr.ob(ok, {'rule': e[1], 'emits_whole_literal': ok, 'moved': str(e[3])})
                if not ok:
                    rr.fail(_mk('R12.f', _rule_fn(t, e[1]), 'rule %s: sizing command token does not cover the literal' % e[1],
                                'the sizing-command token does not span exactly the compared literal: its delimiter would '
                                'be left in the stream as an unbalanced bracket', rec))
            elif e[0] == 'declined' and e[1] in rules:
                k = ('declined', e[1], e[2])
                if k in seen:
                    continue
                seen.add(k)
                rr.ob(False, {'rule': e[1], 'declines_without_comparing': list(e[2])[:6]})
                rr.fail(_mk('R12.f', _rule_fn(t, e[1]), 'rule %s declines after a backslash without comparing %s' % (
                    e[1], ', '.join(sorted(e[2])[:4]) + (' ...' if len(e[2]) > 4 else '')),
                    'right after a backslash, tokenizer rule %r can return without a token although the characters at '
                    'the cursor may spell a sizing command (%s) that no comparison has excluded: the command is then '
                    'tokenized as a plain command name and its delimiter as a bracket that must balance'
                    % (e[1], ', '.join(sorted(e[2])[:6])), rec))
    # the declining paths that did compare
    for rec in t.records:
        if rec['window'][0] in ('Escape',) or (rec['window'][0] in A.sym_cc and A.ccname(rec['window'][0]) == 'Escape'):
            k = ('window', rec['window'][:2])
            if k not in seen:
                seen.add(k)
                rr.ob(True, {'entry_after_backslash': str(rec['window'][:2])})
    return rr


def r09_struct(ctx):
    """group and bracket delimiters are single-character tokens of their own kind; text tokens never swallow them"""
    t = table(ctx)
    A = t.alphabet
    TC = A.TC.members
    own = {'GroupBegin': 'GroupBegin', 'GroupEnd': 'GroupEnd', 'BracketBegin': 'BracketBegin', 'BracketEnd': 'BracketEnd'}
    rr = RuleResult('R09.f', '{ } [ ] not preceded by a backslash are single-character tokens of their own kind and '
                    'are contained in no text token', floor=4)
    n = 0
    for rec, e, sil in emits(ctx):
        if sil:
            continue
        tok = e[2]
        kinds = set(tok.kind[1]) if tok.kind and tok.kind[0] == 'tc' else set()
        cats = _ccs(A, e[4][0])
        c0 = A.ccname(rec['window'][1])
        fd = _rule_fn(t, e[1])
        if c0 in own:
            n += 1
            ok = e[3] == 1 and kinds == {int(TC[own[c0]])}
            rr.ob(ok, {'at_cursor': c0, 'kinds': _kind_names(A, tok), 'moved': str(e[3])})
            if not ok:
                rr.fail(_mk('R09.f', fd, 'rule %s: %s at the cursor -> %s, length %s' % (e[1], c0, _kind_names(A, tok), e[3]),
                            'a %s character is not tokenized as its own one-character structural token' % c0, rec))
        else:
            hit = cats & set(own)
            if not hit:
                continue
            txt = {int(TC[k]) for k in ('Text', 'CommandName', 'MergedSpacer') if k in TC}
            ok = not (kinds & txt)
            rr.ob(ok, {'rule': e[1], 'kinds': _kind_names(A, tok), 'contains': sorted(hit)})
            if not ok:
                rr.fail(_mk('R09.f', fd, 'rule %s: token of kind %s may contain %s' % (e[1], _kind_names(A, tok), sorted(hit)),
                            'a text-like token can swallow a group/bracket delimiter: the delimiter can no longer '
                            'open or close a group', rec))
    if n < 4:
        raise AnalysisError('delimiter windows not covered')
    return rr


def r17_e(ctx):
    rr = interp_findings(ctx, ('store-on-shared-empty-token',), 'R17.e', 'no attribute is stored on a token that may be '
                         'the module-level shared empty token')
    t = table(ctx)
    n = 0
    for name, fd in t.registry:
        for x in ast.walk(fd.node):
            if isinstance(x, ast.Assign) and any(isinstance(tg, ast.Attribute) for tg in x.targets):
                n += 1
    rr.instances += n
    rr.discharged += n - len(rr.findings)
    return rr


def r09_i(ctx):
    """which characters may separate arguments: the effective Spacer category is space and tab, the effective
    EndOfLine category is LF and CR (first matching table entry wins, as in categorize)"""
    A = alphabet(ctx)
    rr = RuleResult('R09.i', 'only spaces and tabs are categorised as blanks and only LF / CR as line ends: no other '
                    'character can be absorbed into the whitespace that separates a command from its arguments', floor=2)
    want = {'Spacer': {' ', '\t'}, 'EndOfLine': {'\n', '\r'}}
    universe = set()
    for cc, vals in A.codes.items():
        universe |= set(vals) if not isinstance(vals, str) else set(vals)
    for cname, allowed in want.items():
        cc = A.CC.members.get(cname)
        if cc is None:
            raise AnalysisError('CC.%s vanished' % cname)
        eff = {ch for ch in universe if len(ch) == 1 and A.cat_of_char(ch) == cc}
        extra = sorted(eff - allowed)
        missing = sorted(allowed - eff) if cname == 'Spacer' else []
        ok = not extra and not missing
        rr.ob(ok, {'category': cname, 'characters': sorted(repr(c) for c in eff)})
        if not ok:
            rr.fail(Finding('R09.i', 'category', 'CATEGORY_CODES', 'CC.%s is %s' % (cname, sorted(repr(c) for c in eff)),
                            'the characters %s are categorised as %s%s: such a character between a command and a group (or '
                            'between two groups) is absorbed into the separating whitespace, so a group that the property '
                            'leaves in the surrounding text is attached as an argument' % (
                                [repr(c) for c in extra], cname, '' if not missing else ' and %s are not' % [repr(c) for c in missing]),
                            line=0))
    if A.default_cc.mname in want:
        rr.ob(False)
        rr.fail(Finding('R09.i', 'category', 'categorize', 'fallback category %s' % A.default_cc.mname,
                        'characters outside the table fall into a whitespace category', line=0))
    return rr


def r19_i(ctx):
    """the only characters that rules may drop silently are NUL and DEL"""
    A = alphabet(ctx)
    rr = RuleResult('R19.i', 'the categories whose characters a rule may consume without emitting (Ignored, Invalid) '
                    'contain only NUL and DEL', floor=2)
    for cname in ('Ignored', 'Invalid'):
        cc = A.CC.members.get(cname)
        if cc is None:
            raise AnalysisError('CC.%s vanished' % cname)
        chars = A.chars_of(cc) or []
        extra = sorted(set(chars) - {'\x00', '\x7f'})
        rr.ob(not extra, {'category': cname, 'characters': [repr(c) for c in chars]})
        if extra:
            rr.fail(Finding('R19.i', 'category', 'CATEGORY_CODES', 'CC.%s contains %s' % (cname, [repr(c) for c in extra]),
                            'the characters %s are categorised as %s: the tokenizer drops such characters silently at the '
                            'start of a token, so they vanish from the token stream and from the serialised document'
                            % ([repr(c) for c in extra], cname), line=0))
    if A.default_cc.mname in ('Ignored', 'Invalid'):
        rr.ob(False)
        rr.fail(Finding('R19.i', 'category', 'categorize', 'fallback category %s' % A.default_cc.mname,
                        'characters outside the table fall into a silently dropped category', line=0))
    return rr


def lint_concat_for(label, want):
    """the implicit-concatenation lint restricted to the collections a property depends on;
    want(module_name, collection_name) -> bool"""
    def rule(ctx):
        rr = lint_implicit_concat(ctx)
        rr.findings = [f for f in rr.findings if want(f.module, f.function)]
        rr.id = 'L.concat'
        return rr
    rule.__name__ = 'lint_concat_' + label
    return rule


def lint_implicit_concat(ctx):
    """adjacent string literals inside a collection display (a missing comma)"""
    import io
    import tokenize as _tk
    repo = ctx.repo
    rr = RuleResult('L.concat', 'no collection of names is written with two adjacent string literals (a missing comma '
                    'silently merges two names into one that matches neither)', floor=5)
    for m in repo.modules.values():
        try:
            toks = list(_tk.generate_tokens(io.StringIO(m.src).readline))
        except (_tk.TokenError, IndentationError):
            raise AnalysisError('module %s cannot be tokenized' % m.name)
        # positions of adjacent STRING tokens (only NL/COMMENT between them)
        adj = []
        prev = None
        for tk in toks:
            if tk.type == _tk.STRING:
                if prev is not None:
                    adj.append((prev, tk))
                prev = tk
            elif tk.type in (_tk.NL, _tk.COMMENT, _tk.NEWLINE) and prev is not None and tk.type != _tk.NEWLINE:
                continue
            else:
                prev = None
        displays = [n for n in ast.walk(m.tree) if isinstance(n, (ast.Tuple, ast.List, ast.Set)) and n.elts
                    and all(isinstance(e, ast.Constant) and isinstance(e.value, str) for e in n.elts)]
        for d in displays:
            bad = []
            for e in d.elts:
                for a, b in adj:
                    if (a.start[0], a.start[1]) >= (e.lineno, e.col_offset) and (b.end[0], b.end[1]) <= (e.end_lineno, e.end_col_offset):
                        bad.append((e, a, b))
            owner = getattr(d, '_parent', None)
            name = norm(owner.targets[0]) if isinstance(owner, ast.Assign) else 'collection at line %d' % d.lineno
            rr.ob(not bad, {'module': m.name, 'collection': name, 'elements': len(d.elts)})
            for e, a, b in bad:
                rr.fail(Finding('L.concat', m.name, name, '%s: %s %s' % (name, a.string, b.string),
                                'the collection %s contains the adjacent literals %s %s without a comma: they are one element '
                                '%r, so neither name is in the collection' % (name, a.string, b.string, e.value), line=e.lineno))
    return rr
