"""Positive controls and ablation audit.

A control is an in-memory AST edit of the *current* tree that removes the construct which
discharges a rule (located semantically, not by line or text); the rule must then report a
finding.  Nothing is written to /repo or to disk; the edited module source is handed to the
analyser through Repo(overrides=...).  A control whose anchor cannot be located on the
current tree is reported as `not applicable` (a refactor may have removed the construct);
a control that is applied but does not fire makes the run an ANALYSIS-ERROR.
"""
import ast
import copy
import os
import random
import multiprocessing

from .model import Repo, AnalysisError, norm
from .core import Ctx


class NotApplicable(Exception):
    pass


# --------------------------------------------------------------------------- AST helpers

def parse(repo, module):
    return ast.parse(repo.modules[module].src)


def find_func(tree, name, cls=None):
    body = tree.body
    if cls:
        for st in tree.body:
            if isinstance(st, ast.ClassDef) and st.name == cls:
                body = st.body
                break
        else:
            raise NotApplicable('class %s' % cls)
    for st in body:
        if isinstance(st, ast.FunctionDef) and st.name == name:
            return st
    raise NotApplicable('function %s' % name)


def find_funcs(tree, name, cls):
    for st in tree.body:
        if isinstance(st, ast.ClassDef) and st.name == cls:
            return [x for x in st.body if isinstance(x, ast.FunctionDef) and x.name == name]
    raise NotApplicable('class %s' % cls)


def remove_stmt(root, pred):
    """remove the first statement satisfying pred from any statement list under root"""
    for node in ast.walk(root):
        for field in ('body', 'orelse', 'finalbody'):
            lst = getattr(node, field, None)
            if isinstance(lst, list):
                for i, st in enumerate(lst):
                    if isinstance(st, ast.stmt) and pred(st):
                        del lst[i]
                        if not lst:
                            lst.append(ast.Pass())
                        return st
    raise NotApplicable('statement to remove')


def replace_expr(root, pred, make):
    """replace the first expression node satisfying pred by make(node)"""
    class T(ast.NodeTransformer):
        done = False

        def generic_visit(self, node):
            if self.done:
                return node
            if isinstance(node, ast.expr) and pred(node):
                self.done = True
                return make(node)
            return super().generic_visit(node)
    t = T()
    t.visit(root)
    if not t.done:
        raise NotApplicable('expression to replace')
    ast.fix_missing_locations(root)


def drop_conjunct(root, pred):
    """remove the first operand satisfying pred from a BoolOp (and/or)"""
    for node in ast.walk(root):
        if isinstance(node, ast.BoolOp):
            for i, v in enumerate(node.values):
                if pred(v):
                    del node.values[i]
                    if len(node.values) == 1:
                        # collapse
                        only = node.values[0]
                        node.values = [only, copy.deepcopy(only)] if False else node.values
                        # replace BoolOp by its single operand in parent
                        _replace_node(root, node, only)
                    return v
    raise NotApplicable('conjunct')


def _replace_node(root, old, new):
    for parent in ast.walk(root):
        for field, val in ast.iter_fields(parent):
            if val is old:
                setattr(parent, field, new)
                return
            if isinstance(val, list):
                for i, x in enumerate(val):
                    if x is old:
                        val[i] = new
                        return


def is_call_attr(n, attr, recv=None):
    return (isinstance(n, ast.Call) and isinstance(n.func, ast.Attribute) and n.func.attr == attr
            and (recv is None or (isinstance(n.func.value, ast.Name) and n.func.value.id == recv)))


def src(tree):
    ast.fix_missing_locations(tree)
    return ast.unparse(tree)


# --------------------------------------------------------------------------- registry

CONTROLS = {}       # prop -> list of (cid, rule_ids, description, fn(repo)->overrides)


def control(props_, cid, rules, desc):
    def deco(fn):
        for p in props_:
            CONTROLS.setdefault(p, []).append((cid, tuple(rules), desc, fn))
        return fn
    return deco


def _run_one(args):
    prop, cid, tier, seed, root = args
    from . import run as runner
    from . import props
    ent = [c for c in CONTROLS.get(prop, []) if c[0] == cid][0]
    base = Repo(root)
    try:
        ov = ent[3](base)
    except NotApplicable as e:
        return (cid, 'n/a', 'anchor not found: %s' % e, [])
    try:
        ctx = Ctx(Repo(root, overrides=ov), tier='quick', seed=seed)
        results = runner.analyse(prop, ctx)
    except AnalysisError as e:
        return (cid, 'error', 'analysis error on the control variant: %s' % e, [])
    hits = [(rr.id, f.function, f.construct) for rr in results for f in rr.findings]
    # findings already present on the unmodified tree do not count
    return (cid, 'ran', '', hits)


def baseline_keys(prop, ctx):
    from . import run as runner
    res = runner.analyse(prop, ctx)
    return {(rr.id, f.function, f.construct) for rr in res for f in rr.findings}


def run_controls(prop, ctx, tier='quick', seed=0):
    ents = CONTROLS.get(prop, [])
    base = baseline_keys(prop, ctx)
    jobs = [(prop, c[0], tier, seed, ctx.repo.root) for c in ents]
    nproc = min(len(jobs), int(os.environ.get('VERIF_JOBS', '16'))) or 1
    if nproc > 1:
        with multiprocessing.get_context('fork').Pool(nproc) as pool:
            outs = pool.map(_run_one, jobs)
    else:
        outs = [_run_one(j) for j in jobs]
    info = {'total': 0, 'fired': 0, 'silent': [], 'not_applicable': [], 'details': []}
    byid = {c[0]: c for c in ents}
    for cid, status, msg, hits in outs:
        rules = byid[cid][1]
        if status == 'n/a':
            info['not_applicable'].append('%s (%s)' % (cid, msg))
            continue
        info['total'] += 1
        new = [h for h in hits if h not in base]
        ok = status == 'ran' and any(h[0] in rules or any(h[0].startswith(r) for r in rules) for h in new)
        if ok:
            info['fired'] += 1
        else:
            info['silent'].append('%s [%s] %s' % (cid, ','.join(rules), msg or 'reported %s' % sorted({h[0] for h in new})))
        info['details'].append({'control': cid, 'expects': list(rules), 'description': byid[cid][2],
                                'reported': sorted({'%s @ %s' % (h[0], h[1]) for h in new})[:6], 'fired': ok})
    if ents and info['total'] == 0:
        raise AnalysisError('no positive control of %s is applicable to the current tree' % prop)
    return info


# =========================================================================== controls

# ---- tokenizer (C19 / C06 / C09 / C10 / C12 / C13)

def _rule_funcs(tree):
    out = []
    for st in tree.body:
        if isinstance(st, ast.FunctionDef):
            for d in st.decorator_list:
                if isinstance(d, ast.Call) and isinstance(d.func, ast.Name) and d.func.id == 'token':
                    out.append((d.args[0].value, st))
    return out


def _rule_storing(tree, tcname):
    """the rule function that stores TC.<tcname> as category"""
    for name, fn in _rule_funcs(tree):
        for n in ast.walk(fn):
            if isinstance(n, ast.Attribute) and n.attr == tcname and isinstance(n.value, ast.Name) and n.value.id == 'TC':
                return fn
    raise NotApplicable('rule emitting TC.%s' % tcname)


@control(['C19', 'C13'], 'categorize-drop-yield', ['R19.a'], 'delete the yield of the fallback category in categorize')
def c_categorize_drop_yield(repo):
    t = parse(repo, 'category')
    fn = find_func(t, 'categorize')
    remove_stmt(fn, lambda s: isinstance(s, ast.Expr) and isinstance(s.value, ast.Yield))
    return {'category': src(t)}


@control(['C19', 'C01'], 'spacer-no-rollback', ['R19.b'], 'delete the cursor rollback of the spacer rule')
def c_spacer_no_rollback(repo):
    t = parse(repo, 'tokens')
    fn = _rule_storing(t, 'MergedSpacer')
    remove_stmt(fn, lambda s: isinstance(s, ast.Expr) and is_call_attr(s.value, 'backward'))
    return {'tokens': src(t)}


@control(['C19'], 'text-stops-at-unhandled', ['R19.c', 'R19.d'], 'add a category without a rule of its own to the text rule stop set')
def c_text_stop(repo):
    t = parse(repo, 'tokens')
    fn = _rule_storing(t, 'Text')

    def pred(n):
        return isinstance(n, ast.Tuple) and n.elts and all(
            isinstance(e, ast.Attribute) and isinstance(e.value, ast.Name) and e.value.id == 'CC' for e in n.elts) and len(n.elts) >= 3

    def make(n):
        n.elts.append(ast.Attribute(ast.Name('CC', ast.Load()), 'Active', ast.Load()))
        return n
    replace_expr(fn, pred, make)
    return {'tokens': src(t)}


@control(['C19', 'C13'], 'position-after-consume', ['R19.e'], 'overwrite the token position with the cursor position read after consuming')
def c_position_after(repo):
    t = parse(repo, 'tokens')
    fn = _rule_storing(t, 'Comment')
    for node in ast.walk(fn):
        body = getattr(node, 'body', None)
        if isinstance(body, list):
            for i, s_ in enumerate(body):
                if isinstance(s_, ast.Return) and isinstance(s_.value, ast.Name):
                    name = s_.value.id
                    body.insert(i, ast.Assign([ast.Attribute(ast.Name(name, ast.Load()), 'position', ast.Store())],
                                              ast.Attribute(ast.Name('text', ast.Load()), 'position', ast.Load())))
                    return {'tokens': src(t)}
    raise NotApplicable('return of the comment token')


@control(['C19'], 'kind-not-stored', ['R19.g'], 'delete the statement that stores the token kind in the symbols rule')
def c_kind_not_stored(repo):
    t = parse(repo, 'tokens')
    fn = _rule_storing(t, 'GroupBegin')
    remove_stmt(fn, lambda s: isinstance(s, ast.Assign) and isinstance(s.targets[0], ast.Attribute)
                and s.targets[0].attr == 'category')
    return {'tokens': src(t)}


@control(['C19'], 'driver-yield-dropped', ['R19.f'], 'delete the yield in the token generator')
def c_driver_yield(repo):
    t = parse(repo, 'tokens')
    fn = find_func(t, 'tokenize')
    remove_stmt(fn, lambda s: isinstance(s, ast.Expr) and isinstance(s.value, ast.Yield))
    return {'tokens': src(t)}


@control(['C19', 'C06'], 'ignore-without-restart', ['R19.c', 'R06.b'], 'revert the repaired round restart / end-of-input guard of the ignore rule')
def c_ignore_revert(repo):
    t = parse(repo, 'tokens')
    fn = find_func(t, 'next_token')
    # remove `if text.position != start: break`
    remove_stmt(fn, lambda s: isinstance(s, ast.If) and any(isinstance(b, ast.Break) for b in s.body)
                and 'position' in ast.unparse(s.test))
    return {'tokens': src(t)}


@control(['C06'], 'comment-loop-unguarded', ['R06.b'], 'delete the end-of-input conjunct of the comment rule loop')
def c_comment_unguarded(repo):
    t = parse(repo, 'tokens')
    fn = _rule_storing(t, 'Comment')
    loops = [n for n in ast.walk(fn) if isinstance(n, ast.While)]
    if not loops:
        raise NotApplicable('comment loop')
    drop_conjunct(loops[0], lambda v: is_call_attr(v, 'hasNext'))
    return {'tokens': src(t)}


@control(['C10'], 'registry-escaped-after-symbols', ['R10.a'], 'register the escaped-symbol rule after the single-character symbol rule')
def c_registry_swap(repo):
    t = parse(repo, 'tokens')
    esc = _rule_storing(t, 'EscapedComment')
    sym = _rule_storing(t, 'GroupBegin')
    i, j = t.body.index(esc), t.body.index(sym)
    if i > j:
        raise NotApplicable('order')
    t.body.insert(j + 1, esc)
    del t.body[i]
    return {'tokens': src(t)}


@control(['C10'], 'comment-stops-early', ['R10.b'], 'let a second category end the comment token')
def c_comment_stops(repo):
    t = parse(repo, 'tokens')
    fn = _rule_storing(t, 'Comment')
    loops = [n for n in ast.walk(fn) if isinstance(n, ast.While)]
    if not loops:
        raise NotApplicable('comment loop')

    def pred(n):
        return isinstance(n, ast.Compare) and isinstance(n.ops[0], ast.NotEq) and isinstance(n.comparators[0], ast.Attribute) \
            and n.comparators[0].attr == 'EndOfLine'

    def make(n):
        return ast.Compare(n.left, [ast.NotIn()], [ast.Tuple([n.comparators[0], ast.Attribute(ast.Name('CC', ast.Load()), 'GroupEnd', ast.Load())], ast.Load())])
    replace_expr(loops[0], pred, make)
    return {'tokens': src(t)}


@control(['C12'], 'bracket-escaped-symbol', ['R12.a'], 'add CC.BracketBegin to the escaped-symbol set')
def c_bracket_escaped(repo):
    t = parse(repo, 'tokens')
    fn = _rule_storing(t, 'EscapedComment')

    def pred(n):
        return isinstance(n, ast.Tuple) and len(n.elts) >= 3 and all(
            isinstance(e, ast.Attribute) and isinstance(e.value, ast.Name) and e.value.id == 'CC' for e in n.elts)

    def make(n):
        n.elts.append(ast.Attribute(ast.Name('CC', ast.Load()), 'BracketBegin', ast.Load()))
        return n
    replace_expr(fn, pred, make)
    return {'tokens': src(t)}


@control(['C09'], 'spacer-two-linebreaks', ['R09.a'], 'turn the single line-break test of the spacer rule into a loop')
def c_spacer_loop(repo):
    t = parse(repo, 'tokens')
    fn = _rule_storing(t, 'MergedSpacer')
    for i, s in enumerate(fn.body):
        if isinstance(s, ast.If) and 'EndOfLine' in ast.unparse(s.test) and not s.orelse:
            fn.body[i] = ast.While(s.test, s.body, [])
            return {'tokens': src(t)}
    raise NotApplicable('line-break test')


# ---- reader / Buffer (C06, C20)

def _first(root, pred):
    for n in ast.walk(root):
        if pred(n):
            return n
    raise NotApplicable('node')


@control(['C06'], 'command-name-unguarded-next', ['R06.a'], 'read the command name with an unguarded next()')
def c_cmd_next(repo):
    t = parse(repo, 'reader')
    fn = find_func(t, 'read_command')

    def pred(n):
        return isinstance(n, ast.IfExp) and isinstance(n.body, ast.Call) and isinstance(n.body.func, ast.Name) \
            and n.body.func.id == 'next'
    replace_expr(fn, pred, lambda n: n.body)
    return {'reader': src(t)}


@control(['C06'], 'bare-token-unguarded-next', ['R06.a'], 'delete the hasNext() conjunct before the bare-token next() in the required-argument reader')
def c_bare_next(repo):
    t = parse(repo, 'reader')
    fn = find_func(t, 'read_arg_required')
    # the elif whose body starts with `x = next(src)`
    for n in ast.walk(fn):
        if isinstance(n, ast.If) and n.body and isinstance(n.body[0], ast.Assign) and isinstance(n.body[0].value, ast.Call) \
                and isinstance(n.body[0].value.func, ast.Name) and n.body[0].value.func.id == 'next':
            drop_conjunct(n.test, lambda v: is_call_attr(v, 'hasNext'))
            # the loop test also implies an item; drop it there too
            for w in ast.walk(fn):
                if isinstance(w, ast.While) and isinstance(w.test, ast.BoolOp):
                    try:
                        drop_conjunct(w, lambda v: is_call_attr(v, 'hasNext'))
                    except NotApplicable:
                        pass
            return {'reader': src(t)}
    raise NotApplicable('bare-token branch')


@control(['C06'], 'math-loop-unguarded-peek', ['R06.b'], 'delete the hasNext() conjunct of the math-environment loop')
def c_math_unguarded(repo):
    t = parse(repo, 'reader')
    fn = find_func(t, 'read_math_env')
    w = _first(fn, lambda n: isinstance(n, ast.While))
    drop_conjunct(w, lambda v: is_call_attr(v, 'hasNext'))
    return {'reader': src(t)}


@control(['C06'], 'item-loop-no-progress', ['R06.c'], 'replace the expression read in the item loop by pass')
def c_item_noprogress(repo):
    t = parse(repo, 'reader')
    fn = find_func(t, 'read_item')
    w = _first(fn, lambda n: isinstance(n, ast.While))
    for i, s_ in enumerate(w.body):
        if isinstance(s_, ast.Expr) and isinstance(s_.value, ast.Call) and any(
                isinstance(x, ast.Name) and x.id == 'read_expr' for x in ast.walk(s_)):
            w.body[i] = ast.Pass()
            return {'reader': src(t)}
    raise NotApplicable('read_expr statement')


@control(['C06'], 'raise-valueerror', ['R06.d'], 'raise ValueError instead of TypeError for a malformed argument')
def c_raise_value(repo):
    t = parse(repo, 'reader')
    fn = find_func(t, 'read_arg')
    r = _first(fn, lambda n: isinstance(n, ast.Raise) and isinstance(n.exc, ast.Call))
    r.exc.func = ast.Name('ValueError', ast.Load())
    return {'reader': src(t)}


@control(['C06'], 'begin-without-assert', ['R06.e'], 'delete the non-emptiness assertion before args[0] in the expression reader')
def c_begin_noassert(repo):
    t = parse(repo, 'reader')
    fn = find_func(t, 'read_expr')
    remove_stmt(fn, lambda s_: isinstance(s_, ast.Assert) and 'args' in ast.unparse(s_.test))
    return {'reader': src(t)}


@control(['C06', 'C09', 'C12'], 'group-opener-unpinned', ['R06.g', 'R12.d'], 'call the group reader for every token kind (drop the GroupBegin guard)')
def c_group_unpinned(repo):
    t = parse(repo, 'reader')
    fn = find_func(t, 'read_expr')
    for i, s_ in enumerate(fn.body):
        if isinstance(s_, ast.If) and 'GroupBegin' in ast.unparse(s_.test) and len(s_.body) == 1 \
                and isinstance(s_.body[0], ast.Return):
            s_.test = ast.Compare(ast.Attribute(ast.Name('c', ast.Load()), 'category', ast.Load()), [ast.NotEq()],
                                  [ast.Attribute(ast.Name('TC', ast.Load()), 'Text', ast.Load())])
            return {'reader': src(t)}
    raise NotApplicable('GroupBegin guard')


def _buffer_method(t, name):
    return find_func(t, name, cls='Buffer')


@control(['C20'], 'getitem-no-restore', ['R20.a'], 'delete the cursor restore in Buffer.__getitem__')
def c_getitem_norestore(repo):
    t = parse(repo, 'utils')
    fn = _buffer_method(t, '__getitem__')
    remove_stmt(fn, lambda s_: isinstance(s_, ast.Assign) and isinstance(s_.targets[0], ast.Attribute)
                and isinstance(s_.value, ast.Name))
    return {'utils': src(t)}


@control(['C20'], 'backward-no-underflow-check', ['R20.b'], 'delete the underflow assertion of Buffer.backward')
def c_backward_noassert(repo):
    t = parse(repo, 'utils')
    fn = _buffer_method(t, 'backward')
    remove_stmt(fn, lambda s_: isinstance(s_, ast.Assert))
    return {'utils': src(t)}


@control(['C20'], 'forward-slice-shifted', ['R20.b'], 'shift the lower bound of the slice returned by Buffer.forward by one')
def c_forward_shift(repo):
    t = parse(repo, 'utils')
    fn = _buffer_method(t, 'forward')
    sl = _first(fn, lambda n: isinstance(n, ast.Slice) and n.lower is not None)
    sl.lower = ast.BinOp(sl.lower, ast.Add(), ast.Constant(1))
    return {'utils': src(t)}


@control(['C20', 'C06'], 'peek-leaks-indexerror', ['R20.c'], 'narrow the exception handler of Buffer.peek to another type')
def c_peek_leak(repo):
    t = parse(repo, 'utils')
    fn = _buffer_method(t, 'peek')
    h = _first(fn, lambda n: isinstance(n, ast.ExceptHandler))
    h.type = ast.Name('KeyError', ast.Load())
    return {'utils': src(t)}


@control(['C20', 'C06'], 'forward-until-unguarded-peek', ['R20.c', 'R06.b'], 'dereference the peek in Buffer.forward_until unconditionally')
def c_forward_until_revert(repo):
    t = parse(repo, 'utils')
    fn = _buffer_method(t, 'forward_until')

    def pred(n):
        return isinstance(n, ast.IfExp) and isinstance(n.body, ast.Attribute) and n.body.attr == 'position'
    replace_expr(fn, pred, lambda n: n.body)
    return {'utils': src(t)}


@control(['C20'], 'queue-cleared', ['R20.d'], 'clear the item queue in Buffer.forward')
def c_queue_clear(repo):
    t = parse(repo, 'utils')
    fn = _buffer_method(t, 'forward')
    q = None
    for n in ast.walk(_buffer_method(t, '__next__')):
        if isinstance(n, ast.Call) and isinstance(n.func, ast.Attribute) and n.func.attr == 'append':
            q = n.func.value
    if q is None:
        raise NotApplicable('queue field')
    fn.body.insert(1 if isinstance(fn.body[0], ast.Expr) else 0,
                   ast.Expr(ast.Call(ast.Attribute(copy.deepcopy(q), 'clear', ast.Load()), [], [])))
    return {'utils': src(t)}


# ---- conservation / serialisers (C08, C01, C09, C07)

@control(['C08', 'C01', 'C09'], 'required-arg-loop-no-rollback', ['R08.a', 'R09.c'], 'delete the spacer rollback at the end of the required-argument loop')
def c_no_spacer_rollback(repo):
    t = parse(repo, 'reader')
    fn = find_func(t, 'read_arg_required')
    w = _first(fn, lambda n: isinstance(n, ast.While))
    # the last `if spacer: src.backward(1)` directly in the loop body
    for i in range(len(w.body) - 1, -1, -1):
        s_ = w.body[i]
        if isinstance(s_, ast.If) and any(is_call_attr(x, 'backward') for x in ast.walk(s_)):
            del w.body[i]
            return {'reader': src(t)}
    raise NotApplicable('rollback statement')


@control(['C08', 'C07'], 'env-closer-discard-unguarded', ['R08.a', 'R08.b', 'R07.c'], 'discard the closer of an environment also on the error path (elif not error -> else)')
def c_env_else(repo):
    t = parse(repo, 'reader')
    fn = find_func(t, 'read_env')
    for n in ast.walk(fn):
        if isinstance(n, ast.If) and len(n.orelse) == 1 and isinstance(n.orelse[0], ast.If) \
                and any(is_call_attr(x, 'forward') for x in ast.walk(n.orelse[0])):
            n.orelse = n.orelse[0].body
            return {'reader': src(t)}
    raise NotApplicable('elif not error')


@control(['C08', 'C01'], 'env-serialiser-filtering-view', ['R08.e'], 'let the environment serialiser print the whitespace-filtering contents view')
def c_env_str_view(repo):
    t = parse(repo, 'data')
    fn = find_func(t, '__str__', cls='TexEnv')

    def pred(n):
        return isinstance(n, ast.Attribute) and n.attr == '_contents'

    def make(n):
        n.attr = 'contents'
        return n
    replace_expr(fn, pred, make)
    return {'data': src(t)}


@control(['C08', 'C01', 'C12'], 'math-closer-literal', ['T'], 'change the closing literal of the \\(..\\) math class')
def c_math_literal(repo):
    t = parse(repo, 'data')
    for st_ in t.body:
        if isinstance(st_, ast.ClassDef) and st_.name == 'TexMathEnv':
            for a in st_.body:
                if isinstance(a, ast.Assign) and a.targets[0].id == 'end':
                    a.value = ast.Constant('\\]')
                    return {'data': src(t)}
    raise NotApplicable('TexMathEnv.end')


@control(['C08', 'C01'], 'item-expression-dropped', ['R08.a'], 'do not keep the expressions read inside an item')
def c_item_dropped(repo):
    t = parse(repo, 'reader')
    fn = find_func(t, 'read_item')
    w = _first(fn, lambda n: isinstance(n, ast.While))
    for i, s_ in enumerate(w.body):
        if isinstance(s_, ast.Expr) and is_call_attr(s_.value, 'append') and s_.value.args \
                and isinstance(s_.value.args[0], ast.Call):
            w.body[i] = ast.Expr(s_.value.args[0])
            return {'reader': src(t)}
    raise NotApplicable('append in item loop')


@control(['C08'], 'invented-literal', ['R08.d'], 'wrap a bare-token argument in braces plus a space')
def c_invented(repo):
    t = parse(repo, 'reader')
    fn = find_func(t, 'read_arg_required')
    c = _first(fn, lambda n: isinstance(n, ast.Constant) and isinstance(n.value, str) and '%s' in n.value)
    c.value = c.value.replace('%s', '%s ')
    return {'reader': src(t)}


@control(['C01', 'C11'], 'verbatim-body-stripped', ['R01.a'], 'strip the raw body of a skipped environment')
def c_verbatim_strip(repo):
    t = parse(repo, 'reader')
    fn = find_func(t, 'read_skip_env')

    def pred(n):
        return is_call_attr(n, 'forward_until')

    def make(n):
        return ast.Call(ast.Attribute(n, 'strip', ast.Load()), [], [])
    replace_expr(fn, pred, make)
    return {'reader': src(t)}


@control(['C08'], 'begin-group-kind-unpinned', ['R08.a'], 'accept any group kind after \\begin (drop the brace-group test)')
def c_begin_unpinned(repo):
    t = parse(repo, 'reader')
    fn = find_func(t, 'read_expr')
    a = _first(fn, lambda n: isinstance(n, ast.Assert) and isinstance(n.test, ast.BoolOp))
    a.test = a.test.values[0]
    return {'reader': src(t)}


# ---- dispatch structure (C10, C12, C09)

@control(['C10'], 'reader-branches-on-comment', ['R10.c'], 'add a branch on the comment token kind to the expression dispatcher')
def c_comment_branch(repo):
    t = parse(repo, 'reader')
    fn = find_func(t, 'read_expr')
    new = ast.parse("if c.category == TC.Comment:\n    return TexText(c)").body[0]
    idx = 1 if isinstance(fn.body[0], ast.Expr) and isinstance(fn.body[0].value, ast.Constant) else 0
    fn.body.insert(idx + 1, new)
    return {'reader': src(t)}


@control(['C12'], 'math-body-not-math-mode', ['R12.b'], 'read the body of a math region in non-math mode')
def c_math_mode(repo):
    t = parse(repo, 'reader')
    fn = find_func(t, 'read_math_env')
    for n in ast.walk(fn):
        if isinstance(n, ast.keyword) and n.arg == 'mode':
            n.value = ast.Name('MODE_NON_MATH', ast.Load())
            return {'reader': src(t)}
    raise NotApplicable('mode keyword')


@control(['C12'], 'named-math-no-switch', ['R12.c'], 'delete the math-mode switch for named math environments')
def c_named_math(repo):
    t = parse(repo, 'reader')
    fn = find_func(t, 'read_expr')
    remove_stmt(fn, lambda s_: isinstance(s_, ast.If) and 'MATH_ENV_NAMES' in ast.unparse(s_.test))
    return {'reader': src(t)}


@control(['C12'], 'operator-signature-removed', ['R12.e'], 'remove the zero-argument signature of \\cup')
def c_cup(repo):
    t = parse(repo, 'reader')
    for st_ in t.body:
        if isinstance(st_, ast.Assign) and isinstance(st_.targets[0], ast.Name) and st_.targets[0].id == 'SIGNATURES':
            d = st_.value
            for i, k in enumerate(d.keys):
                if isinstance(k, ast.Constant) and k.value == 'cup':
                    del d.keys[i]
                    del d.values[i]
                    return {'reader': src(t)}
    raise NotApplicable('SIGNATURES')


@control(['C09'], 'two-spacer-reads', ['R09.b'], 'read a second whitespace token in the optional-argument loop')
def c_two_spacers(repo):
    t = parse(repo, 'reader')
    fn = find_func(t, 'read_arg_optional')
    w = _first(fn, lambda n: isinstance(n, ast.While))
    w.body.insert(1, ast.Expr(ast.Call(ast.Name('read_spacer', ast.Load()), [ast.Name(fn.args.args[0].arg, ast.Load())], [])))
    return {'reader': src(t)}


@control(['C09'], 'spacer-selects-branch', ['R09.d'], 'attach a brace group only when no whitespace precedes it')
def c_spacer_branch(repo):
    t = parse(repo, 'reader')
    fn = find_func(t, 'read_arg_required')
    w = _first(fn, lambda n: isinstance(n, ast.While))
    i0 = _first(w, lambda n: isinstance(n, ast.If) and isinstance(n.test, ast.BoolOp) and 'GroupBegin' in ast.unparse(n.test))
    i0.test.values.append(ast.UnaryOp(ast.Not(), ast.Name(w.body[0].targets[0].id, ast.Load())))
    return {'reader': src(t)}


@control(['C09'], 'group-closes-on-fixed-kind', ['R09.e'], 'close every group on a closing brace regardless of its opener')
def c_group_fixed(repo):
    t = parse(repo, 'reader')
    fn = find_func(t, 'read_arg')

    def pred(n):
        return isinstance(n, ast.Attribute) and n.attr == 'token_end'
    replace_expr(fn, pred, lambda n: ast.Attribute(ast.Name('TC', ast.Load()), 'GroupEnd', ast.Load()))
    return {'reader': src(t)}


# ---- option roles (C07, C11, C02)

def _drop_kw(call, name):
    for i, k in enumerate(call.keywords):
        if k.arg == name:
            del call.keywords[i]
            return True
    return False


def _calls_to(fn, name):
    return [n for n in ast.walk(fn) if isinstance(n, ast.Call) and isinstance(n.func, ast.Name) and n.func.id == name]


@control(['C07'], 'tolerance-not-forwarded-into-env-body', ['R07.b'], 'do not forward the tolerance option from the environment reader to the expression reader')
def c_tol_drop(repo):
    t = parse(repo, 'reader')
    fn = find_func(t, 'read_env')
    for c in _calls_to(fn, 'read_expr'):
        if _drop_kw(c, 'tolerance'):
            return {'reader': src(t)}
    raise NotApplicable('tolerance keyword')


@control(['C07'], 'tolerance-guards-return', ['R07.a'], 'make the tolerance test of the group reader select between two non-raising branches')
def c_tol_branch(repo):
    t = parse(repo, 'reader')
    fn = find_func(t, 'read_arg')
    for i, s_ in enumerate(fn.body):
        if isinstance(s_, ast.If) and 'tolerance' in ast.unparse(s_.test) and any(isinstance(x, ast.Raise) for x in ast.walk(s_)):
            s_.body = [ast.Return(ast.Call(ast.Name('arg', ast.Load()), [], []))]
            return {'reader': src(t)}
    raise NotApplicable('tolerance test')


@control(['C07'], 'tolerant-branch-consumes', ['R07.c'], 'consume a token on the tolerant continuation of the environment error test')
def c_tol_consumes(repo):
    t = parse(repo, 'reader')
    fn = find_func(t, 'read_env')
    for n in ast.walk(fn):
        if isinstance(n, ast.If) and 'tolerance' in ast.unparse(n.test) and n.orelse and isinstance(n.orelse[0], ast.If):
            inner = n.orelse[0]
            inner.orelse = [ast.Expr(ast.Call(ast.Attribute(ast.Name(fn.args.args[0].arg, ast.Load()), 'forward', ast.Load()),
                                              [ast.Constant(1)], []))]
            return {'reader': src(t)}
    raise NotApplicable('error test')


@control(['C11'], 'raw-reader-parses', ['R11.a'], 'call the expression reader from the raw reader')
def c_raw_parses(repo):
    t = parse(repo, 'reader')
    fn = find_func(t, 'read_skip_env')
    idx = 1 if isinstance(fn.body[0], ast.Expr) and isinstance(fn.body[0].value, ast.Constant) else 0
    fn.body.insert(idx, ast.Expr(ast.Call(ast.Name('read_expr', ast.Load()), [ast.Name(fn.args.args[0].arg, ast.Load())], [])))
    return {'reader': src(t)}


@control(['C11'], 'builtin-skip-names-separate', ['R11.b'], 'test the built-in skip names separately from the user-supplied ones')
def c_skip_separate(repo):
    t = parse(repo, 'reader')
    fn = find_func(t, 'read_tex')
    for c in _calls_to(fn, 'read_expr'):
        for k in c.keywords:
            if k.arg == 'skip_envs' and isinstance(k.value, ast.BinOp):
                k.value = k.value.right
    d = find_func(t, 'read_expr')
    for n in ast.walk(d):
        if isinstance(n, ast.If) and isinstance(n.test, ast.Compare) and 'skip_envs' in ast.unparse(n.test):
            n.test = ast.BoolOp(ast.Or(), [n.test, ast.Compare(n.test.left, [ast.In()], [ast.Name('SKIP_ENV_NAMES', ast.Load())])])
            return {'reader': src(t)}
    raise NotApplicable('skip test')


@control(['C11'], 'skip-list-not-forwarded', ['R11.c'], 'do not forward the skip list into environment bodies')
def c_skip_drop(repo):
    t = parse(repo, 'reader')
    fn = find_func(t, 'read_env')
    for c in _calls_to(fn, 'read_expr'):
        if _drop_kw(c, 'skip_envs'):
            return {'reader': src(t)}
    raise NotApplicable('skip_envs keyword')


@control(['C11'], 'raw-scan-wrong-closer', ['R11.d'], 'scan for \\end{ without the environment name')
def c_raw_closer(repo):
    t = parse(repo, 'reader')
    fn = find_func(t, 'read_skip_env')
    n = _first(fn, lambda x: is_call_attr(x, 'startswith'))
    n.args[0] = ast.Constant('\\end{')
    return {'reader': src(t)}


@control(['C02'], 'mode-not-forwarded-into-arguments', ['R02.a'], 'do not forward the mode from the argument reader to the group reader')
def c_mode_drop(repo):
    t = parse(repo, 'reader')
    fn = find_func(t, 'read_arg_required')
    for c in _calls_to(fn, 'read_arg'):
        if _drop_kw(c, 'mode'):
            return {'reader': src(t)}
    raise NotApplicable('mode keyword')


@control(['C02'], 'begin-branch-ignores-definition-mode', ['R02.a'], 'open environments also inside \\newcommand definitions')
def c_begin_mode(repo):
    t = parse(repo, 'reader')
    fn = find_func(t, 'read_expr')
    for n in ast.walk(fn):
        if isinstance(n, ast.If) and isinstance(n.test, ast.BoolOp) and 'MODE_SPECIAL' in ast.unparse(n.test):
            n.test = n.test.values[0]
            return {'reader': src(t)}
    raise NotApplicable('begin branch')


@control(['C02'], 'item-does-not-stop-at-end', ['R02.b'], 'let an item body run past \\end')
def c_item_stop(repo):
    t = parse(repo, 'reader')
    fn = find_func(t, 'read_item')
    tup = _first(fn, lambda x: isinstance(x, ast.Tuple) and any(isinstance(e, ast.Constant) and e.value == 'end' for e in x.elts))
    tup.elts = [e for e in tup.elts if not (isinstance(e, ast.Constant) and e.value == 'end')]
    return {'reader': src(t)}
