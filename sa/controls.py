"""Positive controls and ablation audit.

A control is an in-memory AST edit of the *current* tree that removes the construct which
discharges a rule (located semantically, not by line or text); the rule must then report a
finding.  Nothing is written to /repo or to disk; the edited module source is handed to the
analyser through Repo(overrides=...).  A control whose anchor cannot be located on the
current tree is reported as `not applicable` (a refactor may have removed the construct);
a control that is applied but does not fire makes the run an ANALYSIS-ERROR.
"""
import ast
import copy
import os
import random
import multiprocessing

from .model import Repo, AnalysisError, norm
from .core import Ctx


class NotApplicable(Exception):
    pass


# --------------------------------------------------------------------------- AST helpers

def parse(repo, module):
    return ast.parse(repo.modules[module].src)


def find_func(tree, name, cls=None):
    body = tree.body
    if cls:
        for st in tree.body:
            if isinstance(st, ast.ClassDef) and st.name == cls:
                body = st.body
                break
        else:
            raise NotApplicable('class %s' % cls)
    for st in body:
        if isinstance(st, ast.FunctionDef) and st.name == name:
            return st
    raise NotApplicable('function %s' % name)


def find_funcs(tree, name, cls):
    for st in tree.body:
        if isinstance(st, ast.ClassDef) and st.name == cls:
            return [x for x in st.body if isinstance(x, ast.FunctionDef) and x.name == name]
    raise NotApplicable('class %s' % cls)


def remove_stmt(root, pred):
    """remove the first statement satisfying pred from any statement list under root"""
    for node in ast.walk(root):
        for field in ('body', 'orelse', 'finalbody'):
            lst = getattr(node, field, None)
            if isinstance(lst, list):
                for i, st in enumerate(lst):
                    if isinstance(st, ast.stmt) and pred(st):
                        del lst[i]
                        if not lst:
                            lst.append(ast.Pass())
                        return st
    raise NotApplicable('statement to remove')


def replace_expr(root, pred, make):
    """replace the first expression node satisfying pred by make(node)"""
    class T(ast.NodeTransformer):
        done = False

        def generic_visit(self, node):
            if self.done:
                return node
            if isinstance(node, ast.expr) and pred(node):
                self.done = True
                return make(node)
            return super().generic_visit(node)
    t = T()
    t.visit(root)
    if not t.done:
        raise NotApplicable('expression to replace')
    ast.fix_missing_locations(root)


def drop_conjunct(root, pred):
    """remove the first operand satisfying pred from a BoolOp (and/or)"""
    for node in ast.walk(root):
        if isinstance(node, ast.BoolOp):
            for i, v in enumerate(node.values):
                if pred(v):
                    del node.values[i]
                    if len(node.values) == 1:
                        # collapse
                        only = node.values[0]
                        node.values = [only, copy.deepcopy(only)] if False else node.values
                        # replace BoolOp by its single operand in parent
                        _replace_node(root, node, only)
                    return v
    raise NotApplicable('conjunct')


def _replace_node(root, old, new):
    for parent in ast.walk(root):
        for field, val in ast.iter_fields(parent):
            if val is old:
                setattr(parent, field, new)
                return
            if isinstance(val, list):
                for i, x in enumerate(val):
                    if x is old:
                        val[i] = new
                        return


def is_call_attr(n, attr, recv=None):
    return (isinstance(n, ast.Call) and isinstance(n.func, ast.Attribute) and n.func.attr == attr
            and (recv is None or (isinstance(n.func.value, ast.Name) and n.func.value.id == recv)))


def src(tree):
    ast.fix_missing_locations(tree)
    return ast.unparse(tree)


# --------------------------------------------------------------------------- registry

CONTROLS = {}       # prop -> list of (cid, rule_ids, description, fn(repo)->overrides)


def control(props_, cid, rules, desc):
    def deco(fn):
        for p in props_:
            CONTROLS.setdefault(p, []).append((cid, tuple(rules), desc, fn))
        return fn
    return deco


def _run_one(args):
    prop, cid, tier, seed, root = args
    from . import run as runner
    from . import props
    ent = [c for c in CONTROLS.get(prop, []) if c[0] == cid][0]
    base = Repo(root)
    try:
        ov = ent[3](base)
    except NotApplicable as e:
        return (cid, 'n/a', 'anchor not found: %s' % e, [])
    try:
        ctx = Ctx(Repo(root, overrides=ov), tier='quick', seed=seed)
        results = runner.analyse(prop, ctx)
    except AnalysisError as e:
        return (cid, 'error', 'analysis error on the control variant: %s' % e, [])
    hits = [(rr.id, f.function, f.construct) for rr in results for f in rr.findings]
    # findings already present on the unmodified tree do not count
    return (cid, 'ran', '', hits)


def baseline_keys(prop, ctx):
    from . import run as runner
    res = runner.analyse(prop, ctx)
    return {(rr.id, f.function, f.construct) for rr in res for f in rr.findings}


def run_controls(prop, ctx, tier='quick', seed=0):
    ents = CONTROLS.get(prop, [])
    base = baseline_keys(prop, ctx)
    jobs = [(prop, c[0], tier, seed, ctx.repo.root) for c in ents]
    nproc = min(len(jobs), int(os.environ.get('VERIF_JOBS', '16'))) or 1
    if nproc > 1:
        with multiprocessing.get_context('fork').Pool(nproc) as pool:
            outs = pool.map(_run_one, jobs)
    else:
        outs = [_run_one(j) for j in jobs]
    info = {'total': 0, 'fired': 0, 'silent': [], 'not_applicable': [], 'details': []}
    byid = {c[0]: c for c in ents}
    for cid, status, msg, hits in outs:
        rules = byid[cid][1]
        if status == 'n/a':
            info['not_applicable'].append('%s (%s)' % (cid, msg))
            continue
        info['total'] += 1
        new = [h for h in hits if h not in base]
        ok = status == 'ran' and any(h[0] in rules or any(h[0].startswith(r) for r in rules) for h in new)
        if ok:
            info['fired'] += 1
        else:
            info['silent'].append('%s [%s] %s' % (cid, ','.join(rules), msg or 'reported %s' % sorted({h[0] for h in new})))
        info['details'].append({'control': cid, 'expects': list(rules), 'description': byid[cid][2],
                                'reported': sorted({'%s @ %s' % (h[0], h[1]) for h in new})[:6], 'fired': ok})
    if ents and info['total'] == 0:
        raise AnalysisError('no positive control of %s is applicable to the current tree' % prop)
    return info


# =========================================================================== controls

# ---- tokenizer (C19 / C06 / C09 / C10 / C12 / C13)

def _rule_funcs(tree):
    out = []
    for st in tree.body:
        if isinstance(st, ast.FunctionDef):
            for d in st.decorator_list:
                if isinstance(d, ast.Call) and isinstance(d.func, ast.Name) and d.func.id == 'token':
                    out.append((d.args[0].value, st))
    return out


def _rule_storing(tree, tcname):
    """the rule function that stores TC.<tcname> as category"""
    for name, fn in _rule_funcs(tree):
        for n in ast.walk(fn):
            if isinstance(n, ast.Attribute) and n.attr == tcname and isinstance(n.value, ast.Name) and n.value.id == 'TC':
                return fn
    raise NotApplicable('rule emitting TC.%s' % tcname)


@control(['C19', 'C13'], 'categorize-drop-yield', ['R19.a'], 'delete the yield of the fallback category in categorize')
def c_categorize_drop_yield(repo):
    t = parse(repo, 'category')
    fn = find_func(t, 'categorize')
    remove_stmt(fn, lambda s: isinstance(s, ast.Expr) and isinstance(s.value, ast.Yield))
    return {'category': src(t)}


@control(['C19', 'C01'], 'spacer-no-rollback', ['R19.b'], 'delete the cursor rollback of the spacer rule')
def c_spacer_no_rollback(repo):
    t = parse(repo, 'tokens')
    fn = _rule_storing(t, 'MergedSpacer')
    remove_stmt(fn, lambda s: isinstance(s, ast.Expr) and is_call_attr(s.value, 'backward'))
    return {'tokens': src(t)}


@control(['C19'], 'text-stops-at-unhandled', ['R19.c', 'R19.d'], 'add a category without a rule of its own to the text rule stop set')
def c_text_stop(repo):
    t = parse(repo, 'tokens')
    fn = _rule_storing(t, 'Text')

    def pred(n):
        return isinstance(n, ast.Tuple) and n.elts and all(
            isinstance(e, ast.Attribute) and isinstance(e.value, ast.Name) and e.value.id == 'CC' for e in n.elts) and len(n.elts) >= 3

    def make(n):
        n.elts.append(ast.Attribute(ast.Name('CC', ast.Load()), 'Active', ast.Load()))
        return n
    replace_expr(fn, pred, make)
    return {'tokens': src(t)}


@control(['C19', 'C13'], 'position-after-consume', ['R19.e'], 'overwrite the token position with the cursor position read after consuming')
def c_position_after(repo):
    t = parse(repo, 'tokens')
    fn = _rule_storing(t, 'Comment')
    for node in ast.walk(fn):
        body = getattr(node, 'body', None)
        if isinstance(body, list):
            for i, s_ in enumerate(body):
                if isinstance(s_, ast.Return) and isinstance(s_.value, ast.Name):
                    name = s_.value.id
                    body.insert(i, ast.Assign([ast.Attribute(ast.Name(name, ast.Load()), 'position', ast.Store())],
                                              ast.Attribute(ast.Name('text', ast.Load()), 'position', ast.Load())))
                    return {'tokens': src(t)}
    raise NotApplicable('return of the comment token')


@control(['C19'], 'kind-not-stored', ['R19.g'], 'delete the statement that stores the token kind in the symbols rule')
def c_kind_not_stored(repo):
    t = parse(repo, 'tokens')
    fn = _rule_storing(t, 'GroupBegin')
    remove_stmt(fn, lambda s: isinstance(s, ast.Assign) and isinstance(s.targets[0], ast.Attribute)
                and s.targets[0].attr == 'category')
    return {'tokens': src(t)}


@control(['C19'], 'driver-yield-dropped', ['R19.f'], 'delete the yield in the token generator')
def c_driver_yield(repo):
    t = parse(repo, 'tokens')
    fn = find_func(t, 'tokenize')
    remove_stmt(fn, lambda s: isinstance(s, ast.Expr) and isinstance(s.value, ast.Yield))
    return {'tokens': src(t)}


@control(['C19', 'C06'], 'ignore-without-restart', ['R19.c', 'R06.b'], 'revert the repaired round restart / end-of-input guard of the ignore rule')
def c_ignore_revert(repo):
    t = parse(repo, 'tokens')
    fn = find_func(t, 'next_token')
    # remove `if text.position != start: break`
    remove_stmt(fn, lambda s: isinstance(s, ast.If) and any(isinstance(b, ast.Break) for b in s.body)
                and 'position' in ast.unparse(s.test))
    return {'tokens': src(t)}


@control(['C06'], 'comment-loop-unguarded', ['R06.b'], 'delete the end-of-input conjunct of the comment rule loop')
def c_comment_unguarded(repo):
    t = parse(repo, 'tokens')
    fn = _rule_storing(t, 'Comment')
    loops = [n for n in ast.walk(fn) if isinstance(n, ast.While)]
    if not loops:
        raise NotApplicable('comment loop')
    drop_conjunct(loops[0], lambda v: is_call_attr(v, 'hasNext'))
    return {'tokens': src(t)}


@control(['C10'], 'registry-escaped-after-symbols', ['R10.a'], 'register the escaped-symbol rule after the single-character symbol rule')
def c_registry_swap(repo):
    t = parse(repo, 'tokens')
    esc = _rule_storing(t, 'EscapedComment')
    sym = _rule_storing(t, 'GroupBegin')
    i, j = t.body.index(esc), t.body.index(sym)
    if i > j:
        raise NotApplicable('order')
    t.body.insert(j + 1, esc)
    del t.body[i]
    return {'tokens': src(t)}


@control(['C10'], 'comment-stops-early', ['R10.b'], 'let a second category end the comment token')
def c_comment_stops(repo):
    t = parse(repo, 'tokens')
    fn = _rule_storing(t, 'Comment')
    loops = [n for n in ast.walk(fn) if isinstance(n, ast.While)]
    if not loops:
        raise NotApplicable('comment loop')

    def pred(n):
        return isinstance(n, ast.Compare) and isinstance(n.ops[0], ast.NotEq) and isinstance(n.comparators[0], ast.Attribute) \
            and n.comparators[0].attr == 'EndOfLine'

    def make(n):
        return ast.Compare(n.left, [ast.NotIn()], [ast.Tuple([n.comparators[0], ast.Attribute(ast.Name('CC', ast.Load()), 'GroupEnd', ast.Load())], ast.Load())])
    replace_expr(loops[0], pred, make)
    return {'tokens': src(t)}


@control(['C12'], 'bracket-escaped-symbol', ['R12.a'], 'add CC.BracketBegin to the escaped-symbol set')
def c_bracket_escaped(repo):
    t = parse(repo, 'tokens')
    fn = _rule_storing(t, 'EscapedComment')

    def pred(n):
        return isinstance(n, ast.Tuple) and len(n.elts) >= 3 and all(
            isinstance(e, ast.Attribute) and isinstance(e.value, ast.Name) and e.value.id == 'CC' for e in n.elts)

    def make(n):
        n.elts.append(ast.Attribute(ast.Name('CC', ast.Load()), 'BracketBegin', ast.Load()))
        return n
    replace_expr(fn, pred, make)
    return {'tokens': src(t)}


@control(['C09'], 'spacer-two-linebreaks', ['R09.a'], 'turn the single line-break test of the spacer rule into a loop')
def c_spacer_loop(repo):
    t = parse(repo, 'tokens')
    fn = _rule_storing(t, 'MergedSpacer')
    for i, s in enumerate(fn.body):
        if isinstance(s, ast.If) and 'EndOfLine' in ast.unparse(s.test) and not s.orelse:
            fn.body[i] = ast.While(s.test, s.body, [])
            return {'tokens': src(t)}
    raise NotApplicable('line-break test')


# ---- reader / Buffer (C06, C20)

def _first(root, pred):
    for n in ast.walk(root):
        if pred(n):
            return n
    raise NotApplicable('node')


@control(['C06'], 'command-name-unguarded-next', ['R06.a'], 'read the command name with an unguarded next()')
def c_cmd_next(repo):
    t = parse(repo, 'reader')
    fn = find_func(t, 'read_command')

    def pred(n):
        return isinstance(n, ast.IfExp) and isinstance(n.body, ast.Call) and isinstance(n.body.func, ast.Name) \
            and n.body.func.id == 'next'
    replace_expr(fn, pred, lambda n: n.body)
    return {'reader': src(t)}


@control(['C06'], 'bare-token-unguarded-next', ['R06.a'], 'delete the hasNext() conjunct before the bare-token next() in the required-argument reader')
def c_bare_next(repo):
    t = parse(repo, 'reader')
    fn = find_func(t, 'read_arg_required')
    # the elif whose body starts with `x = next(src)`
    for n in ast.walk(fn):
        if isinstance(n, ast.If) and n.body and isinstance(n.body[0], ast.Assign) and isinstance(n.body[0].value, ast.Call) \
                and isinstance(n.body[0].value.func, ast.Name) and n.body[0].value.func.id == 'next':
            drop_conjunct(n.test, lambda v: is_call_attr(v, 'hasNext'))
            # the loop test also implies an item; drop it there too
            for w in ast.walk(fn):
                if isinstance(w, ast.While) and isinstance(w.test, ast.BoolOp):
                    try:
                        drop_conjunct(w, lambda v: is_call_attr(v, 'hasNext'))
                    except NotApplicable:
                        pass
            return {'reader': src(t)}
    raise NotApplicable('bare-token branch')


@control(['C06'], 'math-loop-unguarded-peek', ['R06.b'], 'delete the hasNext() conjunct of the math-environment loop')
def c_math_unguarded(repo):
    t = parse(repo, 'reader')
    fn = find_func(t, 'read_math_env')
    w = _first(fn, lambda n: isinstance(n, ast.While))
    drop_conjunct(w, lambda v: is_call_attr(v, 'hasNext'))
    return {'reader': src(t)}


@control(['C06'], 'item-loop-no-progress', ['R06.c'], 'replace the expression read in the item loop by pass')
def c_item_noprogress(repo):
    t = parse(repo, 'reader')
    fn = find_func(t, 'read_item')
    w = _first(fn, lambda n: isinstance(n, ast.While))
    for i, s_ in enumerate(w.body):
        if isinstance(s_, ast.Expr) and isinstance(s_.value, ast.Call) and any(
                isinstance(x, ast.Name) and x.id == 'read_expr' for x in ast.walk(s_)):
            w.body[i] = ast.Pass()
            return {'reader': src(t)}
    raise NotApplicable('read_expr statement')


@control(['C06'], 'raise-valueerror', ['R06.d'], 'raise ValueError instead of TypeError for a malformed argument')
def c_raise_value(repo):
    t = parse(repo, 'reader')
    fn = find_func(t, 'read_arg')
    r = _first(fn, lambda n: isinstance(n, ast.Raise) and isinstance(n.exc, ast.Call))
    r.exc.func = ast.Name('ValueError', ast.Load())
    return {'reader': src(t)}


@control(['C06'], 'begin-without-assert', ['R06.e'], 'delete the non-emptiness assertion before args[0] in the expression reader')
def c_begin_noassert(repo):
    t = parse(repo, 'reader')
    fn = find_func(t, 'read_expr')
    remove_stmt(fn, lambda s_: isinstance(s_, ast.Assert) and 'args' in ast.unparse(s_.test))
    return {'reader': src(t)}


@control(['C06', 'C09', 'C12'], 'group-opener-unpinned', ['R06.g', 'R12.d'], 'call the group reader for every token kind (drop the GroupBegin guard)')
def c_group_unpinned(repo):
    t = parse(repo, 'reader')
    fn = find_func(t, 'read_expr')
    for i, s_ in enumerate(fn.body):
        if isinstance(s_, ast.If) and 'GroupBegin' in ast.unparse(s_.test) and len(s_.body) == 1 \
                and isinstance(s_.body[0], ast.Return):
            s_.test = ast.Compare(ast.Attribute(ast.Name('c', ast.Load()), 'category', ast.Load()), [ast.NotEq()],
                                  [ast.Attribute(ast.Name('TC', ast.Load()), 'Text', ast.Load())])
            return {'reader': src(t)}
    raise NotApplicable('GroupBegin guard')


def _buffer_method(t, name):
    return find_func(t, name, cls='Buffer')


@control(['C20'], 'getitem-no-restore', ['R20.a'], 'delete the cursor restore in Buffer.__getitem__')
def c_getitem_norestore(repo):
    t = parse(repo, 'utils')
    fn = _buffer_method(t, '__getitem__')
    remove_stmt(fn, lambda s_: isinstance(s_, ast.Assign) and isinstance(s_.targets[0], ast.Attribute)
                and isinstance(s_.value, ast.Name))
    return {'utils': src(t)}


@control(['C20'], 'query-leaves-state', ['R20.g'], 'let Buffer.hasNext record a flag that __next__ consults')
def c_query_state(repo):
    t = parse(repo, 'utils')
    fn = _buffer_method(t, 'hasNext')
    fn.body.insert(len(fn.body) - 1, ast.parse('self._asked = True').body[0])
    nx = _buffer_method(t, '__next__')
    nx.body.insert(0, ast.parse('if getattr(self, "_x", 0):\n    self._asked = self._asked').body[0])
    return {'utils': src(t)}


@control(['C20'], 'backward-no-underflow-check', ['R20.b'], 'delete the underflow assertion of Buffer.backward')
def c_backward_noassert(repo):
    t = parse(repo, 'utils')
    fn = _buffer_method(t, 'backward')
    remove_stmt(fn, lambda s_: isinstance(s_, ast.Assert))
    return {'utils': src(t)}


@control(['C20'], 'forward-slice-shifted', ['R20.b'], 'shift the lower bound of the slice returned by Buffer.forward by one')
def c_forward_shift(repo):
    t = parse(repo, 'utils')
    fn = _buffer_method(t, 'forward')
    sl = _first(fn, lambda n: isinstance(n, ast.Slice) and n.lower is not None)
    sl.lower = ast.BinOp(sl.lower, ast.Add(), ast.Constant(1))
    return {'utils': src(t)}


@control(['C20', 'C06'], 'peek-leaks-indexerror', ['R20.c'], 'narrow the exception handler of Buffer.peek to another type')
def c_peek_leak(repo):
    t = parse(repo, 'utils')
    fn = _buffer_method(t, 'peek')
    h = _first(fn, lambda n: isinstance(n, ast.ExceptHandler))
    h.type = ast.Name('KeyError', ast.Load())
    return {'utils': src(t)}


@control(['C20', 'C06'], 'forward-until-unguarded-peek', ['R20.c', 'R06.b'], 'dereference the peek in Buffer.forward_until unconditionally')
def c_forward_until_revert(repo):
    t = parse(repo, 'utils')
    fn = _buffer_method(t, 'forward_until')

    def pred(n):
        return isinstance(n, ast.IfExp) and isinstance(n.body, ast.Attribute) and n.body.attr == 'position'
    replace_expr(fn, pred, lambda n: n.body)
    return {'utils': src(t)}


@control(['C20'], 'queue-cleared', ['R20.d'], 'clear the item queue in Buffer.forward')
def c_queue_clear(repo):
    t = parse(repo, 'utils')
    fn = _buffer_method(t, 'forward')
    q = None
    for n in ast.walk(_buffer_method(t, '__next__')):
        if isinstance(n, ast.Call) and isinstance(n.func, ast.Attribute) and n.func.attr == 'append':
            q = n.func.value
    if q is None:
        raise NotApplicable('queue field')
    fn.body.insert(1 if isinstance(fn.body[0], ast.Expr) else 0,
                   ast.Expr(ast.Call(ast.Attribute(copy.deepcopy(q), 'clear', ast.Load()), [], [])))
    return {'utils': src(t)}


# ---- conservation / serialisers (C08, C01, C09, C07)

@control(['C08', 'C09'], 'required-arg-loop-no-rollback', ['R08.a', 'R09.c'], 'delete the spacer rollback at the end of the required-argument loop')
def c_no_spacer_rollback(repo):
    t = parse(repo, 'reader')
    fn = find_func(t, 'read_arg_required')
    w = _first(fn, lambda n: isinstance(n, ast.While))
    # the last `if spacer: src.backward(1)` directly in the loop body
    for i in range(len(w.body) - 1, -1, -1):
        s_ = w.body[i]
        if isinstance(s_, ast.If) and any(is_call_attr(x, 'backward') for x in ast.walk(s_)):
            del w.body[i]
            return {'reader': src(t)}
    raise NotApplicable('rollback statement')


@control(['C07'], 'env-closer-discard-unguarded', ['R07.d', 'R07.c'], 'discard the closer of an environment also on the error path (elif not error -> else)')
def c_env_else(repo):
    t = parse(repo, 'reader')
    fn = find_func(t, 'read_env')
    for n in ast.walk(fn):
        if isinstance(n, ast.If) and len(n.orelse) == 1 and isinstance(n.orelse[0], ast.If) \
                and any(is_call_attr(x, 'forward') for x in ast.walk(n.orelse[0])):
            n.orelse = n.orelse[0].body
            return {'reader': src(t)}
    raise NotApplicable('elif not error')


@control(['C08', 'C01'], 'env-serialiser-filtering-view', ['R08.e'], 'let the environment serialiser print the whitespace-filtering contents view')
def c_env_str_view(repo):
    t = parse(repo, 'data')
    fn = find_func(t, '__str__', cls='TexEnv')

    def pred(n):
        return isinstance(n, ast.Attribute) and n.attr == '_contents'

    def make(n):
        n.attr = 'contents'
        return n
    replace_expr(fn, pred, make)
    return {'data': src(t)}


@control(['C08', 'C01', 'C12'], 'math-closer-literal', ['T'], 'change the closing literal of the \\(..\\) math class')
def c_math_literal(repo):
    t = parse(repo, 'data')
    for st_ in t.body:
        if isinstance(st_, ast.ClassDef) and st_.name == 'TexMathEnv':
            for a in st_.body:
                if isinstance(a, ast.Assign) and a.targets[0].id == 'end':
                    a.value = ast.Constant('\\]')
                    return {'data': src(t)}
    raise NotApplicable('TexMathEnv.end')


@control(['C08', 'C01'], 'item-expression-dropped', ['R08.a'], 'do not keep the expressions read inside an item')
def c_item_dropped(repo):
    t = parse(repo, 'reader')
    fn = find_func(t, 'read_item')
    w = _first(fn, lambda n: isinstance(n, ast.While))
    for i, s_ in enumerate(w.body):
        if isinstance(s_, ast.Expr) and is_call_attr(s_.value, 'append') and s_.value.args \
                and isinstance(s_.value.args[0], ast.Call):
            w.body[i] = ast.Expr(s_.value.args[0])
            return {'reader': src(t)}
    raise NotApplicable('append in item loop')


@control(['C08'], 'invented-literal', ['R08.d'], 'wrap a bare-token argument in braces plus a space')
def c_invented(repo):
    t = parse(repo, 'reader')
    fn = find_func(t, 'read_arg_required')
    c = _first(fn, lambda n: isinstance(n, ast.Constant) and isinstance(n.value, str) and '%s' in n.value)
    c.value = c.value.replace('%s', '%s ')
    return {'reader': src(t)}


@control(['C01', 'C11'], 'verbatim-body-stripped', ['R01.a'], 'strip the raw body of a skipped environment')
def c_verbatim_strip(repo):
    t = parse(repo, 'reader')
    fn = find_func(t, 'read_skip_env')

    def pred(n):
        return is_call_attr(n, 'forward_until')

    def make(n):
        return ast.Call(ast.Attribute(n, 'strip', ast.Load()), [], [])
    replace_expr(fn, pred, make)
    return {'reader': src(t)}


@control(['C08'], 'begin-group-kind-unpinned', ['R08.a'], 'accept any group kind after \\begin (drop the brace-group test)')
def c_begin_unpinned(repo):
    t = parse(repo, 'reader')
    fn = find_func(t, 'read_expr')
    a = _first(fn, lambda n: isinstance(n, ast.Assert) and isinstance(n.test, ast.BoolOp))
    a.test = a.test.values[0]
    return {'reader': src(t)}


# ---- dispatch structure (C10, C12, C09)

@control(['C10'], 'reader-branches-on-comment', ['R10.c'], 'add a branch on the comment token kind to the expression dispatcher')
def c_comment_branch(repo):
    t = parse(repo, 'reader')
    fn = find_func(t, 'read_expr')
    new = ast.parse("if c.category == TC.Comment:\n    return TexText(c)").body[0]
    idx = 1 if isinstance(fn.body[0], ast.Expr) and isinstance(fn.body[0].value, ast.Constant) else 0
    fn.body.insert(idx + 1, new)
    return {'reader': src(t)}


@control(['C12'], 'math-body-not-math-mode', ['R12.b'], 'read the body of a math region in non-math mode')
def c_math_mode(repo):
    t = parse(repo, 'reader')
    fn = find_func(t, 'read_math_env')
    for n in ast.walk(fn):
        if isinstance(n, ast.keyword) and n.arg == 'mode':
            n.value = ast.Name('MODE_NON_MATH', ast.Load())
            return {'reader': src(t)}
    raise NotApplicable('mode keyword')


@control(['C12'], 'named-math-no-switch', ['R12.c'], 'delete the math-mode switch for named math environments')
def c_named_math(repo):
    t = parse(repo, 'reader')
    fn = find_func(t, 'read_expr')
    remove_stmt(fn, lambda s_: isinstance(s_, ast.If) and 'MATH_ENV_NAMES' in ast.unparse(s_.test))
    return {'reader': src(t)}


@control(['C12'], 'operator-signature-removed', ['R12.e'], 'remove the zero-argument signature of \\cup')
def c_cup(repo):
    t = parse(repo, 'reader')
    for st_ in t.body:
        if isinstance(st_, ast.Assign) and isinstance(st_.targets[0], ast.Name) and st_.targets[0].id == 'SIGNATURES':
            d = st_.value
            for i, k in enumerate(d.keys):
                if isinstance(k, ast.Constant) and k.value == 'cup':
                    del d.keys[i]
                    del d.values[i]
                    return {'reader': src(t)}
    raise NotApplicable('SIGNATURES')


@control(['C09'], 'two-spacer-reads', ['R09.b'], 'read a second whitespace token in the optional-argument loop')
def c_two_spacers(repo):
    t = parse(repo, 'reader')
    fn = find_func(t, 'read_arg_optional')
    w = _first(fn, lambda n: isinstance(n, ast.While))
    w.body.insert(1, ast.Expr(ast.Call(ast.Name('read_spacer', ast.Load()), [ast.Name(fn.args.args[0].arg, ast.Load())], [])))
    return {'reader': src(t)}


@control(['C09', 'C14'], 'unguarded-second-pass', ['R09.j'], 'enter the second bracket pass of read_args without the adjacency test')
def c_second_pass(repo):
    t = parse(repo, 'reader')
    fn = find_func(t, 'read_args')
    ifs = [n for n in fn.body if isinstance(n, ast.If) and 'BracketBegin' in ast.unparse(n.test)]
    if not ifs:
        raise NotApplicable('second bracket pass of read_args')
    i = fn.body.index(ifs[0])
    fn.body[i:i + 1] = ifs[0].body
    return {'reader': src(t)}


@control(['C09'], 'spacer-selects-branch', ['R09.d'], 'attach a brace group only when no whitespace precedes it')
def c_spacer_branch(repo):
    t = parse(repo, 'reader')
    fn = find_func(t, 'read_arg_required')
    w = _first(fn, lambda n: isinstance(n, ast.While))
    i0 = _first(w, lambda n: isinstance(n, ast.If) and isinstance(n.test, ast.BoolOp) and 'GroupBegin' in ast.unparse(n.test))
    i0.test.values.append(ast.UnaryOp(ast.Not(), ast.Name(w.body[0].targets[0].id, ast.Load())))
    return {'reader': src(t)}


@control(['C09'], 'group-closes-on-fixed-kind', ['R09.e'], 'close every group on a closing brace regardless of its opener')
def c_group_fixed(repo):
    t = parse(repo, 'reader')
    fn = find_func(t, 'read_arg')

    def pred(n):
        return isinstance(n, ast.Attribute) and n.attr == 'token_end'
    replace_expr(fn, pred, lambda n: ast.Attribute(ast.Name('TC', ast.Load()), 'GroupEnd', ast.Load()))
    return {'reader': src(t)}


# ---- option roles (C07, C11, C02)

def _drop_kw(call, name):
    for i, k in enumerate(call.keywords):
        if k.arg == name:
            del call.keywords[i]
            return True
    return False


def _calls_to(fn, name):
    return [n for n in ast.walk(fn) if isinstance(n, ast.Call) and isinstance(n.func, ast.Name) and n.func.id == name]


@control(['C07'], 'tolerance-not-forwarded-into-env-body', ['R07.b'], 'do not forward the tolerance option from the environment reader to the expression reader')
def c_tol_drop(repo):
    t = parse(repo, 'reader')
    fn = find_func(t, 'read_env')
    for c in _calls_to(fn, 'read_expr'):
        if _drop_kw(c, 'tolerance'):
            return {'reader': src(t)}
    raise NotApplicable('tolerance keyword')


@control(['C07'], 'tolerance-guards-return', ['R07.a'], 'make the tolerance test of the group reader select between two non-raising branches')
def c_tol_branch(repo):
    t = parse(repo, 'reader')
    fn = find_func(t, 'read_arg')
    for i, s_ in enumerate(fn.body):
        if isinstance(s_, ast.If) and 'tolerance' in ast.unparse(s_.test) and any(isinstance(x, ast.Raise) for x in ast.walk(s_)):
            s_.body = [ast.Return(ast.Call(ast.Name('arg', ast.Load()), [], []))]
            return {'reader': src(t)}
    raise NotApplicable('tolerance test')


@control(['C07'], 'tolerant-branch-consumes', ['R07.c'], 'consume a token on the tolerant continuation of the environment error test')
def c_tol_consumes(repo):
    t = parse(repo, 'reader')
    fn = find_func(t, 'read_env')
    for n in ast.walk(fn):
        if isinstance(n, ast.If) and 'tolerance' in ast.unparse(n.test) and n.orelse and isinstance(n.orelse[0], ast.If):
            inner = n.orelse[0]
            inner.orelse = [ast.Expr(ast.Call(ast.Attribute(ast.Name(fn.args.args[0].arg, ast.Load()), 'forward', ast.Load()),
                                              [ast.Constant(1)], []))]
            return {'reader': src(t)}
    raise NotApplicable('error test')


@control(['C11'], 'raw-reader-parses', ['R11.a'], 'call the expression reader from the raw reader')
def c_raw_parses(repo):
    t = parse(repo, 'reader')
    fn = find_func(t, 'read_skip_env')
    idx = 1 if isinstance(fn.body[0], ast.Expr) and isinstance(fn.body[0].value, ast.Constant) else 0
    fn.body.insert(idx, ast.Expr(ast.Call(ast.Name('read_expr', ast.Load()), [ast.Name(fn.args.args[0].arg, ast.Load())], [])))
    return {'reader': src(t)}


@control(['C11'], 'builtin-skip-names-separate', ['R11.b'], 'test the built-in skip names separately from the user-supplied ones')
def c_skip_separate(repo):
    t = parse(repo, 'reader')
    fn = find_func(t, 'read_tex')
    for c in _calls_to(fn, 'read_expr'):
        for k in c.keywords:
            if k.arg == 'skip_envs' and isinstance(k.value, ast.BinOp):
                k.value = k.value.right
    d = find_func(t, 'read_expr')
    for n in ast.walk(d):
        if isinstance(n, ast.If) and isinstance(n.test, ast.Compare) and 'skip_envs' in ast.unparse(n.test):
            n.test = ast.BoolOp(ast.Or(), [n.test, ast.Compare(n.test.left, [ast.In()], [ast.Name('SKIP_ENV_NAMES', ast.Load())])])
            return {'reader': src(t)}
    raise NotApplicable('skip test')


@control(['C11'], 'skip-list-not-forwarded', ['R11.c'], 'do not forward the skip list into environment bodies')
def c_skip_drop(repo):
    t = parse(repo, 'reader')
    fn = find_func(t, 'read_env')
    for c in _calls_to(fn, 'read_expr'):
        if _drop_kw(c, 'skip_envs'):
            return {'reader': src(t)}
    raise NotApplicable('skip_envs keyword')


@control(['C11'], 'raw-scan-wrong-closer', ['R11.d'], 'scan for \\end{ without the environment name')
def c_raw_closer(repo):
    t = parse(repo, 'reader')
    fn = find_func(t, 'read_skip_env')
    n = _first(fn, lambda x: is_call_attr(x, 'startswith'))
    n.args[0] = ast.Constant('\\end{')
    return {'reader': src(t)}


@control(['C02'], 'mode-not-forwarded-into-arguments', ['R02.a'], 'do not forward the mode from the argument reader to the group reader')
def c_mode_drop(repo):
    t = parse(repo, 'reader')
    fn = find_func(t, 'read_arg_required')
    for c in _calls_to(fn, 'read_arg'):
        if _drop_kw(c, 'mode'):
            return {'reader': src(t)}
    raise NotApplicable('mode keyword')


@control(['C02'], 'begin-branch-ignores-definition-mode', ['R02.a'], 'open environments also inside \\newcommand definitions')
def c_begin_mode(repo):
    t = parse(repo, 'reader')
    fn = find_func(t, 'read_expr')
    for n in ast.walk(fn):
        if isinstance(n, ast.If) and isinstance(n.test, ast.BoolOp) and 'MODE_SPECIAL' in ast.unparse(n.test):
            n.test = n.test.values[0]
            return {'reader': src(t)}
    raise NotApplicable('begin branch')


@control(['C02'], 'item-does-not-stop-at-end', ['R02.b'], 'let an item body run past \\end')
def c_item_stop(repo):
    t = parse(repo, 'reader')
    fn = find_func(t, 'read_item')
    tup = _first(fn, lambda x: isinstance(x, ast.Tuple) and any(isinstance(e, ast.Constant) and e.value == 'end' for e in x.elts))
    tup.elts = [e for e in tup.elts if not (isinstance(e, ast.Constant) and e.value == 'end')]
    return {'reader': src(t)}


# ---- positions (C13)

@control(['C13'], 'concatenation-takes-right-position', ['R13.b'], 'let token concatenation take the position of the right operand')
def c_add_pos(repo):
    t = parse(repo, 'utils')
    fn = find_func(t, '__add__', cls='Token')

    def pred(n):
        return isinstance(n, ast.Attribute) and n.attr == 'position' and isinstance(n.value, ast.Name) and n.value.id == 'self'

    def make(n):
        n.value = ast.Name(fn.args.args[1].arg, ast.Load())
        return n
    replace_expr(fn, pred, make)
    return {'utils': src(t)}


@control(['C13'], 'command-position-from-name', ['R13.c'], 'record the position of the command name instead of the backslash')
def c_cmd_pos(repo):
    t = parse(repo, 'reader')
    fn = find_func(t, 'read_expr')
    for n in ast.walk(fn):
        if isinstance(n, ast.Call) and isinstance(n.func, ast.Name) and n.func.id == 'TexCmd':
            for k in n.keywords:
                if k.arg == 'position' and isinstance(k.value, ast.Attribute):
                    k.value = ast.Attribute(ast.Name('name', ast.Load()), 'position', ast.Load())
                    return {'reader': src(t)}
    raise NotApplicable('TexCmd position')


@control(['C13'], 'regex-offset-without-match-start', ['R13.d'], 'report regex matches at the position of their leaf')
def c_regex_pos(repo):
    t = parse(repo, 'data')
    fn = find_func(t, 'search_regex', cls='TexNode')

    def pred(n):
        return isinstance(n, ast.BinOp) and isinstance(n.op, ast.Add) and 'position' in ast.unparse(n.left)
    replace_expr(fn, pred, lambda n: n.left)
    return {'data': src(t)}


# ---- renaming (C14)

@control(['C14'], 'env-serialiser-prints-stored-closer', ['R14.a'], 'print the construction-time copy of the closing delimiter')
def c_env_end_copy(repo):
    t = parse(repo, 'data')
    fn = find_func(t, '__str__', cls='TexEnv')

    def pred(n):
        return isinstance(n, ast.Attribute) and n.attr == 'end' and isinstance(n.value, ast.Name) and n.value.id == 'self'

    def make(n):
        n.attr = '_end'
        return n
    replace_expr(fn, pred, make)
    return {'data': src(t)}


@control(['C14'], 'name-setter-writes-wrapper', ['R14.b'], 'let the node name setter write the wrapper instead of the expression')
def c_name_setter(repo):
    t = parse(repo, 'data')
    for fn in find_funcs(t, 'name', 'TexNode'):
        if any(isinstance(d, ast.Attribute) and d.attr == 'setter' for d in fn.decorator_list):
            a = _first(fn, lambda n: isinstance(n, ast.Assign))
            a.targets = [ast.Attribute(ast.Name('self', ast.Load()), '_name', ast.Store())]
            return {'data': src(t)}
    raise NotApplicable('name setter')


@control(['C14', 'C18'], 'argument-slice-is-plain-list', ['R18.d'], 'return plain lists from argument-list slices')
def c_args_slice(repo):
    t = parse(repo, 'data')
    fn = find_func(t, '__getitem__', cls='TexArgs')
    remove_stmt(fn, lambda s_: isinstance(s_, ast.If) and 'isinstance' in ast.unparse(s_.test))
    return {'data': src(t)}


# ---- views and search (C03, C04)

@control(['C03', 'C04'], 'children-view-narrowed', ['R04.a'], 'narrow the children filter to named environments and commands')
def c_children_narrow(repo):
    t = parse(repo, 'data')
    for fn in find_funcs(t, 'children', 'TexExpr'):
        try:
            replace_expr(fn, lambda n: isinstance(n, ast.Name) and n.id == 'TexEnv', lambda n: ast.Name('TexNamedEnv', ast.Load()))
            return {'data': src(t)}
        except NotApplicable:
            continue
    raise NotApplicable('children filter')


@control(['C03', 'C04'], 'content-list-skips-arguments', ['R04.b'], 'leave argument groups out of the complete content list')
def c_all_noargs(repo):
    t = parse(repo, 'data')
    for fn in find_funcs(t, 'all', 'TexExpr'):
        try:
            remove_stmt(fn, lambda s_: isinstance(s_, ast.For) and 'args' in ast.unparse(s_.iter))
            return {'data': src(t)}
        except NotApplicable:
            continue
    raise NotApplicable('args loop')


@control(['C03', 'C04'], 'descendants-do-not-recurse', ['R03.a'], 'enumerate only the children\'s contents, not their descendants')
def c_desc(repo):
    t = parse(repo, 'data')
    fn = None
    for st_ in t.body:
        if isinstance(st_, ast.ClassDef) and st_.name == 'TexNode':
            for x in st_.body:
                if isinstance(x, ast.FunctionDef) and x.name.endswith('descendants') and x.name.startswith('__'):
                    fn = x
    if fn is None:
        raise NotApplicable('descendants helper')

    def pred(n):
        return isinstance(n, ast.Attribute) and n.attr == 'descendants'

    def make(n):
        n.attr = 'contents'
        return n
    replace_expr(fn, pred, make)
    return {'data': src(t)}


@control(['C03'], 'count-counts-children', ['R03.b'], 'count matches among the children instead of all descendants')
def c_count(repo):
    t = parse(repo, 'data')
    fn = find_func(t, 'count', cls='TexNode')

    def pred(n):
        return isinstance(n, ast.Call) and isinstance(n.func, ast.Attribute) and n.func.attr == 'find_all'
    replace_expr(fn, pred, lambda n: ast.Attribute(ast.Name('self', ast.Load()), 'children', ast.Load()))
    return {'data': src(t)}


@control(['C03', 'C14'], 'match-compares-stored-opening', ['R03.c'], 'match environments against the construction-time opening')
def c_match_copy(repo):
    t = parse(repo, 'data')
    fn = find_func(t, '__match__', cls='TexEnv')

    def pred(n):
        return isinstance(n, ast.Attribute) and n.attr == 'name' and isinstance(n.value, ast.Name) and n.value.id == 'self'
    replace_expr(fn, pred, lambda n: ast.Attribute(ast.Name('self', ast.Load()), '_begin', ast.Load()))
    return {'data': src(t)}


@control(['C04'], 'children-without-parent', ['R04.c'], 'do not set the parent of the wrappers handed out by children')
def c_children_parent(repo):
    t = parse(repo, 'data')
    for fn in find_funcs(t, 'children', 'TexNode'):
        try:
            remove_stmt(fn, lambda s_: isinstance(s_, ast.Assign) and isinstance(s_.targets[0], ast.Attribute) and s_.targets[0].attr == 'parent')
            return {'data': src(t)}
        except NotApplicable:
            continue
    raise NotApplicable('parent assignment')


@control(['C04'], 'iteration-follows-children', ['R04.d'], 'iterate a node over its children instead of its contents')
def c_iter_children(repo):
    t = parse(repo, 'data')
    fn = find_func(t, '__iter__', cls='TexNode')

    def pred(n):
        return isinstance(n, ast.Attribute) and n.attr == 'contents'

    def make(n):
        n.attr = 'children'
        return n
    replace_expr(fn, pred, make)
    return {'data': src(t)}


# ---- edits (C05, C15)

@control(['C05', 'C15'], 'replace-locates-by-equality', ['R05.a'], 'locate the child to replace with an equality membership test')
def c_replace_eq(repo):
    t = parse(repo, 'data')
    fn = find_func(t, 'replace', cls='TexNode')
    for n in ast.walk(fn):
        if isinstance(n, ast.If) and isinstance(n.test, ast.Call) and ast.unparse(n.test.func) == 'any':
            n.test = ast.parse('child.expr in arg._contents', mode='eval').body
            return {'data': src(t)}
    raise NotApplicable('identity test in replace')


@control(['C05'], 'replace-inserts-at-front', ['R05.b'], 'insert the replacement at index 0')
def c_replace_front(repo):
    t = parse(repo, 'data')
    fn = find_func(t, 'replace', cls='TexNode')
    c = _first(fn, lambda n: is_call_attr(n, 'insert') and n.args and isinstance(n.args[0], ast.Call))
    rm = c.args[0]
    c.args[0] = ast.Constant(0)
    # keep the removal
    parent_stmt = _first(fn, lambda n: isinstance(n, ast.Expr) and n.value is c)
    for node in ast.walk(fn):
        for field in ('body', 'orelse'):
            lst = getattr(node, field, None)
            if isinstance(lst, list) and parent_stmt in lst:
                lst.insert(lst.index(parent_stmt), ast.Expr(rm))
                return {'data': src(t)}
    raise NotApplicable('insert statement')


@control(['C05', 'C15'], 'multi-insert-same-index', ['R05.c'], 'insert every item of a multi-item insertion at the same index')
def c_multi_insert(repo):
    t = parse(repo, 'data')
    fn = find_func(t, 'insert', cls='TexExpr')
    c = _first(fn, lambda n: is_call_attr(n, 'insert') and isinstance(n.args[0], ast.BinOp))
    c.args[0] = c.args[0].left
    return {'data': src(t)}


@control(['C15'], 'remove-also-clears-arguments', ['R15.a'], 'let remove also clear the argument list')
def c_remove_args(repo):
    t = parse(repo, 'data')
    fn = find_func(t, 'remove', cls='TexExpr')
    fn.body.insert(len(fn.body) - 1, ast.parse('self.args.clear()').body[0])
    return {'data': src(t)}


@control(['C15'], 'contents-view-caches', ['R15.b'], 'store the computed contents on the node')
def c_cache(repo):
    t = parse(repo, 'data')
    for fn in find_funcs(t, 'contents', 'TexNode'):
        if any(isinstance(d, ast.Name) and d.id == 'property' for d in fn.decorator_list):
            idx = 1 if isinstance(fn.body[0], ast.Expr) and isinstance(fn.body[0].value, ast.Constant) else 0
            fn.body.insert(idx, ast.parse('self._seen = True').body[0])
            return {'data': src(t)}
    raise NotApplicable('contents getter')


@control(['C15'], 'inserted-wrappers-stored-raw', ['R15.c'], 'store node wrappers in the content list as they are')
def c_store_raw(repo):
    t = parse(repo, 'data')
    fn = find_func(t, 'insert', cls='TexExpr')
    lp = _first(fn, lambda n: isinstance(n, ast.For))
    for i, s_ in enumerate(lp.body):
        if isinstance(s_, ast.If) and 'TexNode' in ast.unparse(s_.test):
            del lp.body[i]
            return {'data': src(t)}
    raise NotApplicable('unwrap step')


@control(['C15'], 'text-view-drops-plain-strings', ['R15.d'], 'admit only tokens in the text view')
def c_text_tokens(repo):
    t = parse(repo, 'data')
    for fn in find_funcs(t, 'text', 'TexNode'):
        try:
            replace_expr(fn, lambda n: isinstance(n, ast.Name) and n.id == 'str' and isinstance(getattr(n, 'ctx', None), ast.Load),
                         lambda n: ast.Name('Token', ast.Load()))
            return {'data': src(t)}
        except NotApplicable:
            continue
    raise NotApplicable('text predicate')


# ---- isolation (C17)

@control(['C17'], 'signature-table-written-while-parsing', ['R17.a'], 'record signatures of parsed commands in the module-level table')
def c_sig_write(repo):
    t = parse(repo, 'reader')
    fn = find_func(t, 'read_command')
    fn.body.insert(len(fn.body) - 1, ast.parse('SIGNATURES[name] = (len(args), 0)').body[0])
    return {'reader': src(t)}


@control(['C17'], 'mutable-default-mutated', ['R17.b'], 'append to the mutable default of the argument-list constructor')
def c_default_mut(repo):
    t = parse(repo, 'data')
    fn = find_func(t, '__init__', cls='TexArgs')
    fn.body.append(ast.parse('args.append(None)').body[0])
    return {'data': src(t)}


@control(['C17'], 'competing-set-elements', ['R17.c'], 'let the sizing-command set contain an element and its extension')
def c_set_compete(repo):
    t = parse(repo, 'tokens')
    for st_ in t.body:
        if isinstance(st_, ast.Assign) and isinstance(st_.targets[0], ast.Name) and st_.targets[0].id == 'BRACKETS_DELIMITERS':
            st_.value.elts.append(ast.Constant('.|'))
            return {'tokens': src(t)}
    raise NotApplicable('BRACKETS_DELIMITERS')


@control(['C17'], 'shared-root', ['R17.d'], 'return a module-level root environment from read')
def c_shared_root(repo):
    t = parse(repo, 'tex')
    fn = find_func(t, 'read')
    t.body.insert(t.body.index(fn), ast.parse("ROOT = TexEnv('[tex]', begin='', end='')").body[0])
    r = _first(fn, lambda n: isinstance(n, ast.Return))
    r.value = ast.parse('(ROOT, tex)', mode='eval').body
    return {'tex': src(t)}


@control(['C17'], 'kind-stored-on-possibly-empty-slice', ['R17.e'], 'store a token kind on a zero-length slice handed out by the buffer')
def c_store_empty(repo):
    t = parse(repo, 'tokens')
    fn = _rule_storing(t, 'EscapedComment')
    c = _first(fn, lambda n: is_call_attr(n, 'forward'))
    c.args = [ast.Constant(0)]
    return {'tokens': src(t)}


@control(['C15', 'C17'], 'group-parser-is-memoised', ['R17.g'], 'cache the results of the argument-string parser')
def c_memo_parse(repo):
    t = parse(repo, 'data')
    fn = find_func(t, 'parse', cls='TexGroup')
    fn.decorator_list.append(ast.parse('functools.lru_cache(maxsize=None)').body[0].value)
    return {'data': src(t)}


@control(['C08'], 'closer-discard-count-changed', ['R08.c'], 'discard a different literal number of tokens after the closer look-ahead')
def c_literal_discard(repo):
    t = parse(repo, 'reader')
    for fn in ast.walk(t):
        if isinstance(fn, ast.FunctionDef):
            for n in ast.walk(fn):
                if is_call_attr(n, 'forward') and n.args and isinstance(n.args[0], ast.Constant) and isinstance(n.args[0].value, int) \
                        and n.args[0].value > 2:
                    n.args[0] = ast.Constant(n.args[0].value - 1)
                    return {'reader': src(t)}
    raise NotApplicable('literal-count discard')


@control(['C12'], 'sizing-rule-gives-up-after-two-backslashes', ['R12.f'], 'let the sizing-command rule decline when the character two back is a backslash')
def c_sizing_lookbehind(repo):
    t = parse(repo, 'tokens')
    fn = _rule_storing(t, 'PunctuationCommandName')
    guard = ast.parse('if text.peek(-2) and text.peek(-2).category == CC.Escape:\n    return').body[0]
    p0 = fn.args.args[0].arg
    for n in ast.walk(guard):
        if isinstance(n, ast.Name) and n.id == 'text':
            n.id = p0
    body = fn.body
    i = 1 if body and isinstance(body[0], ast.Expr) and isinstance(body[0].value, ast.Constant) else 0
    body.insert(i, guard)
    return {'tokens': src(t)}


@control(['C13', 'C01'], 'position-defaulted-when-falsy', ['R13.g'], 'store `position or -1` in the expression constructor')
def c_position_or(repo):
    t = parse(repo, 'data')
    fn = find_func(t, '__init__', cls='TexExpr')
    for n in ast.walk(fn):
        if isinstance(n, ast.Assign) and isinstance(n.targets[0], ast.Attribute) and n.targets[0].attr == 'position':
            n.value = ast.BoolOp(ast.Or(), [n.value, ast.Constant(-1)])
            return {'data': src(t)}
    raise NotApplicable('position store')


@control(['C03'], 'node-gains-a-public-method', ['R03.d'], 'add a public method `index` to the node class')
def c_node_index(repo):
    t = parse(repo, 'data')
    for c in t.body:
        if isinstance(c, ast.ClassDef) and c.name == 'TexNode':
            c.body.append(ast.parse('def index(self, node):\n    return list(self.contents).index(node)').body[0])
            return {'data': src(t)}
    raise NotApplicable('TexNode')


@control(['C09'], 'form-feed-is-a-blank', ['R09.i'], 'categorise form feed as a blank')
def c_formfeed_spacer(repo):
    t = parse(repo, 'category')
    for n in ast.walk(t):
        if isinstance(n, ast.Dict):
            for k, v in zip(n.keys, n.values):
                if isinstance(k, ast.Attribute) and k.attr == 'Spacer' and isinstance(v, ast.Tuple):
                    v.elts.append(ast.Constant('\x0c'))
                    return {'category': src(t)}
    raise NotApplicable('Spacer entry')


@control(['C18'], 'extend-validates-in-a-first-pass', ['R18.h'], 'walk the argument of extend twice')
def c_extend_twice(repo):
    t = parse(repo, 'data')
    fn = find_func(t, 'extend', cls='TexArgs')
    p_ = fn.args.args[1].arg
    pre = ast.parse('for _a in %s:\n    pass' % p_).body[0]
    i = 1 if fn.body and isinstance(fn.body[0], ast.Expr) and isinstance(fn.body[0].value, ast.Constant) else 0
    fn.body.insert(i, pre)
    return {'data': src(t)}


@control(['C05', 'C15'], 'multi-insert-skips-an-item', ['R05.c'], 'skip empty strings inside the multi-item insert loop')
def c_insert_skip(repo):
    t = parse(repo, 'data')
    fn = find_func(t, 'insert', cls='TexExpr')
    for n in ast.walk(fn):
        if isinstance(n, ast.For) and 'enumerate' in ast.unparse(n.iter):
            var = n.target.elts[1].id
            n.body.insert(0, ast.parse('if not %s:\n    continue' % var).body[0])
            return {'data': src(t)}
    raise NotApplicable('enumerate loop')


@control(['C07'], 'arity-error-whatever-the-tolerance', ['R07.f'], 'raise a parse error in read_args without consulting the tolerance')
def c_unguarded_raise(repo):
    t = parse(repo, 'reader')
    fn = find_func(t, 'read_args')
    ret = [i for i, s_ in enumerate(fn.body) if isinstance(s_, ast.Return)]
    if not ret:
        raise NotApplicable('return of read_args')
    fn.body.insert(ret[-1], ast.parse("if n_required > 0:\n    raise TypeError('arguments missing')").body[0])
    return {'reader': src(t)}


@control(['C20'], 'scan-count-is-a-text-length', ['R20.f'], 'return the length of the skipped text from num_forward_until')
def c_count_len(repo):
    t = parse(repo, 'utils')
    fn = _buffer_method(t, 'num_forward_until')
    for n in ast.walk(fn):
        if isinstance(n, ast.Return) and isinstance(n.value, ast.Name):
            acc = None
            for a in ast.walk(fn):
                if isinstance(a, ast.AugAssign) and isinstance(a.target, ast.Name) and isinstance(a.op, ast.Add) \
                        and isinstance(a.value, ast.Call):
                    acc = a.target.id
            if acc is None:
                raise NotApplicable('accumulator')
            n.value = ast.Call(ast.Name('len', ast.Load()), [ast.Name(acc, ast.Load())], [])
            return {'utils': src(t)}
    raise NotApplicable('return of the count')


@control(['C17'], 'recursion-limit-raised', ['R17.a'], 'raise the interpreter recursion limit inside read')
def c_reclimit(repo):
    t = parse(repo, 'tex')
    fn = find_func(t, 'read')
    i = 1 if fn.body and isinstance(fn.body[0], ast.Expr) and isinstance(fn.body[0].value, ast.Constant) else 0
    fn.body.insert(i, ast.parse('import sys\nsys.setrecursionlimit(10000)').body[1])
    t.body.insert(0, ast.parse('import sys').body[0])
    return {'tex': src(t)}


# ---- argument lists (C18)

@control(['C18'], 'reverse-forgets-shadow', ['R18.a'], 'reverse only the list proper')
def c_reverse(repo):
    t = parse(repo, 'data')
    fn = find_func(t, 'reverse', cls='TexArgs')
    remove_stmt(fn, lambda s_: isinstance(s_, ast.Expr) and is_call_attr(s_.value, 'reverse') and 'all' in ast.unparse(s_.value))
    return {'data': src(t)}


@control(['C18'], 'clear-rebuilds-list-from-shadow', ['R18.g'], 'clear the shadow, then rebuild the list proper from it')
def c_clear_from_shadow(repo):
    t = parse(repo, 'data')
    fn = find_func(t, 'clear', cls='TexArgs')
    remove_stmt(fn, lambda s_: isinstance(s_, ast.Expr) and is_call_attr(s_.value, 'clear') and 'super' in ast.unparse(s_.value))
    fn.body.extend(ast.parse('super().clear()\nsuper().extend(a for a in self.all)').body)
    return {'data': src(t)}


@control(['C18'], 'pop-requires-index', ['R18.b'], 'remove the default index of pop')
def c_pop_default(repo):
    t = parse(repo, 'data')
    fn = find_func(t, 'pop', cls='TexArgs')
    fn.args.defaults = []
    return {'data': src(t)}


@control(['C18'], 'insert-looks-up-after-writing', ['R18.c'], 'look up the shadow position after the list has been written')
def c_insert_after(repo):
    t = parse(repo, 'data')
    fn = find_func(t, 'insert', cls='TexArgs')
    idx = None
    for i, s_ in enumerate(fn.body):
        if isinstance(s_, ast.Assign) and 'index' in ast.unparse(s_.value) and 'all' in ast.unparse(s_.value):
            idx = i
    if idx is None:
        raise NotApplicable('shadow look-up')
    st_ = fn.body.pop(idx)
    for i, s_ in enumerate(fn.body):
        if isinstance(s_, ast.If) and 'super().insert' in ast.unparse(s_):
            fn.body.insert(i + 1, st_)
            return {'data': src(t)}
    raise NotApplicable('list write')


@control(['C18'], 'serialiser-prints-shadow', ['R18.e'], 'serialise the shadow sequence instead of the list')
def c_str_shadow(repo):
    t = parse(repo, 'data')
    fn = find_func(t, '__str__', cls='TexArgs')

    def pred(n):
        return isinstance(n, ast.Name) and n.id == 'self' and isinstance(getattr(n, 'ctx', None), ast.Load)
    replace_expr(fn, pred, lambda n: ast.Attribute(ast.Name('self', ast.Load()), 'all', ast.Load()))
    return {'data': src(t)}


@control(['C13'], 'line-lookup-counts-breaks-at-offset', ['R13.f'], 'locate the line with bisect_right (breaks at or before the offset)')
def c_bisect(repo):
    t = parse(repo, 'utils')
    fn = find_func(t, '__call__', cls='CharToLineOffset')
    c = _first(fn, lambda n: isinstance(n, ast.Call) and ast.unparse(n.func).startswith('bisect'))
    c.func = ast.Attribute(ast.Name('bisect', ast.Load()), 'bisect_right', ast.Load())
    return {'utils': src(t)}


@control(['C13'], 'scan-result-starts-at-cursor-index', ['R13.e'], 'start the result of a conditional scan at the buffer cursor index')
def c_scan_pos(repo):
    t = parse(repo, 'utils')
    fn = _buffer_method(t, 'forward_until')
    c = _first(fn, lambda n: isinstance(n, ast.Call) and isinstance(n.func, ast.Attribute) and 'init' in n.func.attr)
    c.args[1] = ast.Attribute(ast.Name('self', ast.Load()), 'position', ast.Load())
    return {'utils': src(t)}


@control(['C18'], 'insert-index-lower-clamp-dropped', ['R18.j'], 'shift a negative insert index by the length without clamping it at 0')
def c_insert_clamp(repo):
    t = parse(repo, 'data')
    fn = find_func(t, 'insert', cls='TexArgs')
    for n in ast.walk(fn):
        if isinstance(n, ast.Call) and isinstance(n.func, ast.Name) and n.func.id == 'max' and len(n.args) == 2 \
                and isinstance(n.args[1], ast.Constant) and n.args[1].value == 0:
            for p in ast.walk(fn):
                for fld, val in ast.iter_fields(p):
                    if val is n:
                        setattr(p, fld, n.args[0])
                        return {'data': src(t)}
    raise NotApplicable('max(.., 0) in TexArgs.insert')


@control(['C18', 'C15'], 'group-parser-strips-delimiter-characters', ['R18.i'], 'cut the content out of a coerced string with lstrip/rstrip')
def c_parse_strip(repo):
    t = parse(repo, 'data')
    fn = find_func(t, 'parse', cls='TexGroup')
    for n in ast.walk(fn):
        if isinstance(n, ast.Subscript) and isinstance(n.slice, ast.Slice) and isinstance(n.value, ast.Name):
            new = ast.parse('%s.lstrip(arg.begin).rstrip(arg.end)' % n.value.id, mode='eval').body
            for p in ast.walk(fn):
                for fld, val in ast.iter_fields(p):
                    if val is n:
                        setattr(p, fld, new)
                        return {'data': src(t)}
                    if isinstance(val, list) and any(v is n for v in val):
                        val[[i for i, v in enumerate(val) if v is n][0]] = new
                        return {'data': src(t)}
    raise NotApplicable('slice in TexGroup.parse')


@control(['C13', 'C19'], 'token-copy-prefers-truthy-position', ['R13.i', 'R13.b'], 'copy the position of a wrapped token only when it is truthy')
def c_token_pos_or(repo):
    t = parse(repo, 'utils')
    fn = find_func(t, '__new__', cls='Token')
    for n in ast.walk(fn):
        if isinstance(n, ast.Assign) and isinstance(n.targets[0], ast.Attribute) and n.targets[0].attr == 'position' \
                and isinstance(n.value, ast.Attribute) and n.value.attr == 'position':
            n.value = ast.BoolOp(ast.Or(), [n.value, ast.Name('position', ast.Load())])
            return {'utils': src(t)}
    raise NotApplicable('position copy in Token.__new__')


@control(['C03'], 'empty-name-matches-everything', ['R03.c'], 'skip the name tests of the match predicate when the name is falsy')
def c_match_skips_name(repo):
    t = parse(repo, 'data')
    fn = find_func(t, '__match__', cls='TexExpr')
    body = [s for s in fn.body if not (isinstance(s, ast.Expr) and isinstance(s.value, ast.Constant))]
    first_if = [s for s in body if isinstance(s, ast.If)]
    if not first_if:
        raise NotApplicable('if chain in __match__')
    i0 = fn.body.index(first_if[0])
    # wrap every statement up to (excluding) the attribute loop into `if name:`
    loop = [s for s in fn.body if isinstance(s, ast.For)]
    if not loop:
        raise NotApplicable('attribute loop in __match__')
    j0 = fn.body.index(loop[0])
    guarded = fn.body[i0:j0]
    if any(isinstance(x, ast.Return) and not isinstance(getattr(x, 'value', None), ast.Constant) for s in guarded for x in ast.walk(s)):
        # returns of the full-expression query stay inside the guard: fine
        pass
    name_p = fn.args.args[1].arg
    fn.body[i0:j0] = [ast.If(ast.Name(name_p, ast.Load()), guarded, [])]
    ast.fix_missing_locations(t)
    return {'data': src(t)}


@control(['C05', 'C15'], 'insert-index-clamped-by-filtered-view', ['R05.f'], 'clamp the insert index of a node with the length of its filtered contents')
def c_insert_view_len(repo):
    t = parse(repo, 'data')
    fn = find_func(t, 'insert', cls='TexNode')
    ip = fn.args.args[1].arg
    new = ast.parse('%s = min(%s, len(self.contents))' % (ip, ip)).body[0]
    k = 1 if fn.body and isinstance(fn.body[0], ast.Expr) and isinstance(fn.body[0].value, ast.Constant) else 0
    fn.body.insert(k, new)
    ast.fix_missing_locations(t)
    return {'data': src(t)}


@control(['C08', 'C05'], 'serialiser-adds-a-separator', ['R08.e'], 'print a space between the arguments and the contents of a command')
def c_str_separator(repo):
    t = parse(repo, 'data')
    fn = find_func(t, '__str__', cls='TexCmd')
    for n in ast.walk(fn):
        if isinstance(n, ast.Constant) and isinstance(n.value, str) and n.value.count('%s') == 3:
            i = n.value.rfind('%s')
            n.value = n.value[:i] + ' ' + n.value[i:]
            return {'data': src(t)}
    raise NotApplicable('three-field format in TexCmd.__str__')
