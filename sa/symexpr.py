"""Small symbolic evaluator: integer-valued expressions -> affine forms over named symbols,
through single-assignment locals of the enclosing function."""
import ast

from .bufmodel import Aff, TOP
from .model import norm


class SymEval:
    def __init__(self, fnode, opaque_syms=None):
        self.fnode = fnode
        self.assigns = {}
        for n in ast.walk(fnode):
            if isinstance(n, ast.Assign) and len(n.targets) == 1 and isinstance(n.targets[0], ast.Name):
                self.assigns.setdefault(n.targets[0].id, []).append(n.value)
            elif isinstance(n, ast.AugAssign) and isinstance(n.target, ast.Name):
                self.assigns.setdefault(n.target.id, []).append(None)
            elif isinstance(n, (ast.For, ast.comprehension)):
                for x in ast.walk(n.target):
                    if isinstance(x, ast.Name):
                        self.assigns.setdefault(x.id, []).append(None)
        self.params = {a.arg for a in fnode.args.args + fnode.args.kwonlyargs}

    def ev(self, e, depth=0):
        if depth > 8:
            return Aff.sym(norm(e))
        if isinstance(e, ast.Constant) and isinstance(e.value, int) and not isinstance(e.value, bool):
            return Aff(e.value)
        if isinstance(e, ast.BinOp) and isinstance(e.op, (ast.Add, ast.Sub)):
            l, r = self.ev(e.left, depth + 1), self.ev(e.right, depth + 1)
            return l + r if isinstance(e.op, ast.Add) else l - r
        if isinstance(e, ast.UnaryOp) and isinstance(e.op, ast.USub):
            return -self.ev(e.operand, depth + 1)
        if isinstance(e, ast.Name):
            vals = self.assigns.get(e.id)
            if vals and len(vals) == 1 and vals[0] is not None and e.id not in self.params:
                v = vals[0]
                if isinstance(v, (ast.BinOp, ast.UnaryOp, ast.Constant, ast.Name)):
                    return self.ev(v, depth + 1)
                return Aff.sym(norm(v))
            return Aff.sym(e.id)
        return Aff.sym(norm(e))

    def definition_text(self, name):
        vals = self.assigns.get(name)
        if vals and len(vals) == 1 and vals[0] is not None:
            return norm(vals[0])
        return None
