"""Structural rules on the reader's dispatch: which token kinds it branches on (R10.c, R12.d),
math-mode wiring (R12.b, R12.c), operator/sizing tables (R12.e), argument-loop discipline
(R09.b, R09.d, R09.e) and item stop set / definition mode (R02.a, R02.b)."""
import ast

from .model import AnalysisError, Unfoldable, Folder, FEnumMember, ClassRef, norm
from .core import RuleResult, Finding
from . import rules_reader, rules_conserve, callgraph
from .interp import strip_doc


def _tc_refs(repo, fd):
    """TC members referenced by a function: {member name: [nodes]}"""
    out = {}
    for n in ast.walk(fd.node):
        if isinstance(n, ast.Attribute) and isinstance(n.value, ast.Name) and n.value.id == 'TC':
            out.setdefault(n.attr, []).append(n)
    return out


def _reader_funcs(repo):
    return list(repo.modules['reader'].functions.values())


def r10_c(ctx):
    repo = ctx.repo
    rr = RuleResult('R10.c', 'the reader never branches on the comment token kind: a comment can reach the tree only '
                    'through the default text-leaf branch', floor=5)
    TC = repo.fold_global('utils', 'TC')
    com = TC.members.get('Comment')
    if com is None:
        raise AnalysisError('TC.Comment vanished')
    branched = {}
    for fd in _reader_funcs(repo):
        for name, nodes in _tc_refs(repo, fd).items():
            branched.setdefault(name, []).append((fd, nodes[0]))
    for mod, tname in (('reader', 'MATH_TOKEN_TO_ENV'), ('reader', 'ARG_BEGIN_TO_ENV')):
        tab = repo.fold_global(mod, tname)
        for k in tab:
            branched.setdefault(k.mname, []).append((None, tname))
    for c in repo.modules['data'].classes.values():
        for a in ('token_begin', 'token_end'):
            if a in c.attrs:
                try:
                    v = repo.class_attr(c, a)
                    branched.setdefault(v.mname, []).append((None, '%s.%s' % (c.name, a)))
                except Unfoldable:
                    pass
    for name in sorted(branched):
        same_value = int(TC.members[name]) == int(com) if name in TC.members else False
        ok = not same_value
        rr.ob(ok, {'reader_branches_on': name})
        if not ok:
            fd, node = branched[name][0]
            rr.fail(Finding('R10.c', 'reader', fd.qual if fd else str(node), 'branch on TC.%s' % name,
                            'the reader distinguishes comment tokens from text (%s): the tree around a comment would '
                            'depend on it' % (norm(node) if isinstance(node, ast.AST) else node),
                            line=getattr(node, 'lineno', 0)))
    # the default branch of the dispatcher wraps the token itself
    fd = repo.need_func('reader.read_expr')
    last = strip_doc(fd.node.body)[-1]
    while isinstance(last, ast.If) and last.orelse:
        last = last.orelse[-1]          # `... else: return TexText(c)` written as an explicit final branch
    ok = isinstance(last, ast.Return) and isinstance(last.value, ast.Call) and isinstance(last.value.func, ast.Name) \
        and last.value.func.id == 'TexText' and len(last.value.args) == 1 and isinstance(last.value.args[0], ast.Name)
    rr.ob(ok, {'default_branch': norm(last)[:60]})
    if not ok:
        rr.fail(Finding('R10.c', 'reader', fd.qual, last, 'the default branch of the expression dispatcher does not keep '
                        'the token as a text leaf', line=last.lineno))
    return rr


def r12_b(ctx):
    repo = ctx.repo
    rr = RuleResult('R12.b', 'a math region is read with the class selected by its opening token, closes on that '
                    'class\'s closing kind, and its body is read in math mode', floor=3)
    fd = repo.need_func('reader.read_math_env')
    ps = fd.params()
    if len(ps) < 2:
        raise AnalysisError('read_math_env lost its node parameter')
    node_p = ps[1]
    math_mode = repo.fold_global('reader', 'MODE_MATH')
    # closer comparisons use <node>.token_end
    cmps = [n for n in ast.walk(fd.node) if isinstance(n, ast.Compare) and any(
        isinstance(x, ast.Attribute) and x.attr == 'category' for x in ast.walk(n.left))]
    for c in cmps:
        r = c.comparators[0]
        ok = isinstance(r, ast.Attribute) and r.attr == 'token_end' and isinstance(r.value, ast.Name) and r.value.id == node_p
        rr.ob(ok, {'closer_test': norm(c)})
        if not ok:
            rr.fail(Finding('R12.b', 'reader', fd.qual, c, 'the math-region reader compares the next token with %s, not '
                            'with the closing kind of the class selected by the opening token' % norm(r), line=c.lineno))
    if not cmps:
        raise AnalysisError('read_math_env: closer test vanished')
    calls = [n for n in ast.walk(fd.node) if isinstance(n, ast.Call) and isinstance(n.func, ast.Name) and n.func.id == 'read_expr']
    for c in calls:
        kw = {k.arg: k.value for k in c.keywords}
        ok = False
        if 'mode' in kw:
            try:
                ok = Folder(repo, fd.module).ev(kw['mode']) == math_mode
            except Unfoldable:
                ok = False
        rr.ob(ok, {'body_read': norm(c)[:70]})
        if not ok:
            rr.fail(Finding('R12.b', 'reader', fd.qual, c, 'the body of a math region is not read in math mode',
                            line=c.lineno))
    if not calls:
        raise AnalysisError('read_math_env no longer reads expressions')
    # dispatcher: class from the table keyed by the opening token's category, handed to read_math_env
    d = repo.need_func('reader.read_expr')
    ok = False
    for n in ast.walk(d.node):
        if isinstance(n, ast.Call) and isinstance(n.func, ast.Name) and n.func.id == 'read_math_env':
            arg = n.args[1] if len(n.args) > 1 else None
            if isinstance(arg, ast.Name):
                for a in ast.walk(d.node):
                    if isinstance(a, ast.Assign) and isinstance(a.targets[0], ast.Name) and a.targets[0].id == arg.id \
                            and isinstance(a.value, ast.Call) and isinstance(a.value.func, ast.Subscript) \
                            and norm(a.value.func.value) == 'MATH_TOKEN_TO_ENV' and norm(a.value.func.slice).endswith('.category'):
                        ok = True
    if not ok:
        # other spellings of the table look-up (TABLE.get(tok.category) with a None test, ...)
        from .model import resolve_locals
        for n in ast.walk(d.node):
            if isinstance(n, ast.Call) and isinstance(n.func, ast.Name) and n.func.id == 'read_math_env' and len(n.args) > 1:
                arg = resolve_locals(d.node, n.args[1])
                t = norm(arg)
                if 'MATH_TOKEN_TO_ENV' in t and '.category' in t:
                    ok = True
        if not ok and not any(isinstance(x, ast.Name) and x.id == 'MATH_TOKEN_TO_ENV' for x in ast.walk(d.node)):
            raise AnalysisError('read_expr no longer consults MATH_TOKEN_TO_ENV: dispatcher shape not recognised by R12.b')
    rr.ob(ok, {'dispatcher': 'class from MATH_TOKEN_TO_ENV[<opening token>.category]'})
    if not ok:
        rr.fail(Finding('R12.b', 'reader', d.qual, 'read_math_env(...) argument', 'the math node handed to the region '
                        'reader is not the class selected by the opening token', line=d.node.lineno))
    return rr


NAMED_MATH_REFERENCE = ('align', 'align*', 'alignat', 'array', 'displaymath', 'eqnarray', 'eqnarray*', 'equation',
                        'equation*', 'flalign', 'flalign*', 'gather', 'gather*', 'math', 'multline', 'multline*', 'split')


def r12_c(ctx):
    repo = ctx.repo
    rr = RuleResult('R12.c', 'named math environments switch the reader to math mode', floor=2)
    names = repo.fold_global('tokens', 'MATH_ENV_NAMES')
    missing = [n for n in NAMED_MATH_REFERENCE if n not in names]
    rr.ob(not missing, {'named_math_environments': len(names)})
    if missing:
        rr.fail(Finding('R12.c', 'tokens', 'MATH_ENV_NAMES', 'MATH_ENV_NAMES lacks %s' % missing,
                        'the named math environments %s are no longer read in math mode' % missing, line=0))
    d = repo.need_func('reader.read_expr')
    math_mode = repo.fold_global('reader', 'MODE_MATH')
    sets, mode_var = [], None
    for n in ast.walk(d.node):
        if isinstance(n, ast.If) and isinstance(n.test, ast.Compare) and isinstance(n.test.ops[0], ast.In) \
                and norm(n.test.comparators[0]) == 'MATH_ENV_NAMES':
            for s in n.body:
                if isinstance(s, ast.Assign) and isinstance(s.targets[0], ast.Name):
                    try:
                        if Folder(repo, d.module).ev(s.value) == math_mode:
                            sets.append(n)
                            mode_var = s.targets[0].id
                    except Unfoldable:
                        pass
    # alternative shape: mode_var = MODE_MATH if <x>.name in MATH_ENV_NAMES else <mode>
    for n in ast.walk(d.node):
        if isinstance(n, ast.Assign) and len(n.targets) == 1 and isinstance(n.targets[0], ast.Name) and isinstance(n.value, ast.IfExp) \
                and isinstance(n.value.test, ast.Compare) and isinstance(n.value.test.ops[0], ast.In) \
                and norm(n.value.test.comparators[0]) == 'MATH_ENV_NAMES':
            try:
                if Folder(repo, d.module).ev(n.value.body) == math_mode:
                    fake = ast.If(n.value.test, [n], [])
                    ast.copy_location(fake, n)
                    sets.append(fake)
                    mode_var = n.targets[0].id
            except Unfoldable:
                pass
    # alternative shape: the math branch calls the body reader directly with the math-mode constant
    direct = []
    for n in ast.walk(d.node):
        if isinstance(n, ast.If) and isinstance(n.test, ast.Compare) and isinstance(n.test.ops[0], ast.In) \
                and norm(n.test.comparators[0]) == 'MATH_ENV_NAMES':
            for c in ast.walk(ast.Module(body=n.body, type_ignores=[])):
                if isinstance(c, ast.Call) and isinstance(c.func, ast.Name) and c.func.id == 'read_env':
                    kw = {k.arg: k.value for k in c.keywords}
                    try:
                        if 'mode' in kw and Folder(repo, d.module).ev(kw['mode']) == math_mode:
                            direct.append(n)
                    except Unfoldable:
                        pass
    if direct and not sets:
        t = direct[0].test.left
        okn = isinstance(t, ast.Attribute) and t.attr == 'name'
        rr.ob(True, {'switch': norm(direct[0].test), 'shape': 'direct call with the math-mode constant'})
        rr.ob(okn, {'tested': norm(t)})
        if not okn:
            rr.fail(Finding('R12.c', 'reader', d.qual, direct[0].test, 'math mode is not selected by the environment name',
                            line=direct[0].lineno))
        rr.ob(True, {'read_env_mode': 'MODE_MATH'})
        return rr
    rr.ob(bool(sets), {'switch': norm(sets[0].test) if sets else None})
    if not sets:
        rr.fail(Finding('R12.c', 'reader', d.qual, 'no math-mode switch for MATH_ENV_NAMES', 'the expression dispatcher '
                        'does not switch to math mode for named math environments', line=d.node.lineno))
        return rr
    # the environment body reader receives that variable as mode, after the switch
    ok = False
    for n in ast.walk(d.node):
        if isinstance(n, ast.Call) and isinstance(n.func, ast.Name) and n.func.id == 'read_env' and n.lineno > sets[0].lineno:
            kw = {k.arg: k.value for k in n.keywords}
            if isinstance(kw.get('mode'), ast.Name) and kw['mode'].id == mode_var:
                ok = True
    rr.ob(ok, {'read_env_mode': mode_var})
    if not ok:
        rr.fail(Finding('R12.c', 'reader', d.qual, 'read_env(... mode=...)', 'the environment body is not read with the '
                        'mode selected for named math environments', line=d.node.lineno))
    # the test is on the environment's own name
    t = sets[0].test.left
    okn = isinstance(t, ast.Attribute) and t.attr == 'name'
    rr.ob(okn, {'tested': norm(t)})
    if not okn:
        rr.fail(Finding('R12.c', 'reader', d.qual, sets[0].test, 'math mode is not selected by the environment name',
                        line=sets[0].lineno))
    return rr


def r12_d(ctx):
    """brackets/parentheses are structural only in argument position"""
    repo = ctx.repo
    rr = RuleResult('R12.d', 'outside the argument loops the group reader is entered only for an opening brace; the '
                    'expression dispatcher has no branch on brackets or parentheses', floor=3)
    d = repo.need_func('reader.read_expr')
    TC = repo.fold_global('utils', 'TC')
    refs = _tc_refs(repo, d)
    for bad in ('BracketBegin', 'BracketEnd', 'ParenBegin', 'ParenEnd'):
        ok = bad not in refs
        rr.ob(ok, {'dispatcher_branches_on': bad, 'present': not ok})
        if not ok:
            rr.fail(Finding('R12.d', 'reader', d.qual, refs[bad][0]._parent if hasattr(refs[bad][0], '_parent') else refs[bad][0],
                            'the expression dispatcher branches on %s: a bracket/parenthesis that does not follow a '
                            'command would become structural and need a partner' % bad, line=refs[bad][0].lineno))
    # read_arg call sites outside the argument readers: opener pinned to GroupBegin exactly
    cg = callgraph.graph(ctx)
    ra = repo.need_func('reader.read_arg')
    gb = TC.members['GroupBegin']
    n_sites = 0
    for caller, call in cg.call_sites_of(ra):
        if caller.qual.startswith('read_arg_'):
            continue
        n_sites += 1
        arg = call.args[1] if len(call.args) > 1 else None
        guards = rules_reader._guards_dominating(caller, call)
        ok = False
        if isinstance(arg, ast.Name):
            kt = '%s.category' % arg.id
            ok = any(rules_reader._pins_key(repo, caller.module, t, tr, kt, [gb], '<GroupBegin>') for t, tr in guards)
        rr.ob(ok, {'call_site': '%s:%d' % (caller.qual, call.lineno), 'opener_pinned_to_GroupBegin': ok})
        if not ok:
            rr.fail(Finding('R12.d', 'reader', caller.qual, call, 'the group reader is entered outside argument position '
                            'without the opener being pinned to an opening brace: a stray bracket would open a group',
                            line=call.lineno))
    if n_sites == 0:
        raise AnalysisError('no call of read_arg outside the argument readers')
    return rr


def r12_e(ctx):
    repo = ctx.repo
    rr = RuleResult('R12.e', 'the zero-argument operators take no arguments and every sizing prefix combined with a '
                    'parenthesis or bracket is a known punctuation command', floor=10)
    sig = repo.fold_global('reader', 'SIGNATURES')
    for op in ('cup', 'cap', 'in', 'notin', 'infty'):
        ok = sig.get(op) == (0, 0)
        rr.ob(ok, {'operator': op, 'signature': sig.get(op)})
        if not ok:
            rr.fail(Finding('R12.e', 'reader', 'SIGNATURES', 'SIGNATURES[%r] = %r' % (op, sig.get(op)),
                            'the operator \\%s is not declared to take zero arguments: a bracket after it would be '
                            'read as its optional argument and need a partner' % op, line=0))
    pc = repo.fold_global('tokens', 'PUNCTUATION_COMMANDS')
    for p in ('left', 'right', 'big', 'Big', 'bigg', 'Bigg'):
        for dl in '()[]':
            ok = (p + dl) in pc
            rr.ob(ok, {'sizing_command': p + dl})
            if not ok:
                rr.fail(Finding('R12.e', 'tokens', 'PUNCTUATION_COMMANDS', 'PUNCTUATION_COMMANDS lacks %r' % (p + dl),
                                'the delimiter of \\%s%s is not part of the command name: it would be read as an '
                                'argument opener / plain text needing balance' % (p, dl), line=0))
    # the reader looks signatures up by command name
    rc = repo.need_func('reader.read_command')
    cgr = callgraph.graph(ctx)
    reach_rc = [f for f in cgr.reachable([rc]) if f.module.name == 'reader']
    uses = [n for f in reach_rc for n in ast.walk(f.node) if (isinstance(n, ast.Call) and isinstance(n.func, ast.Attribute)
            and n.func.attr == 'get' and norm(n.func.value) == 'SIGNATURES') or (
                isinstance(n, ast.Subscript) and norm(n.value) == 'SIGNATURES')]
    rr.ob(bool(uses), {'signature_lookup': norm(uses[0]) if uses else None})
    if not uses:
        rr.fail(Finding('R12.e', 'reader', rc.qual, 'no SIGNATURES look-up', 'the command reader no longer consults the '
                        'fixed-signature table', line=rc.node.lineno))
    return rr


# --------------------------------------------------------------------------- C09 argument loops

def _arg_loops(repo):
    out = []
    for name in ('read_arg_optional', 'read_arg_required'):
        fd = repo.need_func('reader.' + name)
        loops = [n for n in ast.walk(fd.node) if isinstance(n, ast.While)]
        if len(loops) != 1:
            raise AnalysisError('%s: expected one argument loop' % name)
        out.append((fd, loops[0]))
    return out


def r09_b(ctx):
    repo = ctx.repo
    rr = RuleResult('R09.b', 'each iteration of the argument loops reads at most one whitespace token, first, and that '
                    'reader consumes at most one token', floor=4)
    e = rules_reader.engine(ctx)
    for fd, loop in _arg_loops(repo):
        calls = [n for n in ast.walk(loop) if isinstance(n, ast.Call) and isinstance(n.func, ast.Name) and n.func.id == 'read_spacer']
        first = loop.body[0] if loop.body else None
        ok = len(calls) == 1 and isinstance(first, ast.Assign) and calls[0] is first.value
        rr.ob(ok, {'loop': fd.qual, 'spacer_reads_per_iteration': len(calls)})
        if not ok:
            rr.fail(Finding('R09.b', 'reader', fd.qual, 'argument loop: %d spacer reads, first statement %s' % (
                len(calls), norm(first)[:40] if first is not None else None),
                'the argument loop does not read exactly one whitespace token at the start of each iteration: more than '
                'one line break could be skipped between arguments', line=loop.lineno))
    sp = repo.need_func('reader.read_spacer')
    his = []
    for key, exits in e.memo.items():
        if key[0] == sp.fq:
            for ex in exits:
                his.append(ex.hi)
    if not his:
        raise AnalysisError('read_spacer not reached by the cursor analysis')
    ok = all(h != 'inf' and h <= 1 for h in his)
    rr.ob(ok, {'read_spacer_max_tokens': sorted(set(map(str, his)))})
    if not ok:
        rr.fail(Finding('R09.b', 'reader', sp.qual, 'read_spacer consumes up to %s tokens' % sorted(set(map(str, his))),
                        'the whitespace reader can consume more than one token', line=sp.node.lineno))
    # it consumes only the merged-spacer kind
    guards = [n for n in ast.walk(sp.node) if isinstance(n, ast.Compare) and 'category' in norm(n.left)]
    okk = bool(guards) and all(norm(g.comparators[0]) == 'TC.MergedSpacer' and isinstance(g.ops[0], ast.Eq) for g in guards)
    rr.ob(okk, {'read_spacer_guard': [norm(g) for g in guards]})
    if not okk:
        rr.fail(Finding('R09.b', 'reader', sp.qual, 'read_spacer guard %s' % [norm(g) for g in guards],
                        'the whitespace reader consumes tokens other than the merged spacer', line=sp.node.lineno))
    return rr


def r09_d(ctx):
    """spacer presence never selects the branch"""
    repo = ctx.repo
    rr = RuleResult('R09.d', 'inside the argument loops the whitespace token is used only to decide the rollback: it '
                    'reaches no other condition and no stored value', floor=2)
    for fd, loop in _arg_loops(repo):
        first = loop.body[0]
        if not (isinstance(first, ast.Assign) and isinstance(first.targets[0], ast.Name)):
            # no whitespace token is read at the start of the iteration: that is R09.b's subject, nothing to trace here
            rr.notes.append('%s: the loop does not start by reading a whitespace token (see R09.b)' % fd.qual)
            rr.ob(True, {'loop': fd.qual, 'spacer_uses': 0})
            continue
        var = first.targets[0].id
        uses = [n for n in ast.walk(loop) if isinstance(n, ast.Name) and n.id == var and isinstance(n.ctx, ast.Load)]
        bad = []
        for u in uses:
            p = getattr(u, '_parent', None)
            ok = isinstance(p, ast.If) and p.test is u and all(
                isinstance(s, ast.Expr) and isinstance(s.value, ast.Call) and isinstance(s.value.func, ast.Attribute)
                and s.value.func.attr == 'backward' for s in p.body) and not p.orelse
            if not ok:
                bad.append(u)
        rr.ob(not bad, {'loop': fd.qual, 'spacer_uses': len(uses)})
        for u in bad:
            p = getattr(u, '_parent', u)
            while p is not None and not isinstance(p, ast.stmt):
                p = getattr(p, '_parent', None)
            rr.fail(Finding('R09.d', 'reader', fd.qual, p if p is not None else u,
                            'the whitespace token before an argument influences more than the rollback: spaced and '
                            'adjacent argument groups would be read differently', line=u.lineno))
    return rr


def r09_e(ctx):
    """a group closes only on its own kind"""
    repo = ctx.repo
    rr = RuleResult('R09.e', 'the group reader closes only on the closing kind of the class selected by the opener, '
                    'and reads nested material by recursion', floor=3)
    fd = repo.need_func('reader.read_arg')
    ps = fd.params()
    opener = ps[1] if len(ps) > 1 else None
    cls_var = None
    for n in ast.walk(fd.node):
        if isinstance(n, ast.Assign) and isinstance(n.value, ast.Subscript) and norm(n.value.value) == 'ARG_BEGIN_TO_ENV' \
                and norm(n.value.slice) == '%s.category' % opener and isinstance(n.targets[0], ast.Name):
            cls_var = n.targets[0].id
    rr.ob(cls_var is not None, {'class_selected_by': 'ARG_BEGIN_TO_ENV[%s.category]' % opener})
    if cls_var is None:
        rr.fail(Finding('R09.e', 'reader', fd.qual, 'group class selection', 'the group class is not selected by the '
                        'opener\'s kind', line=fd.node.lineno))
        return rr
    cmps = [n for n in ast.walk(fd.node) if isinstance(n, ast.Compare) and 'category' in norm(n.left)]
    for c in cmps:
        ok = norm(c.comparators[0]) == '%s.token_end' % cls_var and isinstance(c.ops[0], ast.Eq) \
            and norm(c.left).endswith('.peek().category')
        rr.ob(ok, {'closer_test': norm(c)})
        if not ok:
            rr.fail(Finding('R09.e', 'reader', fd.qual, c, 'the group reader tests %s: a group could close on a '
                            'delimiter of another kind (or not close on its own)' % norm(c), line=c.lineno))
    if not cmps:
        raise AnalysisError('read_arg: closer test vanished')
    rec = [n for n in ast.walk(fd.node) if isinstance(n, ast.Call) and isinstance(n.func, ast.Name) and n.func.id == 'read_expr']
    rr.ob(bool(rec), {'nested_by_recursion': len(rec)})
    if not rec:
        rr.fail(Finding('R09.e', 'reader', fd.qual, 'no recursion into read_expr', 'group contents are not read by '
                        'recursion', line=fd.node.lineno))
    return rr


def r09_c(ctx):
    """spacer rolled back when nothing attaches -- instance of conservation on the break paths"""
    e = rules_conserve.engine(ctx)
    rr = RuleResult('R09.c', 'a whitespace token read before an argument position is rolled back when no argument '
                    'follows, and is dropped only when an argument is attached', floor=1)
    hits = [f for f in e.findings.values() if f.kind in ('spacer-dropped', 'unmatched-rollback', 'rollback-of-stored')]
    n = e.discharged.get('rolledback', 0) + e.discharged.get('licensed-spacer', 0)
    rr.instances = n + len(hits)
    rr.discharged = n
    rr.keys = {'rolledback:%d' % e.discharged.get('rolledback', 0), 'licensed:%d' % e.discharged.get('licensed-spacer', 0)}
    rr.samples = [{'rolled_back_on_paths': e.discharged.get('rolledback', 0), 'licensed_on_paths': e.discharged.get('licensed-spacer', 0)}]
    for f in hits:
        rr.fail(rules_conserve._finding('R09.c', f))
    return rr


def r09_j(ctx):
    """the passes of read_args: the first bracket pass and the first brace pass run unconditionally; a further pass starts
    only on a group of its own kind that is directly adjacent, and on nothing else"""
    repo = ctx.repo
    rr = RuleResult('R09.j', 'in read_args the first bracket pass and the first brace pass are unconditional; every later '
                    'pass is entered only when the next token opens a group of that pass\'s kind (no whitespace in '
                    'between), and no pass is made to depend on anything but the next token\'s kind and the counts', floor=4)
    fd = repo.need_func('reader.read_args')
    ps = fd.params()
    cur = ps[0]
    kinds = {}
    for lfd, loop in _arg_loops(repo):
        lc = lfd.params()[0]
        ks = {norm(n.comparators[0]) for n in ast.walk(loop) if isinstance(n, ast.Compare) and len(n.ops) == 1
              and isinstance(n.ops[0], ast.Eq) and norm(n.left) == '%s.peek().category' % lc}
        if len(ks) != 1:
            raise AnalysisError('%s: the kind that opens an argument is not a single equality test' % lfd.qual)
        kinds[lfd.node.name] = ks.pop()
    calls = [n for n in ast.walk(fd.node) if isinstance(n, ast.Call) and isinstance(n.func, ast.Name) and n.func.id in kinds]
    calls.sort(key=lambda n: (n.lineno, n.col_offset))
    if len(calls) < 2:
        raise AnalysisError('read_args: the argument passes are not calls of the two argument loops')
    for c in calls:
        p = getattr(c, '_parent', None)
        while p is not None and p is not fd.node:
            if isinstance(p, (ast.For, ast.While, ast.Try, ast.FunctionDef, ast.Lambda)):
                raise AnalysisError('read_args: an argument pass inside a %s is not a recognised shape' % type(p).__name__)
            p = getattr(p, '_parent', None)
    seen = set()
    foreign = set(ps) - {cur}
    for c in calls:
        name = c.func.id
        later = name in seen
        seen.add(name)
        guards = rules_reader._guards_dominating(fd, c)
        atoms_true = []
        bad = []
        for t, tr in guards:
            conj = tr and not (isinstance(t, ast.BoolOp) and isinstance(t.op, ast.Or))
            for a in _bool_atoms(t):
                txt = norm(a)
                names = {x.id for x in ast.walk(a) if isinstance(x, ast.Name)}
                is_count = isinstance(a, ast.Compare) and isinstance(a.left, ast.Name) and a.left.id in ps \
                    and all(isinstance(k, ast.Constant) and isinstance(k.value, int) for k in a.comparators)
                is_has = txt == '%s.hasNext()' % cur
                is_kind = isinstance(a, ast.Compare) and norm(a.left) == '%s.peek().category' % cur and len(a.ops) == 1 \
                    and isinstance(a.ops[0], ast.Eq)
                if is_count:
                    continue
                if is_has or is_kind:
                    if not later:
                        bad.append((a, 'the first %s pass is entered only under %s' % (name, txt[:50])))
                    elif conj:
                        atoms_true.append(txt)
                    continue
                if names & foreign or cur in names:
                    bad.append((a, 'the %s pass depends on %s' % (name, txt[:50])))
                else:
                    raise AnalysisError('read_args: condition %s on an argument pass is not recognised' % txt[:60])
        want = '%s.peek().category == %s' % (cur, kinds[name])
        if later and want not in atoms_true:
            bad.append((c, 'a further %s pass is entered without testing that the next token is %s' % (name, kinds[name])))
        rr.ob(not bad, {'pass': '%s:%d' % (name, c.lineno), 'further_pass': later,
                        'entered_under': [norm(t)[:70] for t, tr in guards]})
        for a, why in bad:
            rr.fail(Finding('R09.j', 'reader', fd.qual, a, why + ': a group separated from the arguments by whitespace '
                            'would be attached, or an adjacent one left in the text depending on the context', line=a.lineno))
    return rr


def r02_c(ctx):
    """remaining-argument counts returned by the argument readers are threaded on, not dropped"""
    repo = ctx.repo
    mod = repo.modules['reader']
    cg = callgraph.graph(ctx)
    rr = RuleResult('R02.c', 'a reader that returns its decremented count parameter has that result threaded into every '
                    'later use of the count: the remaining number of arguments is never reset to the full signature',
                    floor=2)
    n = 0
    for fd in mod.functions.values():
        ps = fd.params()
        # a count parameter that is decremented and returned -- directly, or through a local copy (`left = n; left -= 1; return left`)
        copies = {}
        for x in ast.walk(fd.node):
            if isinstance(x, ast.Assign) and len(x.targets) == 1 and isinstance(x.targets[0], ast.Name) \
                    and isinstance(x.value, ast.Name) and x.value.id in ps:
                copies[x.targets[0].id] = x.value.id
        dec0 = {x.target.id for x in ast.walk(fd.node) if isinstance(x, ast.AugAssign) and isinstance(x.target, ast.Name)}
        ret0 = {x.value.id for x in ast.walk(fd.node) if isinstance(x, ast.Return) and isinstance(x.value, ast.Name)}
        counted = sorted({(v if v in ps else copies.get(v)) for v in (dec0 & ret0) if v in ps or v in copies} - {None})
        if not counted:
            continue
        for p in counted:
            idx = ps.index(p)
            for caller, call in cg.call_sites_of(fd):
                arg = call.args[idx] if idx < len(call.args) else next((k.value for k in call.keywords if k.arg == p), None)
                if not isinstance(arg, ast.Name):
                    continue
                n += 1
                stmt = call
                while stmt is not None and not isinstance(stmt, ast.stmt):
                    stmt = getattr(stmt, '_parent', None)
                rebinds = isinstance(stmt, ast.Assign) and stmt.value is call and any(
                    isinstance(t, ast.Name) and t.id == arg.id for t in stmt.targets)
                # is the count variable read again after this statement?
                later = [x for x in ast.walk(caller.node) if isinstance(x, ast.Name) and x.id == arg.id
                         and isinstance(x.ctx, ast.Load) and x.lineno > stmt.end_lineno]
                # inside a loop the call itself reads the count again on the next iteration
                lp = getattr(stmt, '_parent', None)
                while lp is not None and lp is not caller.node:
                    if isinstance(lp, (ast.For, ast.While)):
                        later = later or [arg]
                    lp = getattr(lp, '_parent', None)
                ok = rebinds or not later
                rr.ob(ok, {'call': '%s:%d %s' % (caller.qual, call.lineno, norm(call)[:50]), 'count': arg.id,
                           'result_rebinds_count': rebinds, 'count_read_later': bool(later)})
                if not ok:
                    rr.fail(Finding('R02.c', 'reader', caller.qual, stmt, 'the remaining count returned by %s is dropped '
                                    'while %s is used again later: a command with a fixed signature restarts from its '
                                    'full argument count and absorbs a following group' % (fd.qual, arg.id), line=call.lineno))
    if n == 0:
        raise AnalysisError('no counted argument reader found')
    return rr


def r09_g(ctx):
    """whether a group is attached depends only on the kind of the next token (and the remaining count)"""
    repo = ctx.repo
    rr = RuleResult('R09.g', 'in the argument loops the test that attaches a group reads nothing but the kind of the next '
                    'token and the remaining count: no further look-ahead, no other state', floor=2)
    for fd, loop in _arg_loops(repo):
        cur = fd.params()[0]
        # the calls that attach a group: args.append(read_arg(src, next(src), ...))
        attaches = [n for n in ast.walk(loop) if isinstance(n, ast.Call) and isinstance(n.func, ast.Name) and n.func.id == 'read_arg']
        if not attaches:
            raise AnalysisError('%s: no group is attached in the loop' % fd.qual)
        for call in attaches:
            guards = rules_reader._guards_dominating(fd, call)
            guards = [(t, tr) for t, tr in guards if any(isinstance(x, ast.Name) and x.id == cur for x in ast.walk(t))]
            bad = []
            for t, tr in guards:
                for a in _bool_atoms(t):
                    txt = norm(a)
                    ok = txt == '%s.hasNext()' % cur or (isinstance(a, ast.Compare) and norm(a.left) == '%s.peek().category' % cur
                                                         and isinstance(a.ops[0], (ast.Eq, ast.NotEq, ast.In, ast.NotIn)))
                    ok = ok or (isinstance(a, ast.Compare) and isinstance(a.left, ast.Name) and a.left.id in fd.params()
                                and isinstance(a.comparators[0], ast.Constant))
                    if not ok:
                        bad.append(a)
            rr.ob(not bad and bool(guards), {'loop': fd.qual, 'attach_test': [norm(t)[:70] for t, tr in guards]})
            for a in bad:
                rr.fail(Finding('R09.g', 'reader', fd.qual, a, 'whether a group is attached as an argument also depends on '
                                '%s: groups that follow the command (after at most one line break) can be left in the text '
                                'or foreign ones attached' % norm(a)[:60], line=a.lineno))
            if not guards:
                rr.fail(Finding('R09.g', 'reader', fd.qual, call, 'a group is attached without testing the kind of the next '
                                'token', line=call.lineno))
    return rr


def _bool_atoms(t):
    if isinstance(t, ast.BoolOp):
        out = []
        for v in t.values:
            out += _bool_atoms(v)
        return out
    if isinstance(t, ast.UnaryOp) and isinstance(t.op, ast.Not):
        return _bool_atoms(t.operand)
    return [t]


def r09_h(ctx):
    """names are looked up in collections of names, never in a string constant (substring test)"""
    repo = ctx.repo
    rr = RuleResult('R09.h', 'a command or environment name is tested for membership in a collection of names, not in a '
                    'string constant: `name in "abc def"` is a substring test, so every fragment of the listed names '
                    'matches too', floor=3)
    for mname in ('reader', 'tokens'):
        m = repo.modules[mname]
        for fd in m.functions.values():
            for n in ast.walk(fd.node):
                if not (isinstance(n, ast.Compare) and len(n.ops) == 1 and isinstance(n.ops[0], (ast.In, ast.NotIn))):
                    continue
                r = n.comparators[0]
                try:
                    v = Folder(repo, m).ev(r)
                except Unfoldable:
                    continue
                is_str = isinstance(v, str) and len(v) > 1
                rr.ob(not is_str, {'function': fd.fq, 'test': norm(n)[:60], 'right_operand': type(v).__name__})
                if is_str:
                    rr.fail(Finding('R09.h', mname, fd.qual, n, 'the membership test %s has the string %r on its right: it is '
                                    'a substring test, so names such as %r match although they are not listed'
                                    % (norm(n)[:50], v[:30], v[1:3]), line=n.lineno))
    return rr
