"""Sequence algebra: *which sequence does this function produce?*  -- decided symbolically, so that a view can be
compared with its specification whatever way it is written (yield loop, list building with append/extend,
comprehension, itertools.chain / chain.from_iterable, filter/map, nested helper).

Terms
    ('empty',)
    ('one', expr)                 one element, given by an expression
    ('src', expr)                 the elements of an opaque iterable expression, in order
    ('cat', (t1, t2, ...))        concatenation
    ('for', var, iter, body)      for each element `var` of the sequence `iter`: the sequence `body`
    ('if', cond, then, else)      conditional segment
    ('fx', stmt)                  a statement executed for its effect at this point (kept in order)

`produce(fnode)` evaluates a function body (generator or returning an iterable); `canon(term)` gives a canonical
string (bound variables renamed by depth, concatenations flattened, conditions replaced by their truth table over
their atomic sub-conditions), so two functions produce the same sequence iff their canonical strings are equal
(up to the recognised algebra; anything else raises NotSequence and the rule using it is undecided)."""
import ast
import copy
import itertools

from .model import norm
from . import boolpath


class NotSequence(Exception):
    pass


EMPTY = ('empty',)


def cat(*ts):
    out = []
    for t in ts:
        if t == EMPTY:
            continue
        if t[0] == 'cat':
            out.extend(t[1])
        else:
            out.append(t)
    if not out:
        return EMPTY
    if len(out) == 1:
        return out[0]
    return ('cat', tuple(out))


def _is_call(e, names):
    return isinstance(e, ast.Call) and norm(e.func) in names


class SeqEval:
    def __init__(self, fnode, module_funcs=None):
        self.fnode = fnode
        self.module_funcs = module_funcs or {}
        self.is_gen = any(isinstance(n, (ast.Yield, ast.YieldFrom)) for n in self._own_nodes(fnode))
        self.fresh = 0

    @staticmethod
    def _own_nodes(fnode):
        """nodes of the function, not those of nested functions / lambdas"""
        stack = list(ast.iter_child_nodes(fnode))
        while stack:
            n = stack.pop()
            yield n
            if isinstance(n, (ast.FunctionDef, ast.Lambda)):
                continue
            stack.extend(ast.iter_child_nodes(n))

    # ------------------------------------------------------------------ expressions as sequences
    def seq(self, e, env):
        if isinstance(e, ast.Name):
            if e.id in env['acc']:
                return env['acc'][e.id]
            if e.id in env['loc']:
                return self.seq(env['loc'][e.id], env)
            return ('src', e)
        if _is_call(e, ('itertools.chain', 'chain')):
            parts = []
            for a in e.args:
                if isinstance(a, ast.Starred):
                    parts.append(self.flatten(self.seq(a.value, env), env))
                else:
                    parts.append(self.seq(a, env))
            return cat(*parts)
        if _is_call(e, ('itertools.chain.from_iterable', 'chain.from_iterable')) and len(e.args) == 1:
            return self.flatten(self.seq(e.args[0], env), env)
        if isinstance(e, (ast.GeneratorExp, ast.ListComp)):
            return self.comp(e, 0, env)
        if isinstance(e, ast.Call) and isinstance(e.func, ast.Name) and e.func.id in ('list', 'tuple', 'iter') and len(e.args) == 1 \
                and not e.keywords:
            return self.seq(e.args[0], env)
        if isinstance(e, (ast.List, ast.Tuple)):
            parts = []
            for x in e.elts:
                if isinstance(x, ast.Starred):
                    parts.append(self.seq(x.value, env))
                else:
                    parts.append(('one', self.subst(x, env)))
            return cat(*parts)
        if isinstance(e, ast.IfExp):
            return ('if', self.subst(e.test, env), self.seq(e.body, env), self.seq(e.orelse, env))
        return ('src', self.subst(e, env))

    def elem(self, e, env, depth=0):
        """the term for one produced element; a call of a nested function of this function is evaluated in place
        (its returns are the element)"""
        if isinstance(e, ast.Call) and isinstance(e.func, ast.Name) and not e.keywords and depth < 3 \
                and not any(isinstance(a, ast.Starred) for a in e.args):
            nested = [n for n in ast.walk(self.fnode) if isinstance(n, ast.FunctionDef) and n is not self.fnode and n.name == e.func.id]
            if not nested and e.func.id in self.module_funcs and not self.module_funcs[e.func.id].decorator_list:
                nested = [self.module_funcs[e.func.id]]     # a module-level helper that builds the element
            if len(nested) == 1 and len(nested[0].args.args) == len(e.args) and not nested[0].args.vararg and not nested[0].args.kwarg:
                h = nested[0]
                ren = dict(zip([a.arg for a in h.args.args], [self.subst(a, env) for a in e.args]))

                class S(ast.NodeTransformer):
                    def visit_Name(self, n):
                        if n.id in ren and isinstance(n.ctx, ast.Load):
                            return copy.deepcopy(ren[n.id])
                        return n
                body = [S().visit(copy.deepcopy(b)) for b in h.body
                        if not (isinstance(b, ast.Expr) and isinstance(b.value, ast.Constant))]
                return self.elem_block(body, env, depth + 1)
        return ('one', self.subst(e, env))

    def elem_block(self, stmts, env, depth):
        out = EMPTY
        for i, s_ in enumerate(stmts):
            if isinstance(s_, ast.Return):
                if s_.value is None:
                    raise NotSequence('helper returns nothing')
                return cat(out, self.elem(s_.value, env, depth))
            if isinstance(s_, ast.If):
                rest = stmts[i + 1:]
                a = self.elem_block(list(s_.body) + (rest if not self._ends(s_.body) else []), env, depth)
                b = self.elem_block(list(s_.orelse) + (rest if not self._ends(s_.orelse) else []), env, depth)
                return cat(out, ('if', self.subst(s_.test, env), a, b))
            if isinstance(s_, (ast.Assign, ast.AugAssign, ast.Expr, ast.Assert)):
                out = cat(out, ('fx', self._subst_stmt(s_, env)))
                continue
            raise NotSequence('helper statement %s' % type(s_).__name__)
        raise NotSequence('helper falls off its end')

    @staticmethod
    def _ends(stmts):
        return bool(stmts) and isinstance(stmts[-1], (ast.Return, ast.Raise))

    def comp(self, e, i, env):
        if i == len(e.generators):
            return self.elem(e.elt, env)
        g = e.generators[i]
        if g.is_async or not isinstance(g.target, ast.Name):
            raise NotSequence('comprehension target')
        body = self.comp(e, i + 1, env)
        for c in reversed(g.ifs):
            body = ('if', self.subst(c, env), body, EMPTY)
        return ('for', g.target.id, self.seq(g.iter, env), body)

    def flatten(self, t, env):
        """t is a sequence of iterables: the concatenation of their elements"""
        k = t[0]
        if k == 'empty':
            return t
        if k == 'one':
            return self.seq(t[1], env)
        if k == 'src':
            self.fresh += 1
            v = '_it%d' % self.fresh
            return ('for', v, t, ('src', ast.Name(v, ast.Load())))
        if k == 'cat':
            return cat(*[self.flatten(x, env) for x in t[1]])
        if k == 'for':
            return ('for', t[1], t[2], self.flatten(t[3], env))
        if k == 'if':
            return ('if', t[1], self.flatten(t[2], env), self.flatten(t[3], env))
        if k == 'fx':
            return t
        raise NotSequence(k)

    def subst(self, e, env):
        """the expression with simple locals replaced by their definitions"""
        loc = env['loc']
        if not loc:
            return e

        class S(ast.NodeTransformer):
            def visit_Name(self, n):
                if isinstance(n.ctx, ast.Load) and n.id in loc:
                    return copy.deepcopy(loc[n.id])
                return n
        return S().visit(copy.deepcopy(e))

    # ------------------------------------------------------------------ statements
    def block(self, stmts, env, in_loop, conts=()):
        """Evaluate `stmts`, then (if control falls through) the statement lists in `conts`, all at the same loop level.
        -> (term produced by yields, returned sequence term or None).  env is updated in place; at a conditional both
        arms run to the end of the level independently and their environments are merged."""
        produced = EMPTY
        for i, s in enumerate(stmts):
            if isinstance(s, ast.Expr) and isinstance(s.value, ast.Constant):
                continue
            if isinstance(s, ast.Expr) and isinstance(s.value, ast.Yield):
                if s.value.value is None:
                    raise NotSequence('bare yield')
                produced = cat(produced, self.elem(s.value.value, env))
                continue
            if isinstance(s, ast.Expr) and isinstance(s.value, ast.YieldFrom):
                produced = cat(produced, self.seq(s.value.value, env))
                continue
            if isinstance(s, ast.Pass):
                continue
            if isinstance(s, ast.Return):
                if self.is_gen:
                    if s.value is not None:
                        raise NotSequence('return with a value in a generator')
                    return produced, None
                if s.value is None:
                    raise NotSequence('return without a value')
                return produced, self.seq(s.value, env)
            if isinstance(s, ast.Continue):
                if not in_loop:
                    raise NotSequence('continue outside a loop')
                return produced, None
            if isinstance(s, (ast.Break, ast.Raise)):
                raise NotSequence(type(s).__name__)
            if isinstance(s, ast.If):
                rest = stmts[i + 1:]
                c = self.subst(s.test, env)
                e1, e2 = self.fork(env), self.fork(env)
                p1, r1 = self.block(s.body, e1, in_loop, (rest,) + tuple(conts))
                p2, r2 = self.block(s.orelse, e2, in_loop, (rest,) + tuple(conts))
                self.merge(env, c, e1, e2)
                ret = None
                if r1 is not None or r2 is not None:
                    if self.is_gen:
                        raise NotSequence('value returned in a generator')
                    # an arm that ends without returning returns None: not a sequence
                    if r1 is None or r2 is None:
                        raise NotSequence('one arm returns a sequence, the other nothing')
                    ret = ('if', c, r1, r2)
                both = ('if', c, p1, p2) if (p1 != EMPTY or p2 != EMPTY) else EMPTY
                return cat(produced, both), ret
            if isinstance(s, ast.For):
                if s.orelse or not isinstance(s.target, ast.Name):
                    raise NotSequence('loop shape')
                it = self.seq(s.iter, env)
                inner = self.fork(env)
                for a in list(inner['acc']):
                    inner['acc'][a] = EMPTY
                inner['loc'].pop(s.target.id, None)
                p, r = self.block(s.body, inner, True, ())
                if r is not None:
                    raise NotSequence('return inside a loop')
                if any(isinstance(x, ast.Return) for b in s.body for x in ast.walk(b)):
                    raise NotSequence('return inside a loop')
                produced = cat(produced, ('for', s.target.id, it, p) if p != EMPTY else EMPTY)
                for a, delta in inner['acc'].items():
                    if a in env['acc'] and delta != EMPTY:
                        env['acc'][a] = cat(env['acc'][a], ('for', s.target.id, it, delta))
                continue
            if isinstance(s, ast.Assign) and len(s.targets) == 1 and isinstance(s.targets[0], ast.Name):
                nm, v = s.targets[0].id, s.value
                if isinstance(v, (ast.List, ast.Tuple)) or (isinstance(v, ast.Call) and isinstance(v.func, ast.Name)
                                                          and v.func.id == 'list' and len(v.args) <= 1):
                    env['acc'][nm] = self.seq(v, env) if not (isinstance(v, ast.Call) and not v.args) else EMPTY
                    env['loc'].pop(nm, None)
                    continue
                if in_loop or self._stores(nm) > 1:
                    # a local (re)bound per iteration: an effect in sequence
                    produced = cat(produced, ('fx', self._subst_stmt(s, env)))
                    env['loc'].pop(nm, None)
                    continue
                env['loc'][nm] = self.subst(v, env)
                continue
            if isinstance(s, ast.AugAssign) and isinstance(s.target, ast.Name) and isinstance(s.op, ast.Add) \
                    and s.target.id in env['acc']:
                env['acc'][s.target.id] = cat(env['acc'][s.target.id], self.seq(s.value, env))
                continue
            if isinstance(s, ast.Expr) and isinstance(s.value, ast.Call) and isinstance(s.value.func, ast.Attribute) \
                    and isinstance(s.value.func.value, ast.Name) and s.value.func.value.id in env['acc'] and len(s.value.args) == 1:
                a, m = s.value.func.value.id, s.value.func.attr
                if m == 'append':
                    env['acc'][a] = cat(env['acc'][a], self.elem(s.value.args[0], env))
                    continue
                if m == 'extend':
                    env['acc'][a] = cat(env['acc'][a], self.seq(s.value.args[0], env))
                    continue
                raise NotSequence('list method %s' % m)
            if isinstance(s, (ast.Assert, ast.Assign, ast.AugAssign, ast.Expr)):
                produced = cat(produced, ('fx', self._subst_stmt(s, env)))
                continue
            if isinstance(s, ast.FunctionDef):
                continue        # nested helpers that survived inlining are opaque callables
            raise NotSequence('statement %s' % type(s).__name__)
        if conts:
            p, r = self.block(conts[0], env, in_loop, conts[1:])
            return cat(produced, p), r
        return produced, None

    def _stores(self, name):
        return sum(1 for n in self._own_nodes(self.fnode) if isinstance(n, ast.Name) and n.id == name and isinstance(n.ctx, ast.Store))

    def _subst_stmt(self, s, env):
        s2 = copy.deepcopy(s)
        loc = env['loc']

        class S(ast.NodeTransformer):
            def visit_Name(self, n):
                if isinstance(n.ctx, ast.Load) and n.id in loc:
                    return copy.deepcopy(loc[n.id])
                return n
        return S().visit(s2)

    @staticmethod
    def fork(env):
        return {'acc': dict(env['acc']), 'loc': dict(env['loc'])}

    @staticmethod
    def merge(env, c, e1, e2):
        """environments after the two arms of a conditional (each ran to the end of the level)"""
        def items(t):
            return list(t[1]) if t[0] == 'cat' else ([] if t == EMPTY else [t])
        for a in set(e1['acc']) | set(e2['acc']):
            t1, t2 = e1['acc'].get(a, EMPTY), e2['acc'].get(a, EMPTY)
            if t1 == t2:
                env['acc'][a] = t1
                continue
            l1, l2 = items(t1), items(t2)
            k = 0
            while k < len(l1) and k < len(l2) and l1[k] == l2[k]:
                k += 1
            env['acc'][a] = cat(*(l1[:k] + [('if', c, cat(*l1[k:]), cat(*l2[k:]))]))
        for k_ in set(e1['loc']) | set(e2['loc']):
            if k_ in e1['loc'] and k_ in e2['loc'] and ast.dump(e1['loc'][k_]) == ast.dump(e2['loc'][k_]):
                env['loc'][k_] = e1['loc'][k_]
            else:
                env['loc'].pop(k_, None)

    def produce(self):
        body = [s for s in self.fnode.body if not (isinstance(s, ast.Expr) and isinstance(s.value, ast.Constant)
                                                   and isinstance(s.value.value, str))]
        env = {'acc': {}, 'loc': {}}
        p, r = self.block(body, env, False, ())
        if self.is_gen:
            return p
        if r is None:
            raise NotSequence('no sequence is returned')
        if p != EMPTY:
            r = cat(p, r)       # effects before the return
        return r


# --------------------------------------------------------------------------- canonical form

LATTICE = {'subclass': None}      # optional oracle: subclass(a, b) -> bool, set by the rule that has the repository


def _reduce_isinstance(c):
    """isinstance(x, (A, B)) with A a subclass of B is isinstance(x, B)"""
    sub = LATTICE.get('subclass')
    if sub is None:
        return c

    class R(ast.NodeTransformer):
        def visit_Call(self, n):
            self.generic_visit(n)
            if isinstance(n.func, ast.Name) and n.func.id == 'isinstance' and len(n.args) == 2 and isinstance(n.args[1], ast.Tuple):
                names = [norm(e) for e in n.args[1].elts]
                keep = [e for e, a in zip(n.args[1].elts, names)
                        if not any(a != b and sub(a, b) for b in names)]
                keep = sorted(keep, key=norm)
                n.args[1] = keep[0] if len(keep) == 1 else ast.Tuple(keep, ast.Load())
            return n
    return R().visit(copy.deepcopy(c))


def _cond_key(c, ren):
    """truth table of the condition over its atoms (atoms by normalised text after renaming)"""
    c = _reduce_isinstance(_rename(c, ren))
    atoms = []
    boolpath._atoms(c, {}, atoms)
    if len(atoms) > 8:
        return norm(c)
    rows = []
    for bits in itertools.product((False, True), repeat=len(atoms)):
        rows.append('1' if boolpath._ev(c, {}, dict(zip(atoms, bits))) else '0')
    order = sorted(range(len(atoms)), key=lambda i: atoms[i])
    if order != list(range(len(atoms))):
        # re-evaluate with atoms in sorted order so that operand order does not matter
        satoms = [atoms[i] for i in order]
        rows = []
        for bits in itertools.product((False, True), repeat=len(satoms)):
            rows.append('1' if boolpath._ev(c, {}, dict(zip(satoms, bits))) else '0')
        atoms = satoms
    return '{%s|%s}' % (';'.join(atoms), ''.join(rows))


def _rename(e, ren):
    if not ren:
        return e

    class R(ast.NodeTransformer):
        def visit_Name(self, n):
            if n.id in ren:
                return ast.copy_location(ast.Name(ren[n.id], n.ctx), n)
            return n
    return R().visit(copy.deepcopy(e))


def canon(t, ren=None, depth=0, locs=None):
    ren = dict(ren or {})
    locs = locs if locs is not None else {}
    k = t[0]
    if k == 'empty':
        return '()'
    if k == 'one':
        return 'one(%s)' % norm(_rename(t[1], ren))
    if k == 'src':
        return 'src(%s)' % norm(_rename(t[1], ren))
    if k == 'cat':
        return ' ++ '.join(canon(x, ren, depth, locs) for x in t[1])
    if k == 'for':
        it = canon(t[2], ren, depth, locs)
        ren2 = dict(ren)
        ren2[t[1]] = '_v%d' % depth
        return 'for _v%d in [%s]: [%s]' % (depth, it, canon(t[3], ren2, depth + 1, dict(locs)))
    if k == 'if':
        a, b = canon(t[2], ren, depth, dict(locs)), canon(t[3], ren, depth, dict(locs))
        if a == b:
            return a
        return 'if %s: [%s] else: [%s]' % (_cond_key(t[1], ren), a, b)
    if k == 'fx':
        s = t[1]
        # locals assigned by effects are renamed in order of appearance
        if isinstance(s, ast.Assign) and len(s.targets) == 1 and isinstance(s.targets[0], ast.Name):
            nm = s.targets[0].id
            if nm not in ren:
                ren[nm] = '_l%d' % len(locs)
                locs[nm] = ren[nm]
        ren.update(locs)
        return 'fx(%s)' % norm(_rename(s, ren))
    raise NotSequence(k)


def canon_seq(t):
    """canonical string; effect-assigned locals keep their canonical names for the elements that follow"""
    def walk(t, ren, depth):
        k = t[0]
        if k == 'cat':
            parts = []
            for x in t[1]:
                parts.append(walk(x, ren, depth))
            return ' ++ '.join(parts)
        if k == 'fx':
            s = t[1]
            if isinstance(s, ast.Assign) and len(s.targets) == 1 and isinstance(s.targets[0], ast.Name):
                nm = s.targets[0].id
                if nm not in ren:
                    ren[nm] = '_l%d' % sum(1 for v in ren.values() if v.startswith('_l'))
            return 'fx(%s)' % norm(_rename(s, ren))
        if k == 'for':
            it = walk(t[2], ren, depth)
            ren2 = dict(ren)
            ren2[t[1]] = '_v%d' % depth
            return 'for _v%d in [%s]: [%s]' % (depth, it, walk(t[3], ren2, depth + 1))
        if k == 'if':
            # nested conditionals with a shared arm are one compound condition:
            #   if c: (if d: X else: Y) else: Y  ==  if c and d: X else: Y      (and the three mirror images)
            c, x, y = t[1], t[2], t[3]
            same = lambda p, q: walk(p, dict(ren), depth) == walk(q, dict(ren), depth)      # noqa: E731
            again = True
            while again:
                again = False
                if x[0] == 'if' and same(x[3], y):
                    c, x, again = ast.BoolOp(ast.And(), [c, x[1]]), x[2], True
                elif x[0] == 'if' and same(x[2], y):
                    c, x, again = ast.BoolOp(ast.And(), [c, ast.UnaryOp(ast.Not(), x[1])]), x[3], True
                elif y[0] == 'if' and same(y[2], x):
                    c, y, again = ast.BoolOp(ast.Or(), [c, y[1]]), y[3], True
                elif y[0] == 'if' and same(y[3], x):
                    c, y, again = ast.BoolOp(ast.Or(), [c, ast.UnaryOp(ast.Not(), y[1])]), y[2], True
            t = ('if', c, x, y)
            a, b = walk(t[2], dict(ren), depth), walk(t[3], dict(ren), depth)
            if a == b:
                return a
            key = _cond_key(t[1], ren)
            # canonical polarity: the condition is false when all its atoms are false
            if '|' in key and key.endswith('}') and key[key.rindex('|') + 1] == '1':
                head, rows = key[:key.rindex('|') + 1], key[key.rindex('|') + 1:-1]
                key = head + ''.join('1' if ch == '0' else '0' for ch in rows) + '}'
                a, b = b, a
            return 'if %s: [%s] else: [%s]' % (key, a, b)
        if k == 'one':
            return 'one(%s)' % norm(_rename(t[1], ren))
        if k == 'src':
            return 'src(%s)' % norm(_rename(t[1], ren))
        if k == 'empty':
            return '()'
        raise NotSequence(k)
    return walk(t, {}, 0)


def produced(fnode, module_funcs=None):
    return canon_seq(SeqEval(fnode, module_funcs).produce())


def produced_by_source(src):
    """canonical sequence of a reference implementation given as source text (one function); the reference goes
    through the same normalising pre-passes as the package"""
    from . import model
    t = ast.parse(src)
    model.strip_annotations(t)
    model.canonicalise_conditions(t)
    model.desugar_map_filter(t)
    model.normalise_idioms(t)
    fn = [n for n in t.body if isinstance(n, ast.FunctionDef)][0]
    return produced(fn)
