"""E1 -- structured path/abstract interpreter skeleton.

The repository uses only structured control flow (no goto-like constructs), so the CFG is
walked syntax-directed: every statement maps a state to a list of (outcome, state) pairs;
conditions are decomposed with short-circuit semantics so that the right operand of
`a and b` is evaluated only in states where `a` held.  Engines subclass `Interp` and supply
the expression semantics of their abstract domain.
"""
import ast

from .model import AnalysisError

NEXT = ('next',)
BREAK = ('break',)
CONTINUE = ('continue',)
BROKE = ('broke',)      # a for loop left through `break` (on_for -> st_For)


class Raised:
    """abstract value: evaluation raised `exc` (a string such as 'StopIteration')"""

    def __init__(self, exc, node=None, note=''):
        self.exc, self.node, self.note = exc, node, note

    def __repr__(self):
        return 'Raised(%s)' % self.exc


class Unsupported(AnalysisError):
    pass


EXC_PARENTS = {
    'StopIteration': ('Exception',), 'IndexError': ('LookupError', 'Exception'),
    'KeyError': ('LookupError', 'Exception'), 'AttributeError': ('Exception',),
    'TypeError': ('Exception',), 'ValueError': ('Exception',), 'AssertionError': ('Exception',),
    'EOFError': ('Exception',), 'RuntimeError': ('Exception',), 'Exception': (),
    'LookupError': ('Exception',),
}


def exc_matches(exc, handler_types):
    if handler_types is None:
        return True
    for h in handler_types:
        if h == exc or h in EXC_PARENTS.get(exc, ('Exception',)) or h == 'BaseException':
            return True
    return False


class Interp:
    MAX_LOOP_STATES = 20000

    def __init__(self):
        self.steps = 0

    # ------------------------------------------------------------------ hooks
    def where(self, n):
        return 'line %s' % getattr(n, 'lineno', '?')

    def unsupported(self, what, n=None):
        raise Unsupported('%s (%s)' % (what, self.where(n) if n is not None else ''))

    def ev(self, n, st):
        m = getattr(self, 'ev_' + type(n).__name__, None)
        if m is None:
            self.unsupported('expression kind %s: %s' % (type(n).__name__, ast.unparse(n)[:60]), n)
        return m(n, st)

    def ev_NamedExpr(self, n, st):
        """(x := e): e is evaluated, bound to x, and is the value"""
        outs = []
        for v, s1 in self.ev(n.value, st):
            if isinstance(v, Raised):
                outs.append((v, s1))
                continue
            for s2 in self.assign(n.target, v, s1):
                outs.append((v, s2))
        return outs

    def truth(self, v, st):
        """-> [(bool, st)]"""
        raise NotImplementedError

    def assign(self, target, val, st):
        """-> [st]"""
        raise NotImplementedError

    def aug_assign(self, n, st):
        raise NotImplementedError

    def atom(self, n, st):
        outs = []
        for v, s1 in self.ev(n, st):
            if isinstance(v, Raised):
                outs.append((v, s1))
            else:
                outs += self.truth(v, s1)
        return outs

    def copy_state(self, st):
        return st.copy()

    def state_key(self, st):
        return st.key()

    def on_for(self, n, st):
        """-> list of (outcome, state); engines implement iteration semantics"""
        self.unsupported('for loop', n)

    def on_nested_def(self, n, st):
        return [(NEXT, st)]

    # ------------------------------------------------------------------ conditions
    def cond(self, n, st):
        """-> [(True|False|Raised, st)]"""
        if isinstance(n, ast.BoolOp):
            isand = isinstance(n.op, ast.And)
            outs, frontier = [], [st]
            last = len(n.values) - 1
            for i, e in enumerate(n.values):
                nxt = []
                for s0 in frontier:
                    for b, s1 in self.cond(e, s0):
                        if isinstance(b, Raised):
                            outs.append((b, s1))
                        elif b == isand and i < last:
                            nxt.append(s1)
                        else:
                            outs.append((b, s1))
                frontier = nxt
            return outs
        if isinstance(n, ast.UnaryOp) and isinstance(n.op, ast.Not):
            return [((b if isinstance(b, Raised) else (not b)), s1) for b, s1 in self.cond(n.operand, st)]
        return self.atom(n, st)

    # ------------------------------------------------------------------ statements
    def block(self, stmts, st):
        frontier, done = [st], []
        for s in stmts:
            nxt = []
            for cur in frontier:
                for out, s1 in self.stmt(s, cur):
                    if out == NEXT:
                        nxt.append(s1)
                    else:
                        done.append((out, s1))
            frontier = self.dedupe(nxt)
            if not frontier:
                break
        return done + [(NEXT, f) for f in frontier]

    def dedupe(self, states):
        seen, out = set(), []
        for s in states:
            k = self.state_key(s)
            if k is None:
                out.append(s)
            elif k not in seen:
                seen.add(k)
                out.append(s)
        return out

    def stmt(self, n, st):
        self.steps += 1
        m = getattr(self, 'st_' + type(n).__name__, None)
        if m is None:
            self.unsupported('statement kind %s' % type(n).__name__, n)
        return m(n, st)

    def _lift(self, pairs):
        """(value, state) pairs of an evaluated expression statement -> outcomes"""
        outs = []
        for v, s1 in pairs:
            if isinstance(v, Raised):
                outs.append((('raise', v.exc, v), s1))
            else:
                outs.append((NEXT, s1))
        return outs

    def st_Expr(self, n, st):
        if isinstance(n.value, ast.Constant):
            return [(NEXT, st)]
        return self._lift(self.ev(n.value, st))

    def st_Pass(self, n, st):
        return [(NEXT, st)]

    def st_Assign(self, n, st):
        outs = []
        for v, s1 in self.ev(n.value, st):
            if isinstance(v, Raised):
                outs.append((('raise', v.exc, v), s1))
                continue
            states = [s1]
            for t in n.targets:
                states = [s3 for s2 in states for s3 in self.assign(t, v, s2)]
            outs += [(NEXT, s2) for s2 in states]
        return outs

    def st_AugAssign(self, n, st):
        return self._lift(self.aug_assign(n, st))

    def st_Return(self, n, st):
        if n.value is None:
            return [(('return', None), st)]
        outs = []
        for v, s1 in self.ev(n.value, st):
            if isinstance(v, Raised):
                outs.append((('raise', v.exc, v), s1))
            else:
                outs.append((('return', v), s1))
        return outs

    def raise_type(self, n):
        e = n.exc
        if e is None:
            return 'reraise'
        if isinstance(e, ast.Call):
            e = e.func
        return ast.unparse(e)

    def st_Raise(self, n, st):
        return [(('raise', self.raise_type(n), Raised(self.raise_type(n), n, 'explicit')), st)]

    def st_Assert(self, n, st):
        outs = []
        for b, s1 in self.cond(n.test, st):
            if isinstance(b, Raised):
                outs.append((('raise', b.exc, b), s1))
            elif b:
                outs.append((NEXT, s1))
            else:
                outs.append((('raise', 'AssertionError', Raised('AssertionError', n, 'assert')), s1))
        return outs

    def st_If(self, n, st):
        outs = []
        for b, s1 in self.cond(n.test, st):
            if isinstance(b, Raised):
                outs.append((('raise', b.exc, b), s1))
            else:
                outs += self.block(n.body if b else n.orelse, s1)
        return outs

    def st_While(self, n, st):
        results, work, seen = [], [st], set()
        while work:
            cur = work.pop()
            k = self.state_key(cur)
            if k in seen:
                continue
            seen.add(k)
            if len(seen) > self.MAX_LOOP_STATES:
                raise AnalysisError('loop state space too large at %s' % self.where(n))
            for b, s1 in self.cond(n.test, cur):
                if isinstance(b, Raised):
                    results.append((('raise', b.exc, b), s1))
                    continue
                if not b:
                    results += self.block(n.orelse, s1) if n.orelse else [(NEXT, s1)]
                    continue
                for out, s2 in self.block(n.body, s1):
                    if out in (NEXT, CONTINUE):
                        for s3 in self.on_backedge(n, s2):
                            work.append(s3)
                    elif out == BREAK:
                        results.append((NEXT, s2))
                    else:
                        results.append((out, s2))
        return results

    def on_backedge(self, loop, st):
        return [st]

    def st_For(self, n, st):
        # on_for reports a loop left through `break` as BROKE; the else clause runs on every other normal exit
        outs = []
        for out, s in self.on_for(n, st):
            if out == BROKE:
                outs.append((NEXT, s))
            elif out == NEXT and n.orelse:
                outs += self.block(n.orelse, s)
            else:
                outs.append((out, s))
        return outs

    def st_Break(self, n, st):
        return [(BREAK, st)]

    def st_Continue(self, n, st):
        return [(CONTINUE, st)]

    def st_FunctionDef(self, n, st):
        return self.on_nested_def(n, st)

    def handler_types(self, h):
        if h.type is None:
            return None
        if isinstance(h.type, ast.Tuple):
            return [ast.unparse(e) for e in h.type.elts]
        return [ast.unparse(h.type)]

    def st_Try(self, n, st):
        outs = []
        for out, s1 in self.block(n.body, st):
            if out[0] == 'raise':
                handled = False
                for h in n.handlers:
                    if exc_matches(out[1], self.handler_types(h)):
                        handled = True
                        s2 = s1
                        if h.name:
                            s2 = self.bind_exc(h.name, out, s1)
                        outs += self.block(h.body, s2)
                        break
                if not handled:
                    outs.append((out, s1))
            elif out == NEXT and n.orelse:
                outs += self.block(n.orelse, s1)
            else:
                outs.append((out, s1))
        if n.finalbody:
            fin = []
            for out, s1 in outs:
                for o2, s2 in self.block(n.finalbody, s1):
                    fin.append((out if o2 == NEXT else o2, s2))
            outs = fin
        return outs

    def bind_exc(self, name, out, st):
        return st

    # ------------------------------------------------------------------ helpers for engines
    def evs(self, nodes, st):
        """evaluate nodes left to right -> [(list_of_values | Raised, st)]"""
        outs = [([], st)]
        for e in nodes:
            nxt = []
            for acc, s1 in outs:
                if isinstance(acc, Raised):
                    nxt.append((acc, s1))
                    continue
                for v, s2 in self.ev(e, s1):
                    if isinstance(v, Raised):
                        nxt.append((v, s2))
                    else:
                        nxt.append((acc + [v], s2))
            outs = nxt
        return outs

    def ev_IfExp(self, n, st):
        outs = []
        for b, s1 in self.cond(n.test, st):
            if isinstance(b, Raised):
                outs.append((b, s1))
            else:
                outs += self.ev(n.body if b else n.orelse, s1)
        return outs


def strip_doc(body):
    if body and isinstance(body[0], ast.Expr) and isinstance(body[0].value, ast.Constant) \
            and isinstance(body[0].value.value, str):
        return body[1:]
    return body
